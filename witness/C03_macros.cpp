// Witness unit for C03.R5: one function per public check macro, each applied to its own parameters.
// Not part of cpputest and never compiled into anything: the extractor parses it against /repo's current headers and
// the rule folds each function to see which assert entry point the macro's expansion calls with which operands.
#include "CppUTest/TestHarness.h"

void w_CHECK(bool c) { CHECK(c); }
void w_CHECK_TEXT(bool c) { CHECK_TEXT(c, "text"); }
void w_CHECK_TRUE(bool c) { CHECK_TRUE(c); }
void w_CHECK_TRUE_TEXT(bool c) { CHECK_TRUE_TEXT(c, "text"); }
void w_CHECK_FALSE(bool c) { CHECK_FALSE(c); }
void w_CHECK_FALSE_TEXT(bool c) { CHECK_FALSE_TEXT(c, "text"); }
void w_CHECK_EQUAL(long e, long a) { CHECK_EQUAL(e, a); }
void w_CHECK_EQUAL_TEXT(long e, long a) { CHECK_EQUAL_TEXT(e, a, "text"); }
void w_CHECK_EQUAL_ZERO(long a) { CHECK_EQUAL_ZERO(a); }
void w_CHECK_COMPARE(long e, long a) { CHECK_COMPARE(e, <, a); }
void w_STRCMP_EQUAL(const char* e, const char* a) { STRCMP_EQUAL(e, a); }
void w_STRCMP_EQUAL_TEXT(const char* e, const char* a) { STRCMP_EQUAL_TEXT(e, a, "text"); }
void w_STRNCMP_EQUAL(const char* e, const char* a, size_t t) { STRNCMP_EQUAL(e, a, t); }
void w_STRCMP_NOCASE_EQUAL(const char* e, const char* a) { STRCMP_NOCASE_EQUAL(e, a); }
void w_STRCMP_CONTAINS(const char* e, const char* a) { STRCMP_CONTAINS(e, a); }
void w_STRCMP_NOCASE_CONTAINS(const char* e, const char* a) { STRCMP_NOCASE_CONTAINS(e, a); }
void w_LONGS_EQUAL(long e, long a) { LONGS_EQUAL(e, a); }
void w_LONGS_EQUAL_TEXT(long e, long a) { LONGS_EQUAL_TEXT(e, a, "text"); }
void w_UNSIGNED_LONGS_EQUAL(unsigned long e, unsigned long a) { UNSIGNED_LONGS_EQUAL(e, a); }
#ifdef CPPUTEST_USE_LONG_LONG
void w_LONGLONGS_EQUAL(long long e, long long a) { LONGLONGS_EQUAL(e, a); }
void w_UNSIGNED_LONGLONGS_EQUAL(unsigned long long e, unsigned long long a) { UNSIGNED_LONGLONGS_EQUAL(e, a); }
#endif
void w_BYTES_EQUAL(int e, int a) { BYTES_EQUAL(e, a); }
void w_SIGNED_BYTES_EQUAL(signed char e, signed char a) { SIGNED_BYTES_EQUAL(e, a); }
void w_POINTERS_EQUAL(void* e, void* a) { POINTERS_EQUAL(e, a); }
void w_FUNCTIONPOINTERS_EQUAL(void (*e)(), void (*a)()) { FUNCTIONPOINTERS_EQUAL(e, a); }
void w_DOUBLES_EQUAL(double e, double a, double t) { DOUBLES_EQUAL(e, a, t); }
void w_MEMCMP_EQUAL(const void* e, const void* a, size_t t) { MEMCMP_EQUAL(e, a, t); }
void w_BITS_EQUAL(unsigned e, unsigned a, unsigned t) { BITS_EQUAL(e, a, t); }
void w_ENUMS_EQUAL_INT(int e, int a) { ENUMS_EQUAL_INT(e, a); }
void w_ENUMS_EQUAL_INT_TEXT(int e, int a) { ENUMS_EQUAL_INT_TEXT(e, a, "text"); }
void w_ENUMS_EQUAL_TYPE(long e, long a) { ENUMS_EQUAL_TYPE(long, e, a); }
void w_ENUMS_EQUAL_TYPE_TEXT(long e, long a) { ENUMS_EQUAL_TYPE_TEXT(long, e, a, "text"); }

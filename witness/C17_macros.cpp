// Witness unit for C17: parsed against the CURRENT headers of /repo on every run; each function holds one expansion of
// the public macro it is named after. The rule folds the function: what the expansion does is judged, not its text.
#include "CppUTest/TestHarness.h"
#include "CppUTest/TestPlugin.h"

static void (*slot)();
static void replacement() {}

void w_UT_PTR_SET()
{
    UT_PTR_SET(slot, replacement);
}

static int number_slot_storage;
static int* number_slot = &number_slot_storage;

void w_UT_PTR_SET_data(int* other)
{
    UT_PTR_SET(number_slot, other);
}

// F15 (C20.R1): TeamCityTestOutput::printFailure prints the *test* file name raw.
// A failure reported from a helper in another file whose test lives in a path containing ' or ] breaks the message.
#include "CppUTest/TestHarness.h"
#include "CppUTest/TeamCityTestOutput.h"
#include "CppUTest/TestFailure.h"
#include <string.h>
#include <stdio.h>
class Out : public TeamCityTestOutput { public: SimpleString buf; void printBuffer(const char* s) CPPUTEST_OVERRIDE { buf += s; } };
int main() {
    UtestShell shell("group", "name", "dir/it's[here]/test.cpp", 10);
    TestFailure f(&shell, "other/helper.cpp", 20, "msg");   // failure outside the test file
    Out out;
    out.printFailure(f);
    const char* s = out.buf.asCharString();
    // inside message='...' no unescaped ' may appear before the closing "' details='"
    const char* m = strstr(s, "message='") + 9;
    const char* end = strstr(s, "' details='");
    for (const char* p = m; p < end; p++) {
        if (*p == '|') { p++; continue; }
        if (*p == '\'' || *p == ']' || *p == '[') { printf("unescaped %c in message value: %s\n", *p, s); return 1; }
    }
    printf("ok: %s", s);
    return 0;
}

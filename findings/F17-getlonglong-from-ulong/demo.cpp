// F17 (C09.R4): MockNamedValue::getLongLongIntValue() on a stored unsigned long >= 2^63 returns a negative number
// instead of the stored integer or a test failure.
#include "CppUTest/TestHarness.h"
#include "CppUTest/TestTestingFixture.h"
#include "CppUTestExt/MockNamedValue.h"
#include <limits.h>
#include <stdio.h>
static long long got; 
static void body() { MockNamedValue v("x"); v.setValue((unsigned long) ULONG_MAX); got = v.getLongLongIntValue(); }
int main() {
    TestTestingFixture fixture;
    fixture.setTestFunction(body);
    fixture.runAllTests();
    if (fixture.getFailureCount() == 0 && got != (long long) 0 && got < 0) { printf("stored %lu read back as %lld without a test failure\n", (unsigned long) ULONG_MAX, got); return 1; }
    printf("ok (failures=%d)\n", (int) fixture.getFailureCount());
    return 0;
}

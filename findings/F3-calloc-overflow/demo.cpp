// F3 (C05.R1): cpputest_calloc(num, size) multiplies without overflow check: a wrapped product returns a short block.
#include "CppUTest/TestHarness.h"
#include "CppUTest/TestHarness_c.h"
#include <stdint.h>
#include <stdio.h>
int main() {
    size_t num = (SIZE_MAX / 16) + 2;       // num * 16 wraps to 16
    void* p = cpputest_calloc(num, 16);
    if (p != NULL) { printf("calloc(%zu, 16) returned a block although %zu*16 overflows size_t (only 16 bytes were allocated)\n", num, num); cpputest_free(p); return 1; }
    printf("ok\n");
    return 0;
}

// F10 (C14.R1): SimpleStringBuffer::add computes write_limit_ - positions_filled_ unguarded. After misuse messages
// have filled the buffer, starting a leak report lowers the limit below the fill: the difference wraps and
// vsnprintf is given a huge size, so the report is written past the 4096-byte buffer.
#include "CppUTest/TestHarness.h"
#include "CppUTest/MemoryLeakDetector.h"
#include <stdio.h>
#include <string.h>
struct Canary { SimpleStringBuffer buf; unsigned char guard[256]; };
int main() {
    static Canary c;
    memset(c.guard, 0xA5, sizeof(c.guard));
    for (int i = 0; i < 200; i++) c.buf.add("misuse message number %d: 0123456789012345678901234567890123456789\n", i);   // fills to the limit (4095)
    c.buf.setWriteLimit(3500);            // what startMemoryLeakReporting does (limit below the current fill)
    c.buf.add("%s", "Memory leak(s) found.\nAlloc num (1) Leak size: 10 Allocated at: file.c and line: 10. Type: \"new\"\n");
    size_t len = strlen(c.buf.toString());
    int clobbered = 0;
    for (size_t i = 0; i < sizeof(c.guard); i++) if (c.guard[i] != 0xA5) clobbered++;
    if (len > SimpleStringBuffer::SIMPLE_STRING_BUFFER_LEN - 1 || clobbered) { printf("buffer text is %zu bytes long, %d bytes behind the buffer object were overwritten\n", len, clobbered); return 1; }
    printf("ok\n");
    return 0;
}

#include "CppUTest/TestHarness.h"
#include "CppUTest/TestFailure.h"
#include <stdio.h>
#include <string.h>
int main()
{
    int bad = 0;
    SimpleString a("caf\xE9"), b("caf\xE8");
    SimpleString pa = a.printable(), pb = b.printable();
    printf("printable(caf\\xE9) = [%s]\nprintable(caf\\xE8) = [%s]\n", pa.asCharString(), pb.asCharString());
    if (pa == pb) { printf("DEMO FAIL: two different strings have the same printable form\n"); bad = 1; }
    if (strcmp(SimpleString("\xE9").printable().asCharString(), "\\xE9") != 0 && strcmp(SimpleString("\xE9").printable().asCharString(), "\xE9") != 0) {
        printf("DEMO FAIL: byte 0xE9 is rendered as [%s]: neither itself nor its own hex escape\n", SimpleString("\xE9").printable().asCharString()); bad = 1; }
    UtestShell shell("g", "n", "f.cpp", 1);
    StringEqualFailure f(&shell, "f.cpp", 2, "caf\xE9", "caf\xE8", "");
    printf("%s\n", f.getMessage().asCharString());
    if (!bad) printf("DEMO PASS\n");
    return bad;
}

#!/bin/sh
# usage: run.sh <source_root> <build_dir>
set -e
T=$(mktemp -d); trap 'rm -rf $T' EXIT
g++ -std=gnu++17 -I"$1/include" "$(dirname "$0")/demo.cpp" "$2/src/CppUTestExt/libCppUTestExt.a" "$2/src/CppUTest/libCppUTest.a" -lpthread -o $T/demo
$T/demo

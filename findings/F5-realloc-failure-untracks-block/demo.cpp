// F5 (C05.R3): when the platform realloc fails, reallocMemory has already removed the block's record:
// realloc returns NULL, the old block is still allocated, but the detector no longer knows it
// (no leak is reported for it and freeing it is reported as "non-allocated memory").
#include "CppUTest/TestHarness.h"
#include "CppUTest/MemoryLeakDetector.h"
#include "CppUTest/TestMemoryAllocator.h"
#include "CppUTest/PlatformSpecificFunctions.h"
#include <stdio.h>
static void* failingRealloc(void*, size_t) { return NULLPTR; }
class NullFail : public MemoryLeakFailure { public: int n; NullFail() : n(0) {} void fail(char*) CPPUTEST_OVERRIDE { n++; } };
int main() {
    NullFail reporter; MemoryLeakDetector detector(&reporter); detector.enable();
    TestMemoryAllocator* alloc = defaultMallocAllocator();
    char* p = detector.allocMemory(alloc, 10, "f", 1, true);
    void* (*saved)(void*, size_t) = PlatformSpecificRealloc;
    PlatformSpecificRealloc = failingRealloc;
    char* q = detector.reallocMemory(alloc, p, 20, "f", 2, true);
    PlatformSpecificRealloc = saved;
    size_t tracked = detector.totalMemoryLeaks(mem_leak_period_all);
    if (q == NULL && tracked != 1) { printf("realloc failed (NULL) but the original block is no longer tracked (%zu blocks outstanding)\n", tracked); return 1; }
    detector.deallocMemory(alloc, p, "f", 3, true);
    printf("ok\n");
    return 0;
}

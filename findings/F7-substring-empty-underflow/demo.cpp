// F7 (C13.R2, reachable from C12): SimpleString("").subString(n) for n > 0 evaluates size()-1 on an empty string;
// the unsigned difference wraps, the range check passes and a string is built from buffer + n (out of bounds).
#include "CppUTest/TestHarness.h"
#include "CppUTest/TestMemoryAllocator.h"
#include <signal.h>
#include <stdio.h>
#include <sys/mman.h>
#include <unistd.h>
static void onsegv(int) { const char m[] = "subString read outside the string's buffer\n"; (void) !write(1, m, sizeof(m) - 1); _exit(1); }
class EdgeAllocator : public TestMemoryAllocator {
public:
    EdgeAllocator() : TestMemoryAllocator("edge", "alloc", "free") {}
    char* alloc_memory(size_t size, const char*, size_t) CPPUTEST_OVERRIDE {
        size_t page = (size_t) sysconf(_SC_PAGESIZE), pages = (size + page - 1) / page + 1;
        char* base = (char*) mmap(NULL, pages * page, PROT_READ | PROT_WRITE, MAP_PRIVATE | MAP_ANONYMOUS, -1, 0);
        mprotect(base + (pages - 1) * page, page, PROT_NONE);
        return base + (pages - 1) * page - size;
    }
    void free_memory(char*, size_t, const char*, size_t) CPPUTEST_OVERRIDE {}
};
int main() {
    signal(SIGSEGV, onsegv); signal(SIGBUS, onsegv);
    static EdgeAllocator edge;
    SimpleString::setStringAllocator(&edge);
    SimpleString empty("");
    SimpleString r = empty.subString(5);
    if (!(r == "")) { printf("subString(5) of \"\" is \"%s\"\n", r.asCharString()); return 1; }
    printf("ok\n");
    return 0;
}

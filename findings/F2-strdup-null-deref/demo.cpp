// F2 (C05.R2 / C15.R5): cpputest_strdup/strndup write through the NULL that cpputest_malloc returns when out of memory.
#include "CppUTest/TestHarness.h"
#include "CppUTest/TestHarness_c.h"
#include <signal.h>
#include <stdio.h>
#include <stdlib.h>
static void onsegv(int) { const char m[] = "cpputest_strdup dereferenced NULL under simulated out-of-memory\n"; (void) !write(1, m, sizeof(m) - 1); _exit(1); }
#include <unistd.h>
int main() {
    signal(SIGSEGV, onsegv);
    cpputest_malloc_set_out_of_memory();
    char* a = cpputest_strdup("hello");
    char* b = cpputest_strndup("hello", 3);
    cpputest_malloc_set_not_out_of_memory();
    if (a != NULL || b != NULL) { printf("expected NULL from strdup/strndup when malloc fails\n"); return 1; }
    printf("ok\n");
    return 0;
}

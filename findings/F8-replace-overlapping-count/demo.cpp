// F8 (C13.R2): replace(to, with) sizes the new buffer from count(to), which counts OVERLAPPING occurrences, while the
// copy loop consumes non-overlapping ones: "aaaa".replace("aa","b") allocates 2 bytes and writes 3.
#include "CppUTest/TestHarness.h"
#include "CppUTest/TestMemoryAllocator.h"
#include <signal.h>
#include <stdio.h>
#include <sys/mman.h>
#include <unistd.h>
static void onsegv(int) { const char m[] = "replace wrote outside the buffer it allocated\n"; (void) !write(1, m, sizeof(m) - 1); _exit(1); }
class EdgeAllocator : public TestMemoryAllocator {
public:
    EdgeAllocator() : TestMemoryAllocator("edge", "alloc", "free") {}
    char* alloc_memory(size_t size, const char*, size_t) CPPUTEST_OVERRIDE {
        size_t page = (size_t) sysconf(_SC_PAGESIZE), pages = (size + page - 1) / page + 1;
        char* base = (char*) mmap(NULL, pages * page, PROT_READ | PROT_WRITE, MAP_PRIVATE | MAP_ANONYMOUS, -1, 0);
        mprotect(base + (pages - 1) * page, page, PROT_NONE);
        return base + (pages - 1) * page - size;
    }
    void free_memory(char*, size_t, const char*, size_t) CPPUTEST_OVERRIDE {}
};
int main() {
    signal(SIGSEGV, onsegv); signal(SIGBUS, onsegv);
    static EdgeAllocator edge;
    SimpleString::setStringAllocator(&edge);
    SimpleString s("aaaa");
    s.replace("aa", "b");
    if (!(s == "bb")) { printf("\"aaaa\".replace(\"aa\", \"b\") is \"%s\"\n", s.asCharString()); return 1; }
    printf("ok\n");
    return 0;
}


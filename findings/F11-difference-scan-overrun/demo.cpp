// F11 (C14.R3): the "difference starts at position" scans run past the terminating NUL when the two renderings
// coincide. CHECK_EQUAL on two distinct values whose StringFrom() texts are equal, and STRCMP_EQUAL of a newline
// against backslash-n (same printable form), read beyond the strings. Each string sits at the very end of a
// page followed by an inaccessible page, so the overrun faults deterministically.
#include "CppUTest/TestHarness.h"
#include "CppUTest/TestFailure.h"
#include "CppUTest/TestMemoryAllocator.h"
#include <signal.h>
#include <stdio.h>
#include <string.h>
#include <sys/mman.h>
#include <unistd.h>
static void onsegv(int) { const char m[] = "first-difference scan read past the end of the operand strings\n"; (void) !write(1, m, sizeof(m) - 1); _exit(1); }
class EdgeAllocator : public TestMemoryAllocator {            // every string buffer ends exactly at a guard page
public:
    EdgeAllocator() : TestMemoryAllocator("edge", "alloc", "free") {}
    char* alloc_memory(size_t size, const char*, size_t) CPPUTEST_OVERRIDE {
        size_t page = (size_t) sysconf(_SC_PAGESIZE);
        size_t pages = (size + page - 1) / page + 1;
        char* base = (char*) mmap(NULL, pages * page, PROT_READ | PROT_WRITE, MAP_PRIVATE | MAP_ANONYMOUS, -1, 0);
        mprotect(base + (pages - 1) * page, page, PROT_NONE);
        return base + (pages - 1) * page - size;
    }
    void free_memory(char*, size_t, const char*, size_t) CPPUTEST_OVERRIDE {}
};
struct Money { int cents; };
SimpleString StringFrom(const Money&) { return "1"; }
int main(int argc, char** argv) {
    signal(SIGSEGV, onsegv); signal(SIGBUS, onsegv);
    static EdgeAllocator edge;
    SimpleString::setStringAllocator(&edge);
    UtestShell shell("g", "n", "f.cpp", 1);
    if (argc < 2 || strcmp(argv[1], "check_equal") == 0) {
        CheckEqualFailure f(&shell, "f.cpp", 2, "1", "1", "");          // distinct values, equal renderings
        (void) f;
    }
    if (argc < 2 || strcmp(argv[1], "printable") == 0) {
        StringEqualFailure g(&shell, "f.cpp", 3, "a\nb", "a\\nb", "");   // raw strings differ, printable forms coincide
        (void) g;
    }
    printf("ok\n");
    return 0;
}

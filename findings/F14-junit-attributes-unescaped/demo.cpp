// F14 (C16.R1): JUnitTestOutput writes group, test name, package, test file and failure file names
// into XML attribute values without entity encoding.
#include "CppUTest/TestHarness.h"
#include "CppUTest/JUnitTestOutput.h"
#include "CppUTest/TestResult.h"
#include "CppUTest/TestFailure.h"
#include "CppUTest/PlatformSpecificFunctions.h"
#include <string>
#include <stdio.h>
static std::string captured;
static PlatformSpecificFile fopen_(const char*, const char*) { return (PlatformSpecificFile) &captured; }
static void fputs_(const char* s, PlatformSpecificFile) { captured += s; }
static void fclose_(PlatformSpecificFile) {}
int main() {
    PlatformSpecificFOpen = fopen_; PlatformSpecificFPuts = fputs_; PlatformSpecificFClose = fclose_;
    JUnitTestOutput* out = new JUnitTestOutput;
    TestResult result(*out);
    out->setPackageName("p<k>g");
    UtestShell shell("gr\"oup&", "na<me>&\"", "dir&\"x/te<st>.cpp", 7);
    result.currentGroupStarted(&shell);
    result.currentTestStarted(&shell);
    TestFailure f(&shell, "hel&per\".cpp", 20, "msg");
    result.addFailure(f);
    result.currentTestEnded(&shell);
    result.currentGroupEnded(&shell);
    delete out;
    int bad = 0;
    // attribute values are delimited by "; scan the document: inside a tag, after =" no raw < & may appear and the value ends at the next "
    const std::string& d = captured;
    const char* needles[] = { "gr\"oup&", "na<me>&\"", "dir&\"x/te<st>.cpp", "hel&per\".cpp", "p<k>g" };
    for (auto n : needles) if (d.find(n) != std::string::npos) { printf("raw text %s written into the XML document\n", n); bad = 1; }
    if (!bad) printf("ok\n");
    return bad;
}

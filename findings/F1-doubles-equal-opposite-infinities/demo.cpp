// F1 (C03.R2, C09.R5): doubles_equal(+inf, -inf, t) returns true; DOUBLES_EQUAL(+inf, -inf, 0.1) passes.
#include "CppUTest/TestHarness.h"
#include "CppUTest/TestTestingFixture.h"
#include <math.h>
#include <stdio.h>
static void body() { DOUBLES_EQUAL((double) INFINITY, -(double) INFINITY, 0.1); }
int main() {
    TestTestingFixture fixture;
    fixture.setTestFunction(body);
    fixture.runAllTests();
    if (fixture.getFailureCount() != 1) { printf("DOUBLES_EQUAL(+inf, -inf, 0.1) recorded %d failures, expected 1\n", (int) fixture.getFailureCount()); return 1; }
    printf("ok\n");
    return 0;
}

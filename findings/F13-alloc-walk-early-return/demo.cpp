// F13 (C15.R2): when one designation fires, designations later in the list do not see that allocation:
// their per-location counters lag behind and they fire one allocation too late.
#include "CppUTest/TestHarness.h"
#include "CppUTest/TestMemoryAllocator.h"
#include <stdio.h>
int main() {
    FailableMemoryAllocator alloc("failable", "malloc", "free");
    alloc.failNthAllocAt(2, "dev.c", 10);   // designated first -> ends up behind the next one in the list
    alloc.failNthAllocAt(1, "dev.c", 10);
    char* p1 = alloc.alloc_memory(8, "dev.c", 10);   // 1st at location: must fail
    char* p2 = alloc.alloc_memory(8, "dev.c", 10);   // 2nd at location: must fail
    char* p3 = alloc.alloc_memory(8, "dev.c", 10);   // 3rd: must succeed
    int bad = !(p1 == NULL && p2 == NULL && p3 != NULL);
    if (bad) printf("designated 1st and 2nd allocation at dev.c:10; got %s %s %s\n", p1 ? "ok" : "NULL", p2 ? "ok" : "NULL", p3 ? "ok" : "NULL");
    if (p1) alloc.free_memory(p1, 8, "x", 0);
    if (p2) alloc.free_memory(p2, 8, "x", 0);
    if (p3) alloc.free_memory(p3, 8, "x", 0);
    alloc.clearFailedAllocs();
    if (!bad) printf("ok\n");
    return bad;
}

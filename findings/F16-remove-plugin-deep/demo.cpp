// F16 (C17.R5): TestRegistry::removePluginByName does not remove a plugin that is third or later in the chain.
#include "CppUTest/TestHarness.h"
#include "CppUTest/TestRegistry.h"
#include "CppUTest/TestPlugin.h"
#include <stdio.h>
int main() {
    TestRegistry reg;
    TestPlugin a("A"), b("B"), c("C"), d("D");
    reg.installPlugin(&a); reg.installPlugin(&b); reg.installPlugin(&c); reg.installPlugin(&d);   // chain: D C B A
    reg.removePluginByName("A");
    int n = reg.countPlugins();
    bool still = reg.getPluginByName("A") == &a;
    if (n != 3 || still) { printf("after removing A: %d plugins, A %s\n", n, still ? "still installed" : "gone"); return 1; }
    reg.removePluginByName("C");
    if (reg.countPlugins() != 2 || reg.getPluginByName("B") != &b || reg.getPluginByName("D") != &d) { printf("removing C removed the wrong plugin\n"); return 1; }
    printf("ok\n");
    return 0;
}

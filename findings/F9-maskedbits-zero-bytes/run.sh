#!/bin/sh
# usage: run.sh <source_root> <build_dir>
set -e
T=$(mktemp -d); trap 'rm -rf $T' EXIT
clang++ -std=gnu++17 -fsanitize=shift -fno-sanitize-recover=all -I"$1/include" -include CppUTest/MemoryLeakDetectorForceInclude.h -c "$1/src/CppUTest/SimpleString.cpp" -o $T/ss.o 2>/dev/null
clang++ -std=gnu++17 -fsanitize=shift -I"$1/include" "$(dirname "$0")/demo.cpp" $T/ss.o "$2/src/CppUTestExt/libCppUTestExt.a" "$2/src/CppUTest/libCppUTest.a" -lpthread -o $T/demo
$T/demo

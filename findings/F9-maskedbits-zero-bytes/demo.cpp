// F9 (C13.R2): StringFromMaskedBits(value, mask, 0) computes 1UL << (bitCount - 1) with bitCount == 0:
// the unsigned subtraction wraps and the shift count is far beyond the width (undefined behaviour).
// run.sh compiles SimpleString.cpp itself with -fsanitize=shift so that the undefined shift is trapped.
#include "CppUTest/TestHarness.h"
#include <stdio.h>
int main() {
    SimpleString s = StringFromMaskedBits(0x5, 0xF, 0);
    printf("ok \"%s\"\n", s.asCharString());
    return 0;
}

// F18 (C05.R2): with separately allocated records (the malloc family) the record pointer returned by
// allocMemoryLeakNode is used without a null test: when that allocation fails the detector crashes
// instead of returning NULL. argv[1] = "realloc" exercises the realloc path (recorded as a known finding).
#include "CppUTest/TestHarness.h"
#include "CppUTest/MemoryLeakDetector.h"
#include "CppUTest/TestMemoryAllocator.h"
#include <signal.h>
#include <stdio.h>
#include <string.h>
#include <unistd.h>
static void onsegv(int) { const char m[] = "detector dereferenced the NULL record returned by allocMemoryLeakNode\n"; (void) !write(1, m, sizeof(m) - 1); _exit(1); }
class NoRecords : public TestMemoryAllocator {
public:
    bool failRecords;
    NoRecords() : TestMemoryAllocator("norec", "malloc", "free"), failRecords(true) {}
    char* allocMemoryLeakNode(size_t size) CPPUTEST_OVERRIDE { return failRecords ? NULLPTR : TestMemoryAllocator::allocMemoryLeakNode(size); }
};
class NullFail : public MemoryLeakFailure { public: void fail(char*) CPPUTEST_OVERRIDE {} };
int main(int argc, char** argv) {
    signal(SIGSEGV, onsegv);
    NullFail reporter; MemoryLeakDetector detector(&reporter); detector.enable();
    NoRecords alloc;
    if (argc > 1 && strcmp(argv[1], "realloc") == 0) {
        alloc.failRecords = false;
        char* p = detector.allocMemory(&alloc, 10, "f", 1, true);
        alloc.failRecords = true;
        char* q = detector.reallocMemory(&alloc, p, 20, "f", 2, true);
        printf("realloc returned %p\n", (void*) q);
        return 0;
    }
    char* p = detector.allocMemory(&alloc, 10, "f", 1, true);
    if (p != NULL) { printf("expected NULL\n"); return 1; }
    if (detector.totalMemoryLeaks(mem_leak_period_all) != 0) { printf("a block is tracked although the allocation failed\n"); return 1; }
    printf("ok\n");
    return 0;
}

// F12 (C15.R1): a designation "fail the n-th allocation AT file:line" also fires on the n-th allocation overall.
#include "CppUTest/TestHarness.h"
#include "CppUTest/TestMemoryAllocator.h"
#include <stdio.h>
int main() {
    FailableMemoryAllocator alloc("failable", "malloc", "free");
    alloc.failNthAllocAt(2, "dev.c", 10);
    char* a = alloc.alloc_memory(8, "other.c", 1);      // allocation #1 overall
    char* b = alloc.alloc_memory(8, "other.c", 2);      // allocation #2 overall, NOT at dev.c:10 -> must succeed
    int bad = (b == NULL);
    if (bad) printf("allocation #2 at other.c:2 failed although only the 2nd allocation at dev.c:10 was designated\n");
    if (a) alloc.free_memory(a, 8, "x", 0);
    if (b) alloc.free_memory(b, 8, "x", 0);
    alloc.clearFailedAllocs();
    if (!bad) printf("ok\n");
    return bad;
}

#include "CppUTest/TestHarness.h"
#include "CppUTest/TestTestingFixture.h"
#include "CppUTestExt/MockSupport.h"
#include <stdio.h>
static void body()
{
    mock().expectOneCall("foo").withParameter("a", 1).withParameter("b", 2);
    mock().expectOneCall("foo").withParameter("a", 1).withParameter("b", 3);
    mock().actualCall("foo").withParameter("a", 1).withParameter("b", 3);
    mock().actualCall("foo").withParameter("b", 2);      /* parameter a is missing */
    mock().checkExpectations();
    mock().clear();
}
int main()
{
    TestTestingFixture fixture;
    fixture.setTestFunction(body);
    fixture.runAllTests();
    printf("failures: %d\n", (int) fixture.getFailureCount());
    if (fixture.getFailureCount() == 0) { printf("a call that misses parameter a was accepted as the expected call foo(a=1,b=2)\n"); return 1; }
    return 0;
}

// F4 (C05.R1): requested size + guard bytes + alignment + record size wraps around for sizes near SIZE_MAX:
// the detector asks the allocator for a tiny block and then writes guard bytes / the record far outside it.
#include "CppUTest/TestHarness.h"
#include "CppUTest/MemoryLeakDetector.h"
#include "CppUTest/TestMemoryAllocator.h"
#include <stdint.h>
#include <stdio.h>
class Recording : public TestMemoryAllocator {
public:
    size_t requested; int calls;
    Recording() : TestMemoryAllocator("rec", "malloc", "free"), requested(0), calls(0) {}
    char* alloc_memory(size_t size, const char*, size_t) CPPUTEST_OVERRIDE { requested = size; calls++; return NULLPTR; }  // never hands out memory
};
class NullFail : public MemoryLeakFailure { public: void fail(char*) CPPUTEST_OVERRIDE {} };
int main() {
    NullFail reporter; MemoryLeakDetector detector(&reporter); detector.enable();
    Recording rec;
    int bad = 0;
    size_t sizes[] = { SIZE_MAX, SIZE_MAX - 1, SIZE_MAX - 8, SIZE_MAX - 40, SIZE_MAX - 64 };
    for (size_t i = 0; i < sizeof(sizes) / sizeof(sizes[0]); i++) {
        rec.calls = 0; rec.requested = 0;
        char* p = detector.allocMemory(&rec, sizes[i], "f", 1, false);
        if (p != NULL || (rec.calls && rec.requested < sizes[i])) {
            printf("allocMemory(%zu): allocator was asked for only %zu bytes\n", sizes[i], rec.requested); bad = 1;
        }
    }
    if (!bad) printf("ok\n");
    return bad;
}

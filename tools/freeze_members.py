#!/usr/bin/env python3
"""tools/freeze_members.py — freeze, per rule module, the data members of library classes that the module (and the rule
files it imports) mentions by name: rules/members.json = {module: [[class, member], ...]}. ./check verifies before a
module runs that every frozen member still exists; a member that was renamed or moved makes the module answer
ANALYSIS-BROKEN instead of judging code through a model that names something else. Re-run after editing rules, on a
tree where all checks are known to be right."""
import json, os, re, sys
HERE = os.path.dirname(os.path.dirname(os.path.abspath(__file__)))
sys.path.insert(0, HERE)
os.chdir(HERE)
from cpv.context import Context
from cpv.report import Run
prog = Context("/repo", "quick", Run("C01", "quick", "/repo")).program()
fields = {}
for qn, r in prog.records.items():
    if (r.get("file") or "").startswith(("src/", "include/")):
        for fl in r.get("fields", []):
            fields.setdefault(fl["name"], set()).add(qn)

def sources(mod, seen=None):
    seen = seen if seen is not None else set()
    if mod in seen or not os.path.exists("rules/%s.py" % mod):
        return seen
    seen.add(mod)
    for m in re.finditer(r"^\s*from \.(\w+) import", open("rules/%s.py" % mod).read(), re.M):
        sources(m.group(1), seen)
    return seen
out = {}
for i in range(1, 21):
    mod = "C%02d" % i
    toks = set()
    for m in sources(mod):
        toks |= set(re.findall(r"[A-Za-z_]\w*", open("rules/%s.py" % m).read()))
    out[mod] = sorted([c, f] for f in toks & set(fields) for c in fields[f])
    print(mod, len(out[mod]), "members of", len({c for c, f in out[mod]}), "classes")
json.dump(out, open("rules/members.json", "w"), indent=0, sort_keys=True)

#!/usr/bin/env python3
"""tools/freeze_members.py — freeze, per rule module, what the module (and the rule files it imports) names of the
library in its string literals: data members of classes (rules/members.json = {module: [[class, member], ...]}) and
functions (rules/functions.json = {module: [qualified name, ...]}). ./check verifies before a module runs that each
still exists; something that was renamed, moved or removed makes the module answer ANALYSIS-BROKEN instead of judging
code through models, stubs and name comparisons that speak of something else. Re-run after editing rules, on a tree
where all checks are known to be right."""
import ast, json, os, re, sys
HERE = os.path.dirname(os.path.dirname(os.path.abspath(__file__)))
sys.path.insert(0, HERE)
os.chdir(HERE)
from cpv.context import Context
from cpv.report import Run
prog = Context("/repo", "quick", Run("C01", "quick", "/repo")).program()
fields, funcs = {}, {}
for qn, r in prog.records.items():
    if (r.get("file") or "").startswith(("src/", "include/")):
        for fl in r.get("fields", []):
            fields.setdefault(fl["name"], set()).add(qn)
for g in prog.functions.values():
    if g.file.startswith(("src/", "include/")):
        funcs.setdefault(g.name, set()).add(g.qn)


def is_prose(text):
    """an obligation / rule description rather than a key, a stub name or a rendering: five or more words, mostly plain
    English words. What a rule depends on also occurs in a short literal (an env key, a stub name, a compared rendering)."""
    words = text.split()
    if len(words) < 5:
        return False
    plain = [w for w in words if re.fullmatch(r"[A-Za-z][a-z']*[,.:;)]?|\(?[a-z]+", w)]
    return len(plain) >= 0.6 * len(words)


def imports_of(path):
    """[(rule file, [imported names] or None for the whole module)] of the relative imports of a rule file"""
    out = []
    tree = ast.parse(open(path).read())
    for n in ast.walk(tree):
        if isinstance(n, ast.ImportFrom) and n.level == 1 and n.module and os.path.exists("rules/%s.py" % n.module):
            names = [a.name for a in n.names]
            out.append((n.module, None if "*" in names else names))
    return out


def tokens_of(mod, only=None, seen=None):
    """identifiers in the string literals of a rule file - of the whole file, or only of the named top-level functions
    (and the module-level constants they use) when just those are imported - plus, transitively, of what it imports"""
    seen = seen if seen is not None else set()
    key = (mod, tuple(sorted(only)) if only else None)
    if key in seen:
        return set()
    seen.add(key)
    path = "rules/%s.py" % mod
    tree = ast.parse(open(path).read())
    toks = set()
    if only is None:
        toks |= literal_tokens(path)
        for m2, names in imports_of(path):
            toks |= tokens_of(m2, names, seen)
        return toks
    consts = {t.id: n for n in tree.body if isinstance(n, ast.Assign) for t in n.targets if isinstance(t, ast.Name)}
    funcs_ = {n.name: n for n in tree.body if isinstance(n, ast.FunctionDef)}
    todo, done = list(only), set()
    while todo:
        nm = todo.pop()
        if nm in done:
            continue
        done.add(nm)
        node = funcs_.get(nm) or consts.get(nm)
        if node is None:
            continue
        for x in ast.walk(node):
            if isinstance(x, ast.Constant) and isinstance(x.value, str) and not is_prose(x.value):
                toks |= set(re.findall(r"[A-Za-z_~][A-Za-z0-9_]*", x.value))
            if isinstance(x, ast.Name) and (x.id in funcs_ or x.id in consts):
                todo.append(x.id)
            if isinstance(x, ast.ImportFrom) and x.level == 1 and x.module and os.path.exists("rules/%s.py" % x.module):
                toks |= tokens_of(x.module, [a.name for a in x.names], seen)
    # what the imported functions use from that file's own star-imports (common.py helpers)
    for m2, names in imports_of(path):
        if names is None:
            toks |= tokens_of(m2, None, seen)
    return toks


def literal_tokens(path):
    """identifiers inside the string literals of a rule file (docstrings excluded): what the rules say about the program"""
    tree = ast.parse(open(path).read())
    doc = set()
    for n in ast.walk(tree):
        if isinstance(n, (ast.Module, ast.FunctionDef, ast.ClassDef)) and n.body and isinstance(n.body[0], ast.Expr) and isinstance(getattr(n.body[0], "value", None), ast.Constant):
            doc.add(id(n.body[0].value))
    toks = set()
    for n in ast.walk(tree):
        if isinstance(n, ast.Constant) and isinstance(n.value, str) and id(n) not in doc and not is_prose(n.value):
            toks |= set(re.findall(r"[A-Za-z_~][A-Za-z0-9_]*", n.value))
    return toks
# classes whose members a module reads from the program's own tables rather than naming them in a literal: all of their
# members are frozen for that module (C19 binds a C struct field to its forwarder by the field's name)
WHOLE_RECORDS = {"C19": ["SMockSupport_c", "SMockExpectedCall_c", "SMockActualCall_c", "SMockValue_c", "SMockValue_c::(anonymous)"]}
optional = set(json.load(open("rules/optional_names.json"))) if os.path.exists("rules/optional_names.json") else set()
members, functions, globs = {}, {}, {}
qn2fn = {}
for g in prog.functions.values():
    qn2fn.setdefault(g.qn, g)


def relevant(mod, toks):
    """what the module is about, read off the functions it analysed on the reference tree (evidence/<mod>.json): the
    data members those functions access and the functions they call (plus themselves), by qualified name"""
    ev = json.load(open("evidence/%s.json" % mod))
    mem, fun, glo = set(), set(), set()
    for q in ev["coverage"].get("functions_analysed", []):
        for g in [x for x in prog.functions.values() if x.qn == q]:
            fun.add(g.qn)
            for n in g.walk():
                if n["k"] == "MemberExpr" and n.get("qn") and "::" in n["qn"]:
                    c, f = n["qn"].rsplit("::", 1)
                    mem.add((c, f))
                    # (anonymous unions / structs: the extractor names the record `Outer::(anonymous)`)
                    mem.add((re.sub(r"\(anonymous[^)]*\)", "(anonymous)", c), f))
                if n["k"] == "DeclRefExpr" and n.get("global") and n.get("name") in prog.globals:
                    glo.add(n["name"])
            for c in g.calls():
                nm = prog.callee_name(g, c)
                if nm:
                    fun.add(nm)
            for i_ in g.d.get("inits", []) or []:
                if i_.get("field") and g.cls:
                    mem.add((g.cls, i_["field"]))
    return mem, fun, glo


for i in range(1, 21):
    mod = "C%02d" % i
    toks = tokens_of(mod)
    rel_m, rel_f, rel_g = relevant(mod, toks)
    globs[mod] = sorted(toks & rel_g)
    members[mod] = sorted([c, f] for f in toks & set(fields) for c in fields[f] if (c, f) in rel_m)
    for rec in WHOLE_RECORDS.get(mod, []):
        members[mod] = sorted(members[mod] + [[rec, fl["name"]] for fl in prog.records.get(rec, {}).get("fields", []) if [rec, fl["name"]] not in members[mod]])
    functions[mod] = sorted(q for n in toks & set(funcs) for q in funcs[n] if q not in optional and q in rel_f)
    print(mod, len(members[mod]), "members,", len(functions[mod]), "functions,", len(globs[mod]), "globals")
json.dump(members, open("rules/members.json", "w"), indent=0, sort_keys=True)
json.dump(functions, open("rules/functions.json", "w"), indent=0, sort_keys=True)
json.dump(globs, open("rules/globals.json", "w"), indent=0, sort_keys=True)

#!/usr/bin/env python3
"""tools/reconfirm_seed.py [seed...] — re-confirm the stored seeds against /repo HEAD (which includes the fix: commits):
the (rebased) patch applies with git apply, the tree builds, all ctest entries pass, the demo fails with the
change and passes without. Records the outcome in seeded/<seed>/meta.json."""
import json, os, subprocess, sys
HERE = os.path.dirname(os.path.dirname(os.path.abspath(__file__)))
CONF = "/tmp/reconfirm"
os.makedirs(CONF, exist_ok=True)
def sh(cmd, cwd=None, timeout=900):
    r = subprocess.run(cmd, shell=True, cwd=cwd, capture_output=True, text=True, timeout=timeout)
    return r.returncode, r.stdout + r.stderr
head = subprocess.check_output(["git", "-C", "/repo", "rev-parse", "--short", "HEAD"], text=True).strip()
def wt(name):
    p = os.path.join(CONF, name)
    if not os.path.exists(p):
        rc, o = sh("git -C /repo worktree add --detach %s HEAD" % p); assert rc == 0, o
    sh("git checkout -- . && git clean -fdq -e _build", cwd=p)
    return p
base = wt("base")
rc, o = sh("cmake -S . -B _build -G Ninja >/dev/null && cmake --build _build -j16 2>&1 | tail -3", cwd=base); assert rc == 0, o
work = wt("work")
seeds = sorted(d for d in os.listdir(os.path.join(HERE, "seeded")) if os.path.isdir(os.path.join(HERE, "seeded", d)))
if len(sys.argv) > 1:
    seeds = [s for s in seeds if s in sys.argv[1:]]
for s in seeds:
    d = os.path.join(HERE, "seeded", s)
    patch = os.path.join(d, "patch.rebased.diff") if os.path.exists(os.path.join(d, "patch.rebased.diff")) else os.path.join(d, "patch.diff")
    sh("git checkout -- . && git clean -fdq -e _build", cwd=work)
    rc, o = sh("git apply %s || patch -p1 -s -i %s" % (patch, patch), cwd=work)
    res = {"repo_head": head, "patch": os.path.basename(patch), "applies": rc == 0}
    if rc == 0:
        rc, o = sh("cmake -S . -B _build -G Ninja >/dev/null && cmake --build _build -j16 2>&1 | tail -3", cwd=work)
        res["builds"] = rc == 0 and "FAILED" not in o
        rc, o = sh("ctest --test-dir _build -j8 --timeout 900 2>&1 | tail -3", cwd=work)
        res["tests_pass"] = "100% tests passed" in o
        rc1, o1 = sh("%s %s %s" % (os.path.join(d, "run_demo.sh"), work, os.path.join(work, "_build")), timeout=300)
        rc0, o0 = sh("%s %s %s" % (os.path.join(d, "run_demo.sh"), base, os.path.join(base, "_build")), timeout=300)
        res["demo_with_change_exit"], res["demo_without_change_exit"] = rc1, rc0
        res["ok"] = bool(res["builds"] and res["tests_pass"] and rc1 != 0 and rc0 == 0)
    print(s, json.dumps(res))
    meta = json.load(open(os.path.join(d, "meta.json")))
    meta["reconfirmed_on_fixed_tree"] = res
    json.dump(meta, open(os.path.join(d, "meta.json"), "w"), indent=1)
sh("git -C /repo worktree remove --force %s; git -C /repo worktree remove --force %s" % (work, base))

#!/usr/bin/env python3
"""tools/refac_matrix.py <dir-with-Cxx/out/k/patch.diff> [ids...] — run all checks against behaviour-preserving
refactorings; every check must stay silent (exit 0) or declare itself unable to decide (exit 2), never exit 1."""
import json, os, subprocess, sys
from concurrent.futures import ThreadPoolExecutor
HERE = os.path.dirname(os.path.dirname(os.path.abspath(__file__)))
BASE = sys.argv[1]
ids = sys.argv[2:] or sorted(d for d in os.listdir(BASE) if d.startswith("C") and os.path.isdir(os.path.join(BASE, d)))
PROPS = ["C%02d" % i for i in range(1, 21)]
jobs = []
for i in ids:
    if os.path.exists(os.path.join(BASE, i, "patch.diff")):      # flat layout: <BASE>/Cxx-k/patch.diff
        rb = os.path.join(BASE, i, "patch.rebased.diff")      # (re-based when a later fix: commit changed the context)
        jobs.append((i, rb if os.path.exists(rb) else os.path.join(BASE, i, "patch.diff")))
        continue
    od = os.path.join(BASE, i, "out") if os.path.isdir(os.path.join(BASE, i, "out")) else os.path.join(BASE, i)
    for k in sorted(os.listdir(od)):
        p = os.path.join(od, k, "patch.diff")
        if os.path.exists(p):
            jobs.append(("%s-%s" % (i, k), p))

def one(job):
    name, patch = job
    root = "/tmp/cpv-refac/%s/root" % name
    os.makedirs(root, exist_ok=True)
    subprocess.check_call(["rsync", "-a", "--delete", "--exclude", "_build", "--exclude", ".git", "--exclude", "build", "/repo/", root + "/"])
    r = subprocess.run(["patch", "-p1", "-s", "-d", root, "-i", patch], capture_output=True, text=True)
    if r.returncode != 0:
        return name, {"applies": False}
    env = dict(os.environ, CPV_EVIDENCE_DIR="/tmp/cpv-refac/%s/evidence" % name)
    res = {"applies": True, "alarms": {}, "undecided": {}}
    for p in PROPS:
        rr = subprocess.run([os.path.join(HERE, "check"), p, "--root", root], capture_output=True, text=True, env=env)
        if rr.returncode == 1:
            res["alarms"][p] = [l.strip()[:400] for l in rr.stdout.splitlines() if l.startswith("  violated")][:4]
        elif rr.returncode != 0:
            res["undecided"][p] = [l.strip()[:300] for l in rr.stdout.splitlines() if l.startswith("ANALYSIS-BROKEN")][:2]
    subprocess.run(["rm", "-rf", "/tmp/cpv-refac/%s" % name])
    return name, res

out = {}
with ThreadPoolExecutor(max_workers=12) as ex:
    for name, res in ex.map(one, jobs):
        out[name] = res
        print(name, "applies=%s" % res.get("applies"), "ALARMS=%s" % sorted(res.get("alarms", {})), "undecided=%s" % sorted(res.get("undecided", {})))
        for p, v in res.get("alarms", {}).items():
            for l in v[:2]:
                print("      ", l[:300])
        for p, v in res.get("undecided", {}).items():
            for l in v[:1]:
                print("      ", l[:300])
dst = os.path.join(BASE, "MATRIX.json") if os.path.abspath(BASE).startswith(HERE) and len(sys.argv) == 2 else "/tmp/refac_matrix_%s.json" % "_".join(ids)[:40]
json.dump(out, open(dst, "w"), indent=1, sort_keys=True)
print("alarming refactors: %d, undecided only: %d, silent: %d -> %s" % (sum(1 for r in out.values() if r.get("alarms")), sum(1 for r in out.values() if not r.get("alarms") and r.get("undecided")), sum(1 for r in out.values() if r.get("applies") and not r.get("alarms") and not r.get("undecided")), dst))

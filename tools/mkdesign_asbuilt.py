#!/usr/bin/env python3
"""Regenerate section 11.2-11.4 data of DESIGN.md ("As built") from evidence/*.json, known_findings.json and
seeded/MATRIX.json. Run `./check all` on /repo first so that evidence/ is current. The prose of 11.1 and the
false-alarm list are kept in tools/design_asbuilt_prose.md."""
import json, os, re, sys
H = os.path.dirname(os.path.dirname(os.path.abspath(__file__)))
ev = {}
for i in range(1, 21):
    p = "C%02d" % i
    ev[p] = json.load(open("%s/evidence/%s.json" % (H, p)))
kf = json.load(open(H + "/known_findings.json"))
m = json.load(open(H + "/seeded/MATRIX.json"))
prose = open(H + "/tools/design_asbuilt_prose.md").read()
intro, falsealarms, seeded_intro = prose.split("\n<!--SPLIT-->\n")
seeded_intro = seeded_intro.replace("@@N@@", str(len(m)))
out = [intro, "\n### 11.2 Rules per property as evaluated on this tree\n\n"]
for p in sorted(ev):
    c = ev[p]["coverage"]
    out.append("**%s** - %d obligations, %d discharged, %d functions in %d units.\n" % (p, c["obligations"], c["discharged"], len(c["functions_analysed"]), len(c["units_analysed"])))
    rules = c["explanation"].split("Rules applied: ", 1)[1]
    for r in re.split(r"; (?=R\d+: )", rules):
        rid = r.split(":")[0]
        pr = c["per_rule"].get(rid, {})
        out.append("  * %s - *%d obligations*\n" % (r.strip(), pr.get("obligations", 0)))
    for nd in c.get("not_decided", []):
        out.append("  * not decided: %s\n" % nd)
    out.append("\n")
out.append("### 11.3 Defects found on the unchanged tree\n\nEvery report on the unchanged tree was replayed concretely against the real library before it was classified (demos under `/verif/findings/<F>/`, `run.sh <source_root> <build_dir>`; each fails on the pre-fix tree and passes on the fixed one). Repaired defects are one `fix:` commit each in /repo (unedited test-suite still 88/88 ctest entries = the 61 baseline groups); they are listed in `known_findings.json` under `fixed` and suppress nothing.\n\n")
for f in kf["fixed"]:
    out.append("* %s\n" % f)
out.append("\nRecorded, not repaired (`known_findings.json`, keyed by rule + function + instance; a different violation of the same rule is still a VIOLATION):\n\n")
for f in kf["findings"]:
    out.append("* %s `%s` - %s\n" % (f["property"], f["key"], f["what"]))
out.append(falsealarms)
out.append(seeded_intro)
caught = sum(1 for s, r in m.items() if isinstance(r, dict) and s.split("-")[0] in r.get("fired", {}))
broken = sorted(s for s, r in m.items() if s.split("-")[0] in r.get("broken", []))
out.append("\nResult: **%d of %d** seeded changes are reported as VIOLATION by the check of their own property; %s reported as ANALYSIS-BROKEN (exit 2: the rule cannot decide the restructured construct and says so instead of guessing). %d seeds additionally trip a check of a neighbouring property that shares the code.\n" % (caught, len(m), (", ".join(broken) + (" is" if len(broken) == 1 else " are")) if broken else "none is", sum(1 for r in m.values() if len(r.get("fired", {})) > 1)))
rm_path = H + "/refactors/MATRIX.json"
if os.path.exists(rm_path):
    rm = json.load(open(rm_path))
    al = sorted(k for k, r in rm.items() if r.get("alarms"))
    un = sorted("%s (%s)" % (k, ", ".join(sorted(r["undecided"]))) for k, r in rm.items() if r.get("undecided") and not r.get("alarms"))
    r123 = {k: r for k, r in rm.items() if int(k.split("-")[1]) <= 9 or int(k.split("-")[1]) >= 12}
    r4 = {k: r for k, r in rm.items() if int(k.split("-")[1]) in (10, 11)}
    un4 = sorted(k for k, r in r4.items() if r.get("undecided") and not r.get("alarms"))
    out.append("\n### 11.5 Behaviour-preserving refactorings and which checks stay silent\n\n%d refactorings (17 per property: 4 from a first round, 3 heavier ones from a second, 2 composite ones from a third, 2 renames / moves / signature / representation changes from a fourth, 2 composite ones aimed at the support code around the anchored functions from a fifth, 2 that had to stay out of the anchored functions altogether from a sixth, 2 aimed at state kept between calls and at families of sibling functions from a seventh; `refactors/<id>/patch.diff` + `meta.json` with the equivalence argument; each compiles and keeps all ctest entries green) are applied one at a time to a scratch copy of /repo HEAD and all 20 checks are run (`tools/refac_matrix.py /verif/refactors`). A check may stay silent (exit 0) or say it cannot decide (exit 2); exit 1 would be a false alarm.\n\nResult: **%d of %d** refactorings raise an alarm%s. Rounds 1-3 and 5-7 (%d patches): undecided (ANALYSIS-BROKEN by one check): %s. Round 4 (%d patches: something the rules name was renamed, moved or re-represented): %d silent, %d declined by at least one check (%s).\n" % (
        len(rm), len(al), len(rm), (" (" + ", ".join(al) + ")") if al else "", len(r123), ", ".join(k for k in un if int(k.split("-")[1].split(" ")[0]) not in (10, 11)) or "none", len(r4), len(r4) - len(un4), len(un4), ", ".join(un4)))
body = "".join(out)
p = os.path.join(H, "DESIGN.md")
s = open(p).read()
i = s.find("\n## 11. As built")
if i >= 0:
    s = s[:i]
open(p, "w").write(s.rstrip("\n") + "\n" + body)
print("DESIGN.md: section 11 regenerated (%d bytes)" % len(body))

#!/usr/bin/env python3
"""Regenerate section 11 ("As built") of DESIGN.md from the evidence files, known_findings.json and seeded/MATRIX.json.
Run all 20 quick checks on /repo first so that evidence/ is current."""
import os, re, sys
HERE = os.path.dirname(os.path.dirname(os.path.abspath(__file__)))
body = open(os.path.join(HERE, "_work", "design_sec11.md")).read() if os.path.exists(os.path.join(HERE, "_work", "design_sec11.md")) else None
if body is None:
    sys.exit("run the generator snippet first")
p = os.path.join(HERE, "DESIGN.md")
s = open(p).read()
i = s.find("\n## 11. As built")
if i >= 0:
    s = s[:i]
s = s.rstrip("\n") + "\n" + body
open(p, "w").write(s)
print("DESIGN.md: section 11 written (%d bytes)" % len(body))

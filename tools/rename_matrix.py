#!/usr/bin/env python3
"""tools/rename_matrix.py [field ...] — behaviour-preserving renames of data members: every member name of a library
class is renamed consistently in all library sources and headers of a scratch copy (one name at a time), and all 20
checks are run: none may report a VIOLATION (exit 1); ANALYSIS-BROKEN (exit 2: the rule's model names a member that no
longer exists) is the honest answer. Writes /tmp/rename_matrix.json."""
import json, os, re, subprocess, sys
from concurrent.futures import ThreadPoolExecutor
HERE = os.path.dirname(os.path.dirname(os.path.abspath(__file__)))
sys.path.insert(0, HERE)
os.chdir(HERE)
from cpv.context import Context
from cpv.report import Run
PROPS = ["C%02d" % i for i in range(1, 21)]
prog = Context("/repo", "quick", Run("C01", "quick", "/repo")).program()
names = {}
for qn, r in prog.records.items():
    if not (r.get("file") or "").startswith(("src/", "include/")):
        continue
    for fl in r.get("fields", []):
        names.setdefault(fl["name"], set()).add(qn)
FUNCS = "--functions" in sys.argv
args = [a for a in sys.argv[1:] if a != "--functions"]
if FUNCS:
    # the functions the rule modules name (rules/functions.json): renamed consistently like the members
    fz = json.load(open(os.path.join(HERE, "rules", "functions.json")))
    fnames = sorted({q.split("::")[-1] for v in fz.values() for q in v if re.match(r"^[A-Za-z_]\w*$", q.split("::")[-1]) and not q.split("::")[-1].startswith("operator")})
    todo = args or [n for n in fnames if len(n) > 3]
else:
    todo = args or sorted(n for n in names if re.match(r"^[A-Za-z]\w*$", n) and len(n) > 2)
OUT = "/tmp/rename_matrix_%s.json" % ("functions" if FUNCS else "members")
files = subprocess.check_output("grep -rlE . /repo/src /repo/include --include=*.cpp --include=*.h --include=*.c", shell=True, text=True).split()

def one(name):
    root = "/tmp/cpv-rename/%s/root" % name
    os.makedirs(root, exist_ok=True)
    subprocess.check_call(["rsync", "-a", "--delete", "--exclude", "_build", "--exclude", ".git", "--exclude", "build", "/repo/", root + "/"])
    new = name.rstrip("_") + "Rn" + ("_" if name.endswith("_") else "")
    hit = 0
    for f in files:
        p = root + f[len("/repo"):]
        s = open(p, errors="replace").read()
        s2 = re.sub(r"(?<![A-Za-z0-9_])%s(?![A-Za-z0-9_])" % re.escape(name), new, s)
        if s2 != s:
            hit += 1
            open(p, "w").write(s2)
    env = dict(os.environ, CPV_EVIDENCE_DIR="/tmp/cpv-rename/%s/evidence" % name)
    res = {"files": hit, "alarms": {}, "undecided": []}
    for pr in PROPS:
        rr = subprocess.run([os.path.join(HERE, "check"), pr, "--root", root], capture_output=True, text=True, env=env)
        if rr.returncode == 1:
            res["alarms"][pr] = [l.strip()[:300] for l in rr.stdout.splitlines() if l.startswith("  violated")][:2]
        elif rr.returncode != 0:
            res["undecided"].append(pr)
            if "compile errors" in rr.stdout or "extraction failed" in rr.stdout:
                res["compile_error"] = True
    subprocess.run(["rm", "-rf", "/tmp/cpv-rename/%s" % name])
    return name, res

out = {}
with ThreadPoolExecutor(max_workers=8) as ex:
    for name, res in ex.map(one, todo):
        out[name] = res
        flag = "ALARM" if res["alarms"] else ("compile-error" if res.get("compile_error") else ("undecided" if res["undecided"] else "silent"))
        print(name, flag, sorted(res["alarms"]), res["undecided"][:6], flush=True)
        for p, v in res["alarms"].items():
            for l in v[:1]:
                print("      ", l[:260], flush=True)
json.dump(out, open(OUT, "w"), indent=1, sort_keys=True)
print("renames: %d, alarming: %d, undecided: %d, silent: %d" % (len(out), sum(1 for r in out.values() if r["alarms"]), sum(1 for r in out.values() if not r["alarms"] and r["undecided"]), sum(1 for r in out.values() if not r["alarms"] and not r["undecided"])))

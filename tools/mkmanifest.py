#!/usr/bin/env python3
"""Regenerate MANIFEST.json from the rule modules present (a property is claimed iff rules/<id>.py
exists and is listed in CLAIMS below)."""
import json, os
HERE = os.path.dirname(os.path.dirname(os.path.abspath(__file__)))
props = [json.loads(l) for l in open(os.path.join(HERE, "properties.jsonl"))]

CLAIMS = {
 "C18": dict(
  technique="custom static checker: abstract execution over a small heap model (blocks as ids, lists as next_ chains, class table as symbolic array) of every cache primitive: class table construction, classification for every size 0..300, reserve/release on every used list of 0..3 blocks x every target incl. foreign pointers, list destruction with use-after-free detection, both clear functions over all 5 classes; path skeletons of alloc/dealloc and teardown",
  text="Decides the size-class table and that every request is classified to the smallest class >= size through one function, that reserve pops free and pushes used, that release unlinks exactly the addressed block (head or interior) and pushes it on free, that a foreign pointer leaves both lists untouched and warns once, that destroying a list frees every block once and never reads a freed block, that clearCache/clearAll cover every class and reset every head, and that the global cache returns buffers still in use before it goes away. Absence of aliasing over ALL alloc/release histories is not decided (heap shape).",
  note="Trusted: the underlying allocator returns distinct blocks; folding bounds cover the uniform per-block transitions; clang AST/CFG."),
 "C14": dict(
  technique="custom static checker: inductive-invariant argument for the fixed report buffer (every writer of limit/fill folded to establish the invariant; add() folded with wrap detection over the boundary lattice of limit x fill x vsnprintf result), constant evaluation of the footer reservation against the literal lengths, structural end-of-sequence rule for every first-difference scan with path-verified frozen exceptions, argument-role rules for the difference marker",
  text="Decides that no call of add() can hand vsnprintf a window outside the 4096-byte buffer for any limit/fill the class can reach (including a limit lowered below the fill), that the reserved footer space covers the worst-case footer and the too-many notice is printed iff capacity was reached, that every reported leak is counted, that every scan for the first difference stops at the end of its operands or is only constructed where the operands are known to differ, and that expected/actual, printable forms and raw/printable indices are used in their roles. Exact message text and termination of the rendering helpers are not decided.",
  note="Trusted: C99 vsnprintf contract; fewer than 2^31 leaks per report; clang AST/CFG."),
 "C04": dict(
  technique="custom static checker: abstract execution (constant folding over a small heap model) of every list primitive on every list of 0..4 records x every match pattern, exhaustive folding of isInPeriod over the 16 period pairs and of hash, structural coverage rules for the bucket loops, must-call pairing on the allocate/release/realloc paths, argument-slot agreement for record stamping, routing tables of the global operator overloads and function-pointer slots",
  text="Decides necessary conditions of exact accounting: records are filed and searched in the bucket of their own address, every bucket is visited by totals/first/next/clear, the period visibility table is exact, clear/remove/retrieve/total/first-from behave exactly on every short list and pattern (their per-node transition is uniform), every successful allocation stores one stamped record and every release removes first, the report counts every leak, and every operator new/delete/malloc overload reaches the tracked function, allocator family and record layout of its own kind. Equality of the table with the true outstanding set after every unbounded history is NOT decided (heap shape).",
  note="Trusted: clang AST/CFG; folding bounds (lists <= 4) cover all states of the uniform per-node transitions; allocator addresses arbitrary."),
 "C07": dict(
  technique="custom static checker: predicate-abstraction skeleton of the leak plugin's post action over (ignore flag, expected != leaks, failure count unchanged, overloads on) with must-call-on-every-exit rules, period-constant tables of the detector's mode switches, demotion walk rule, bracketing order in the test runner, final-report skeleton",
  text="Decides that the checking period starts before setup and stops first thing in the post action, that a leak failure is added exactly when the test did not ask to ignore, the checking-period count differs from the expected one, no failure was added meanwhile and the overloads are on, with the checking-period report as text; that on every exit the test's records are demoted to the enabled period and both flags reset (so a leak is never charged to a later test); that new records carry the current period; and that the final report covers the enabled period and is printed iff the run result is 0. Attribution for arbitrary programs rests on C04's undecided exactness.",
  note="Trusted: C04's primitives; clang AST/CFG."),
 "C06": dict(
  technique="custom static checker: predicate-abstraction skeleton of checkForCorruption and deallocMemory, exhaustive folding of matchingAllocation, abstract execution of the guard-byte writer followed by the reader for the intact pattern and for every single-position change, sibling rules over the tracked release wrappers (poison before release, same pointer) and over the wrapper-allocator class hierarchy",
  text="Decides that each outcome of (family match, guard validity, record layout) maps to exactly the one report the property names in mismatch-first order, that every guard byte position is compared against the value the writer put there, that releasing NULL is silent, an unknown address gives one non-allocated report and no free, a known block is checked then freed once, that every delete/delete[]/free wrapper poisons the same pointer before releasing it, and that every wrapper allocator resolves to the wrapped allocator for the family comparison. Which bytes user code writes is not decided.",
  note="Trusted: clang AST/CFG; allocator names identify families; C05 decides the layout that puts the guard bytes at memory + size."),
 "C11": dict(
  technique="custom static checker: exhaustive constant folding of the wait-status decoder (with glibc's W* macro expansions) over every exit status, signal, stop signal and the continued status; per-iteration path enumeration of the wait loop as a transition system over (waitpid result, errno, retry counter vs bound, status class); must-end-in-_exit rule for the child branch; routing rules in the runner",
  text="Decides, for every possible status word class and every outcome of fork/waitpid per iteration, that exactly one failure is recorded for exit!=0 / signal / stop and none for exit 0, that errors and EINTR past a constant bound report once and return while EINTR below it only retries, that the status is never decoded after a failed wait, that stopped children are continued and the loop ends only on exit or signal, that the child branch always ends in _exit with the failure-count delta, and that every test is routed through the separate-process runner under SetJmp when -p is on. Kernel behaviour per signal is not decided.",
  note="Trusted: glibc wait-status encoding and W* macros as expanded in the analysed unit; POSIX fork/waitpid/kill semantics."),
 "C05": dict(
  technique="custom static checker: constant folding (with wrap detection) of the composed size computations of allocMemory/reallocMemory at the largest sizes their guards accept, at every residue mod 8, at the 2^32/2^63 boundaries and for calloc pairs around the overflow boundary; dominance-based null-test rule for every use of a may-be-NULL allocation result; sibling rule over the 18 operator new implementations; must-precede rule for the realloc failure path",
  text="Decides that no size or count x size computation on the allocation paths can wrap for any request (monotone arithmetic folded at the guard boundary and residues), that the bookkeeping offset is pointer-aligned and leaves room for guard bytes and record in both layouts, that allocation results are null-tested before use, that throwing operator new variants throw on NULL and nothrow ones never do, that calloc zero-fills exactly its product and strdup/strndup size and terminate their copy. Three realloc-path defects are recorded as known findings. Alignment/disjointness of platform blocks and realloc content preservation are trusted.",
  note="Trusted: the platform allocator's contract; LP64 widths; clang AST/CFG; monotonicity of the folded size expressions in the requested size."),
 "C15": dict(
  technique="custom static checker: path skeleton of the designation predicate with guard discipline per designation kind, effect analysis + per-iteration path enumeration of the designation walk (no early exit while the predicate has state), list-unlink idiom, exhaustive folding of the countdown over its partition, who-may-call rule for the uncounted allocation entry, null-test dominance for strdup/calloc",
  text="Decides that a location designation is never matched against the global index (and vice versa), that every pending designation evaluates every allocation, that a fired designation is unlinked and freed exactly once and NULL is returned exactly then, that the countdown transition is exact on {<0,0,1,>1}, that all C allocation entry points tick the countdown, and that strdup/strndup/calloc propagate NULL. Which allocations a concrete workload performs is not decided.",
  note="Trusted: clang AST/CFG; allocations reach the allocator once each (routing is C04.R8)."),
 "C17": dict(
  technique="custom static checker: dominance/guard analysis of the pointer-table stores against the array extent constant, who-writes analysis of the table index, structural descending-loop rule for the restore, ordering rules on the plugin chain walkers, sibling rule over the name-dispatching chain methods, list-unlink idiom check",
  text="Decides that no store into the pointer table can happen at index >= extent and that the full documented limit is usable, that the index is only advanced by the store and reset by constructor/post action, that the restore walks newest-to-oldest writing each saved value through its saved address and resets the index on every exit, that pre actions run head first and post actions tail first with disabled plugins skipping only themselves, that every chain method delegates along next_ and removal unlinks exactly the matched node. That post actions run for failed/throwing tests is C01.R1/R5.",
  note="Trusted: FAIL never returns (C01.R3); clang AST/CFG."),
 "C03": dict(
  technique="custom static checker: predicate-abstraction skeletons of the 19 assert functions against oracle truth tables (paths forked on normalised condition atoms, failWith as terminator), range analysis of operand conversions, exhaustive IEEE-754 constant folding of doubles_equal over the class partition NaN/+-Inf/finite lattice x thresholds (2300 cells), 256-value folding of the character classifiers, forwarding table of the C entry points",
  text="Decides that every assert counts exactly one check on every path before any failure, fails exactly on the valuations of its own condition atoms that make the named predicate false, compares its parameters themselves, reaches string/memory comparison only with non-null operands and reports (expected, actual) in order; doubles_equal is folded exhaustively over the floating-point classes the property names; the C entry points forward with value-preserving widening and the longjmp terminator. Textbook semantics of the string/memory compare primitives on arbitrary bytes and the macro expansions in user code are not decided.",
  note="Trusted: IEEE-754 double arithmetic (folded with the same semantics); clang AST/CFG; failWith never returns (decided in C01.R3)."),
 "C02": dict(
  technique="custom static checker: per-iteration path enumeration of the registry loop (call counting with callee summaries over all runOneTest overrides), who-writes analysis of next_/tests_/array elements, exhaustive constant folding of match() over all filter lists up to length 3 x all outcomes, of TestFilter::match over its 16 valuations, of swap and of relinkTestsInOrder for 0..4 entries, structural bounds of the shuffle/reverse loops",
  text="Decides the accounting identity tests = run + ignored + filtered per iteration of the registry loop for every path and every runOneTest override; the selection predicate (AND of two ORs over the filter lists, strict/substring/inverted truth table); that shuffle and reverse only swap in-range entries of an array filled with every list element and relink all of them in array order before the registry stores the new head; and that group start/end notifications are emitted exactly by the groupStart/endOfGroup transition. String comparison semantics and the random source are not decided.",
  note="Trusted: clang AST/CFG; folding bounds (lists <= 3, arrays <= 4) cover every state of the uniform loop transitions; user tests do not rewire the registry."),
 "C01": dict(
  technique="custom static checker over clang CFGs with exceptional edges added per try/catch: path enumeration of Utest::run with every SetJmp call allowed to return 0, return 1 or raise; must-call/ordering rules on failWith, addFailure, terminators (class-hierarchy closure: no normal exit), jump-buffer depth effect per handler, finite-partition constant folding of isFailure and of the runner's exit expression, literal/label table of the summary printer",
  text="Decides, for every path through the lifecycle code (not for sampled test programs): body only after a completed setup, teardown on every returning path including every catch handler, one failure record per escaped exception and none for the framework's own exception, every terminator override never returns, the jump-buffer depth is restored by every handler (the '11th consecutive failing test' clause), isFailure's truth table, a fresh TestResult per repetition with monotone accumulators and a zero exit value iff both are zero, the OK/Errors summary with each counter under its label, pre/post bracketing and plugin chain order; thorough adds the -fno-exceptions build. Counts for concrete programs are not decided.",
  note="Trusted: setjmp/longjmp and C++ unwinding semantics; user phases are modelled as may-return/may-fail/may-throw at the SetJmp call; clang 14 AST/CFG."),
 "C12": dict(
  technique="custom static checker: extraction of the option dispatch chain with prefix-shadow analysis, option->field->getter->consumer tables against the documented contract, dominance-based bounds facts for every argv subscript and pointer offset, path skeletons of rejection and of repeat/shuffle value parsing",
  text="Decides that every documented option is reachable in the dispatch order, sets/reads/consumes the documented field with the documented modifier semantics (s, x, g/n, group.name and TEST() forms), that every av[...] access and every offset into an argument is dominated by its bounds check, that a rejected argument returns false in the same iteration and no test runs after rejection, and that -r/-s consume the next argument only for a non-zero number. Memory safety and termination of the string primitives on arbitrary bytes are C13's undecided part.",
  note="Trusted: the help text's option meanings frozen in the rule tables; clang AST/CFG."),
 "C09": dict(
  technique="custom static checker: exhaustive partition over all ordered tag pairs driving a path walk of equals() and every getter, tag->union-member table extracted from the setValue overloads, interval (range) analysis of every explicit and implicit integer cast under the dominating sign guards",
  text="For all 36 integer type pairs and all 6x6 getter/tag combinations the checker proves, over the complete value range of each type (not sampled values), that the selected comparison reads the members the tags were stored in and that every conversion clang inserted is value-preserving under the guards, so comparison equals comparison of mathematical values, symmetric because both orders are checked; mismatched non-integer tags never compare equal; doubles use the receiver's tolerance. String/buffer content comparison semantics are not decided here.",
  note="Trusted: LP64 integer widths of the analysed target; clang's record of implicit conversions; doubles_equal is decided in C03."),
 "C19": dict(
  technique="custom static checker: table extraction of the three C function-pointer structs against the declared field names, per-forwarder sibling rule on resolved callee/overload/argument order, predicate-abstraction skeleton of the OrDefault getters, tag/enum/member/getter table of the tagged-union conversion",
  text="Interface agreement decided from the resolved program: all 125 slots hold the forwarder named for the field, every forwarder makes exactly one call to the C++ method of its family on the current object with exactly its own parameters and the overload of the type it is named for, OrDefault getters default iff there is no return value, the tagged-union conversion table is exact, adaptors and the C failure reporter mirror the C++ ones. Equality of complete failure text across interfaces is not decided.",
  note="Trusted: clang overload resolution as recorded in the AST; the C++ interface is the reference (C08/C09)."),
 "C16": dict(
  technique="custom static checker: taint rule from stored strings to writeToFile through printf-style formats (every %s argument must be entity-encoded), escaper table/order extraction, XML parse of the literal document skeleton assembled from every path combination, counter pairing on CFG paths",
  text="Decides that every value inserted into the JUnit document is entity-encoded (or an enumerated safe source), that the encoder's table and order are right, that the literal skeleton of every path combination is well-formed with failure/skipped elements under exactly the right path conditions, that counters are incremented/reset with the events they count, and that the file name passes the sanitiser and the file is truncated. Acceptance of concrete output by an XML parser for arbitrary text is not decided.",
  note="Trusted: clang 14 AST/CFG; printf %s copies verbatim; the platform time string is XML-safe."),
 "C20": dict(
  technique="custom static checker: taint rule over the TeamCity writer methods (every non-literal string argument of print must pass printEscaped), exhaustive constant folding of the escaper's loop body over all 255 char values against the TeamCity escape table, per-path literal framing grammar, call pairing",
  text="Decides escaping completeness for every service message writer, the exact escape table for every char value (exhaustive finite partition), that each path of each writer emits only complete ##teamcity[...] messages naming the stored test/group, and that start/finish callbacks bracket runOneTest on every path. Balance over concrete runs follows from C02.R4 and is not decided as a run-time count.",
  note="Trusted: clang 14 AST/CFG; TeamCity's escaping rules as stated in the property; virtual print/printBuffer of the output class hierarchy write their argument verbatim."),
 "C10": dict(
  technique="custom static checker over clang typed AST/CFG: sibling comparison of locked/unlocked wrappers, who-writes-slot tables, must-call pairing of Lock/Unlock down to pthread, call-graph reachability (CHA + function-pointer points-to) from lock scope to longjmp",
  text="Decides structural necessary conditions of mutual exclusion: every function-pointer slot is switched/saved/restored, each thread-safe wrapper is its unlocked sibling plus a leading RAII lock on the global detector's mutex, the lock reaches pthread_mutex_lock/unlock exactly once, and no longjmp is reachable while the lock is held (4 genuine violations of the last clause are listed as known findings). Schedule-independence of the accounting for all interleavings is not decided.",
  note="Trusted: pthread mutex semantics; clang 14 AST/CFG; class-hierarchy call resolution over the 35 library units; user-supplied allocators are out of scope."),
}

NA_REASON = "check not built yet (not claimed at this commit; DESIGN.md section 10 gives the construction order)"

checks = []
for p in props:
    pid = p["id"]
    if pid in CLAIMS and os.path.exists(os.path.join(HERE, "rules", pid + ".py")):
        c = CLAIMS[pid]
        checks.append({
            "property_id": pid,
            "quick_cmd": "./check %s --tier quick" % pid,
            "thorough_cmd": "./check %s --tier thorough" % pid,
            "evidence_file": "/verif/evidence/%s.json" % pid,
            "replay_cmd_template": "./check replay {path}",
            "engine": "cpv",
            "level_claimed": {"category": "other", "text": c["text"], "design_ref": "DESIGN.md section 4, %s" % pid},
            "level_note": c["note"],
            "technique": c["technique"],
        })
na = [{"property_id": p["id"], "reason": NA_REASON} for p in props if p["id"] not in {c["property_id"] for c in checks}]
m = {
 "version": 1,
 "setup_cmd": "./setup.sh",
 "hooks": {"guard": "CPPUTEST_CPPUTEST_VERIF",
           "enable": "none needed: the checks are static; they parse /repo's working tree with the flags of a configure-only cmake run and execute nothing. No hook code exists in /repo.",
           "baseline_off_cmd": "rm -rf /tmp/cpv-baseline && cmake -S /repo -B /tmp/cpv-baseline -G Ninja && cmake --build /tmp/cpv-baseline -j16 && ctest --test-dir /tmp/cpv-baseline -j8 --timeout 900; rc=$?; rm -rf /tmp/cpv-baseline; exit $rc",
           "source_commits": [], "add_only": True},
 "engines": [{"name": "cpv", "path": "/verif/check", "serves_properties": [c["property_id"] for c in checks],
              "kind_free_text": "LibTooling fact extractor (tools/cpv-extract.cc: typed AST + clang CFG per function, records, globals, macros) + Python rule library (cpv/: path enumeration with condition atoms, call counting, dominance, call graph with CHA and function-pointer slots, reachability) + one rule module per property (rules/)"}],
 "checks": checks,
 "notes": "Static analysis only; see DESIGN.md. Exit 0 = all obligations discharged or listed in known_findings.json; 1 = VIOLATION; 2 = analysis broken (anchor vanished / instance floor not met).",
 "not_applicable": na,
}
json.dump(m, open(os.path.join(HERE, "MANIFEST.json"), "w"), indent=1)
print("claimed:", [c["property_id"] for c in checks])

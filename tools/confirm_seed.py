#!/usr/bin/env python3
"""tools/confirm_seed.py <Cxx> ...  — independently confirm sub-agent seeded changes from /tmp/seed/<id>/out/<k>
and store the confirmed ones under /verif/seeded/<id>-<k>/.
Confirms: patch applies to a pristine worktree; builds; all ctest entries pass; demo exits 0 on the pristine
build and non-zero on the patched build."""
import json, os, shutil, subprocess, sys
HERE = os.path.dirname(os.path.dirname(os.path.abspath(__file__)))
CONF = "/tmp/confirm"
os.makedirs(CONF, exist_ok=True)
SEED_DIR = os.environ.get("SEED_DIR", "/tmp/seed")          # round 2: SEED_DIR=/tmp/seed2 BASE_REV=HEAD K_OFFSET=3
BASE_REV = os.environ.get("BASE_REV", "ca67a58")
K_OFFSET = int(os.environ.get("K_OFFSET", "0"))
TAG = "" if BASE_REV == "ca67a58" else "-" + subprocess.check_output(["git", "-C", "/repo", "rev-parse", "--short", BASE_REV], text=True).strip()

def sh(cmd, cwd=None, timeout=900):
    r = subprocess.run(cmd, shell=True, cwd=cwd, capture_output=True, text=True, errors="replace", timeout=timeout)
    return r.returncode, (r.stdout + r.stderr)

def ensure_wt(name):
    wt = os.path.join(CONF, name)
    if not os.path.exists(wt):
        rc, out = sh("git -C /repo worktree add --detach %s %s" % (wt, BASE_REV))
        assert rc == 0, out
    sh("git checkout -- . && git clean -fdq -e _build", cwd=wt)
    return wt

def build(wt):
    rc, out = sh("cmake -S . -B _build -G Ninja >/dev/null && cmake --build _build -j16 2>&1 | tail -5", cwd=wt)
    return rc, out

base = ensure_wt("base" + TAG)
rc, out = build(base)
assert rc == 0, out
for pid in sys.argv[1:]:
    wt = ensure_wt("wt-" + pid + TAG)
    outdir = "%s/%s/out" % (SEED_DIR, pid)
    for k in sorted(os.listdir(outdir)):
        d = os.path.join(outdir, k)
        if not os.path.exists(os.path.join(d, "patch.diff")):
            continue
        sh("git checkout -- . && git clean -fdq -e _build", cwd=wt)
        kk = str(int(k) + K_OFFSET) if k.isdigit() else k
        res = {"seed": "%s-%s" % (pid, kk)}
        rc, o = sh("git apply %s" % os.path.join(d, "patch.diff"), cwd=wt)
        res["applies"] = rc == 0
        if rc != 0:
            print(res, o[-300:]); continue
        rc, o = build(wt)
        res["builds"] = rc == 0 and "FAILED" not in o
        rc, o = sh("ctest --test-dir _build -j8 --timeout 900 2>&1 | tail -3", cwd=wt)
        res["ctest"] = o.strip().splitlines()[0] if o.strip() else ""
        res["tests_pass"] = "100% tests passed" in o
        os.chmod(os.path.join(d, "run_demo.sh"), 0o755)
        rc1, o1 = sh("%s %s %s" % (os.path.join(d, "run_demo.sh"), wt, os.path.join(wt, "_build")), timeout=300)
        rc0, o0 = sh("%s %s %s" % (os.path.join(d, "run_demo.sh"), base, os.path.join(base, "_build")), timeout=300)
        res["demo_patched_exit"] = rc1
        res["demo_pristine_exit"] = rc0
        res["demo_patched_tail"] = o1.strip().splitlines()[-1][:300] if o1.strip() else ""
        ok = res["builds"] and res["tests_pass"] and rc1 != 0 and rc0 == 0
        res["confirmed"] = ok
        print(json.dumps(res))
        if ok:
            dst = os.path.join(HERE, "seeded", "%s-%s" % (pid, kk))
            os.makedirs(dst, exist_ok=True)
            for fn in ("patch.diff", "demo.cpp", "run_demo.sh"):
                shutil.copy(os.path.join(d, fn), os.path.join(dst, fn))
            try:
                meta = json.load(open(os.path.join(d, "meta.json")))
            except Exception as e:
                meta = {"property": pid, "note": "agent meta.json unreadable: %s" % e}
            meta["base"] = subprocess.check_output(["git", "-C", "/repo", "rev-parse", "--short", BASE_REV], text=True).strip()
            meta["confirmed_by_me"] = {"ran": "git apply patch.diff in a scratch worktree of /repo at the base revision; cmake+ninja build; ctest -j8 (all entries pass); run_demo.sh on patched build (exit %d) and on pristine build (exit %d)" % (rc1, rc0),
                                       "ctest": res["ctest"], "demo_output_patched": res["demo_patched_tail"]}
            json.dump(meta, open(os.path.join(dst, "meta.json"), "w"), indent=1)
    sh("git checkout -- . && rm -rf _build", cwd=wt)
    sh("git -C /repo worktree remove --force %s" % wt)

// cpv-extract: LibTooling fact extractor for the cpputest static verification rules.
// For every function DEFINED inside --root it emits the typed AST of the body and
// the clang CFG (all sub-expressions as elements), plus records, enums, globals and
// macro definitions. One JSON document per translation unit on -o <file>.
//
// Build: see /verif/setup.sh
#include "clang/AST/ASTConsumer.h"
#include "clang/AST/ASTContext.h"
#include "clang/AST/Mangle.h"
#include "clang/AST/RecursiveASTVisitor.h"
#include "clang/AST/ExprCXX.h"
#include "clang/AST/StmtCXX.h"
#include "clang/Analysis/CFG.h"
#include "clang/Frontend/CompilerInstance.h"
#include "clang/Frontend/FrontendActions.h"
#include "clang/Lex/PPCallbacks.h"
#include "clang/Lex/Preprocessor.h"
#include "clang/Lex/Lexer.h"
#include "clang/Tooling/CommonOptionsParser.h"
#include "clang/Tooling/Tooling.h"
#include "llvm/Support/CommandLine.h"
#include "llvm/Support/JSON.h"
#include "llvm/Support/raw_ostream.h"
#include <map>
#include <set>
#include <string>
#include <vector>

using namespace clang;
using namespace clang::tooling;
namespace json = llvm::json;

static llvm::cl::OptionCategory Cat("cpv-extract options");
static llvm::cl::opt<std::string> Root("root", llvm::cl::desc("repository root; only code defined below it is emitted"), llvm::cl::init("/repo"), llvm::cl::cat(Cat));
static llvm::cl::opt<std::string> Out("o", llvm::cl::desc("output file"), llvm::cl::init("-"), llvm::cl::cat(Cat));

namespace {

struct MacroDef {
  std::string name, file, body;
  unsigned line;
  bool fnlike;
  std::vector<std::string> params;
};

struct Shared {
  std::vector<MacroDef> macros;
};

static std::string rootPrefix() {
  std::string r = Root;
  while (!r.empty() && r.back() == '/') r.pop_back();
  return r + "/";
}

static bool underRoot(llvm::StringRef path) {
  return path.startswith(rootPrefix());
}

static std::string relPath(llvm::StringRef path) {
  std::string p = rootPrefix();
  if (path.startswith(p)) return path.substr(p.size()).str();
  return path.str();
}

class PPC : public PPCallbacks {
  Preprocessor &PP;
  Shared &Sh;
public:
  PPC(Preprocessor &PP, Shared &Sh) : PP(PP), Sh(Sh) {}
  void MacroDefined(const Token &Tok, const MacroDirective *MD) override {
    SourceManager &SM = PP.getSourceManager();
    SourceLocation L = MD->getLocation();
    if (!L.isValid() || !L.isFileID()) return;
    PresumedLoc PL = SM.getPresumedLoc(L);
    if (!PL.isValid()) return;
    llvm::StringRef fn = SM.getFilename(L);
    if (!underRoot(fn)) return;
    const MacroInfo *MI = MD->getMacroInfo();
    MacroDef D;
    D.name = Tok.getIdentifierInfo()->getName().str();
    D.file = relPath(fn);
    D.line = SM.getSpellingLineNumber(L);
    D.fnlike = MI->isFunctionLike();
    for (const IdentifierInfo *P : MI->params()) D.params.push_back(P->getName().str());
    std::string body;
    for (const Token &T : MI->tokens()) {
      if (!body.empty() && T.hasLeadingSpace()) body += ' ';
      body += PP.getSpelling(T);
    }
    D.body = body;
    Sh.macros.push_back(std::move(D));
  }
};

class Emitter {
public:
  ASTContext &Ctx;
  SourceManager &SM;
  json::OStream &J;
  std::unique_ptr<MangleContext> MC;
  PrintingPolicy PP;
  std::map<const Decl *, unsigned> declIds;
  std::map<const Stmt *, unsigned> stmtIds;
  unsigned nextStmt = 0;
  std::map<std::string, QualType> typesSeen;

  Emitter(ASTContext &C, json::OStream &J) : Ctx(C), SM(C.getSourceManager()), J(J), MC(C.createMangleContext()), PP(C.getLangOpts()) {
    PP.SuppressTagKeyword = true;
    PP.Bool = true;
    PP.SuppressUnwrittenScope = true;
  }

  unsigned did(const Decl *D) {
    D = D->getCanonicalDecl();
    auto it = declIds.find(D);
    if (it != declIds.end()) return it->second;
    unsigned n = declIds.size() + 1;
    declIds[D] = n;
    return n;
  }

  std::string tstr(QualType T) {
    if (T.isNull()) return "";
    std::string s = T.getAsString(PP);
    QualType CT = T.getCanonicalType();
    std::string cs = CT.getAsString(PP);
    typesSeen.emplace(cs, CT);
    return s;
  }
  std::string ctstr(QualType T) {
    if (T.isNull()) return "";
    QualType CT = T.getCanonicalType();
    std::string cs = CT.getAsString(PP);
    typesSeen.emplace(cs, CT);
    return cs;
  }

  void typeAttrs(QualType T) {
    J.attribute("t", tstr(T));
    std::string c = ctstr(T);
    J.attribute("ct", c);
  }

  std::string mangled(const NamedDecl *ND) {
    if (!ND) return "";
    if (const auto *FD = dyn_cast<FunctionDecl>(ND)) {
      if (FD->isDependentContext()) return FD->getQualifiedNameAsString();
      std::string s;
      llvm::raw_string_ostream os(s);
      if (const auto *CD = dyn_cast<CXXConstructorDecl>(FD)) {
        MC->mangleName(GlobalDecl(CD, Ctor_Complete), os);
      } else if (const auto *DD = dyn_cast<CXXDestructorDecl>(FD)) {
        MC->mangleName(GlobalDecl(DD, Dtor_Complete), os);
      } else if (MC->shouldMangleDeclName(FD)) {
        MC->mangleName(GlobalDecl(FD), os);
      } else {
        os << FD->getNameAsString();
      }
      return os.str();
    }
    return ND->getQualifiedNameAsString();
  }

  std::string qname(const NamedDecl *ND) {
    if (!ND) return "";
    return ND->getQualifiedNameAsString();
  }

  void locAttrs(SourceLocation L) {
    if (!L.isValid()) return;
    SourceLocation E = SM.getExpansionLoc(L);
    PresumedLoc PL = SM.getPresumedLoc(E, false);
    if (PL.isValid()) {
      J.attribute("f", relPath(SM.getFilename(E)));
      J.attribute("l", (int64_t)SM.getExpansionLineNumber(E));
      J.attribute("col", (int64_t)SM.getExpansionColumnNumber(E));
    }
    if (L.isMacroID()) {
      J.attributeArray("m", [&] {
        SourceLocation Cur = L;
        int guard = 0;
        while (Cur.isMacroID() && guard++ < 32) {
          llvm::StringRef N = Lexer::getImmediateMacroName(Cur, SM, Ctx.getLangOpts());
          J.value(N);
          if (SM.isMacroArgExpansion(Cur))
            Cur = SM.getImmediateExpansionRange(Cur).getBegin();
          else
            Cur = SM.getImmediateMacroCallerLoc(Cur);
        }
      });
    }
  }

  void calleeAttrs(const FunctionDecl *FD) {
    J.attribute("qn", qname(FD));
    J.attribute("mn", mangled(FD));
    if (FD->isNoReturn()) J.attribute("noreturn", true);
    if (const auto *MD = dyn_cast<CXXMethodDecl>(FD)) {
      J.attribute("cls", qname(MD->getParent()));
      if (MD->isVirtual()) J.attribute("virtual", true);
      if (MD->isStatic()) J.attribute("static", true);
    }
    SourceLocation L = FD->getLocation();
    if (L.isValid()) {
      llvm::StringRef fn = SM.getFilename(SM.getExpansionLoc(L));
      J.attribute("inroot", underRoot(fn));
    }
  }

  void intValue(const llvm::APSInt &V) {
    if (V.isSigned() || V.getActiveBits() < 64) {
      if (V.isSigned()) J.value((int64_t)V.getExtValue());
      else J.value((int64_t)V.getZExtValue());
    } else {
      llvm::SmallString<32> S;
      V.toString(S, 10);
      J.value(S.str());
    }
  }

  void emitDeclInline(const Decl *D) {
    J.object([&] {
      J.attribute("dk", D->getDeclKindName());
      J.attribute("did", (int64_t)did(D));
      if (const auto *ND = dyn_cast<NamedDecl>(D)) J.attribute("name", ND->getNameAsString());
      if (const auto *VD = dyn_cast<VarDecl>(D)) {
        typeAttrs(VD->getType());
        if (VD->isStaticLocal()) J.attribute("static", true);
        if (VD->hasInit()) {
          J.attributeBegin("init");
          emitStmt(VD->getInit());
          J.attributeEnd();
        }
      }
    });
  }

  void emitStmt(const Stmt *S) {
    if (!S) { J.value(nullptr); return; }
    unsigned id = nextStmt++;
    stmtIds[S] = id;
    J.object([&] {
      J.attribute("id", (int64_t)id);
      J.attribute("k", S->getStmtClassName());
      locAttrs(S->getBeginLoc());
      std::vector<const Stmt *> extraChildren;
      bool customChildren = false;
      if (const auto *E = dyn_cast<Expr>(S)) {
        typeAttrs(E->getType());
        if (E->isLValue()) J.attribute("lv", true);
        // constant value
        if (!E->isValueDependent() && !E->getType().isNull() && E->getType()->isIntegralOrEnumerationType() && E->isPRValue()) {
          Expr::EvalResult R;
          if (E->EvaluateAsInt(R, Ctx, Expr::SE_NoSideEffects)) {
            J.attributeBegin("cv");
            intValue(R.Val.getInt());
            J.attributeEnd();
          }
        }
      }
      if (const auto *B = dyn_cast<BinaryOperator>(S)) {
        J.attribute("op", B->getOpcodeStr());
      } else if (const auto *U = dyn_cast<UnaryOperator>(S)) {
        J.attribute("op", UnaryOperator::getOpcodeStr(U->getOpcode()));
        J.attribute("postfix", U->isPostfix());
      } else if (const auto *DR = dyn_cast<DeclRefExpr>(S)) {
        const ValueDecl *VD = DR->getDecl();
        J.attribute("name", VD->getNameAsString());
        J.attribute("qn", qname(VD));
        J.attribute("did", (int64_t)did(VD));
        J.attribute("dk", VD->getDeclKindName());
        if (const auto *FD = dyn_cast<FunctionDecl>(VD)) J.attribute("mn", mangled(FD));
        if (const auto *V = dyn_cast<VarDecl>(VD)) {
          if (V->hasGlobalStorage()) J.attribute("global", true);
          if (V->isStaticLocal()) J.attribute("staticlocal", true);
        }
      } else if (const auto *ME = dyn_cast<MemberExpr>(S)) {
        const ValueDecl *VD = ME->getMemberDecl();
        J.attribute("name", VD->getNameAsString());
        J.attribute("qn", qname(VD));
        J.attribute("did", (int64_t)did(VD));
        J.attribute("dk", VD->getDeclKindName());
        J.attribute("arrow", ME->isArrow());
        if (const auto *FD = dyn_cast<FunctionDecl>(VD)) J.attribute("mn", mangled(FD));
      } else if (const auto *IL = dyn_cast<IntegerLiteral>(S)) {
        J.attributeBegin("v");
        intValue(llvm::APSInt(IL->getValue(), !IL->getType()->isSignedIntegerType()));
        J.attributeEnd();
      } else if (const auto *CL = dyn_cast<CharacterLiteral>(S)) {
        J.attribute("v", (int64_t)CL->getValue());
      } else if (const auto *FL = dyn_cast<FloatingLiteral>(S)) {
        J.attribute("v", FL->getValueAsApproximateDouble());
      } else if (const auto *BL = dyn_cast<CXXBoolLiteralExpr>(S)) {
        J.attribute("v", BL->getValue());
      } else if (const auto *SL = dyn_cast<clang::StringLiteral>(S)) {
        if (SL->getCharByteWidth() == 1) {
          std::string bytes = SL->getBytes().str();
          if (json::isUTF8(bytes)) J.attribute("v", bytes);
          else J.attribute("v", json::fixUTF8(bytes));
          J.attribute("len", (int64_t)SL->getLength());
        }
      } else if (const auto *CE = dyn_cast<CastExpr>(S)) {
        J.attribute("ck", CE->getCastKindName());
        J.attribute("explicit", isa<ExplicitCastExpr>(CE));
      } else if (const auto *UE = dyn_cast<UnaryExprOrTypeTraitExpr>(S)) {
        J.attribute("trait", getTraitSpelling(UE->getKind()));
        if (UE->isArgumentType()) J.attribute("argt", ctstr(UE->getArgumentType()));
      }
      if (const auto *CE = dyn_cast<CallExpr>(S)) {
        const FunctionDecl *FD = CE->getDirectCallee();
        if (FD) {
          J.attributeObject("callee", [&] {
            calleeAttrs(FD);
            bool virt = false;
            if (const auto *MCE = dyn_cast<CXXMemberCallExpr>(CE)) {
              if (const auto *MD = MCE->getMethodDecl()) {
                const auto *ME = dyn_cast<MemberExpr>(MCE->getCallee()->IgnoreParens());
                virt = MD->isVirtual() && !(ME && ME->hasQualifier());
                if (const CXXRecordDecl *RD = MCE->getRecordDecl()) J.attribute("recv", qname(RD));
              }
            }
            J.attribute("dispatch", virt ? "virtual" : "direct");
          });
        }
      }
      if (const auto *CC = dyn_cast<CXXConstructExpr>(S)) {
        J.attributeObject("ctor", [&] { calleeAttrs(CC->getConstructor()); });
      }
      if (const auto *NE = dyn_cast<CXXNewExpr>(S)) {
        J.attribute("array", NE->isArray());
        J.attribute("alloct", ctstr(NE->getAllocatedType()));
        if (NE->getOperatorNew()) J.attributeObject("opnew", [&] { calleeAttrs(NE->getOperatorNew()); });
      }
      if (const auto *DE = dyn_cast<CXXDeleteExpr>(S)) {
        J.attribute("array", DE->isArrayForm());
        if (DE->getOperatorDelete()) J.attributeObject("opdelete", [&] { calleeAttrs(DE->getOperatorDelete()); });
      }
      if (const auto *TE = dyn_cast<CXXThrowExpr>(S)) {
        if (TE->getSubExpr()) J.attribute("thrown", ctstr(TE->getSubExpr()->getType()));
        else J.attribute("rethrow", true);
      }
      if (const auto *CS = dyn_cast<CXXCatchStmt>(S)) {
        if (CS->getExceptionDecl()) {
          J.attribute("caught", ctstr(CS->getCaughtType()));
          J.attribute("did", (int64_t)did(CS->getExceptionDecl()));
        } else J.attribute("caught", "...");
      }
      if (const auto *IE = dyn_cast<InitListExpr>(S)) {
        QualType T = IE->getType();
        if (const RecordType *RT = T->getAs<RecordType>()) {
          const RecordDecl *RD = RT->getDecl();
          J.attributeArray("fields", [&] {
            for (const FieldDecl *F : RD->fields()) J.value(F->getNameAsString());
          });
        }
      }
      auto role = [&](const char *name, const Stmt *Child) {
        if (!Child) return;
        auto it = stmtIds.find(Child);
        if (it != stmtIds.end()) J.attribute(name, (int64_t)it->second);
      };
      // declarations
      if (const auto *DS = dyn_cast<DeclStmt>(S)) {
        customChildren = true;
        J.attributeArray("decls", [&] {
          for (const Decl *D : DS->decls()) emitDeclInline(D);
        });
      }
      if (const auto *DA = dyn_cast<CXXDefaultArgExpr>(S)) {
        customChildren = true;
        J.attributeArray("c", [&] { emitStmt(DA->getExpr()); });
      }
      if (const auto *DI = dyn_cast<CXXDefaultInitExpr>(S)) {
        customChildren = true;
        J.attributeArray("c", [&] { emitStmt(DI->getExpr()); });
      }
      if (!customChildren) {
        J.attributeArray("c", [&] {
          for (const Stmt *C : S->children()) emitStmt(C);
        });
      }
      // roles (after children so ids exist)
      if (const auto *I = dyn_cast<IfStmt>(S)) {
        role("init", I->getInit()); role("cond", I->getCond()); role("then", I->getThen()); role("else", I->getElse());
        if (I->getConditionVariableDeclStmt()) role("var", I->getConditionVariableDeclStmt());
      } else if (const auto *W = dyn_cast<WhileStmt>(S)) {
        role("cond", W->getCond()); role("body", W->getBody());
      } else if (const auto *D = dyn_cast<DoStmt>(S)) {
        role("cond", D->getCond()); role("body", D->getBody());
      } else if (const auto *F = dyn_cast<ForStmt>(S)) {
        role("init", F->getInit()); role("cond", F->getCond()); role("inc", F->getInc()); role("body", F->getBody());
      } else if (const auto *Sw = dyn_cast<SwitchStmt>(S)) {
        role("cond", Sw->getCond()); role("body", Sw->getBody());
      } else if (const auto *CO = dyn_cast<AbstractConditionalOperator>(S)) {
        role("cond", CO->getCond()); role("then", CO->getTrueExpr()); role("else", CO->getFalseExpr());
      } else if (const auto *CaS = dyn_cast<CaseStmt>(S)) {
        role("lhs", CaS->getLHS()); role("sub", CaS->getSubStmt());
      } else if (const auto *R = dyn_cast<ReturnStmt>(S)) {
        role("value", R->getRetValue());
      } else if (const auto *T = dyn_cast<CXXTryStmt>(S)) {
        role("body", T->getTryBlock());
        J.attributeArray("handlers", [&] {
          for (unsigned i = 0; i < T->getNumHandlers(); i++) {
            auto it = stmtIds.find(T->getHandler(i));
            if (it != stmtIds.end()) J.value((int64_t)it->second);
          }
        });
      } else if (const auto *C = dyn_cast<CXXCatchStmt>(S)) {
        role("body", C->getHandlerBlock());
      } else if (const auto *CE = dyn_cast<CallExpr>(S)) {
        role("fn", CE->getCallee());
        J.attributeArray("args", [&] {
          for (const Expr *A : CE->arguments()) {
            auto it = stmtIds.find(A);
            if (it != stmtIds.end()) J.value((int64_t)it->second); else J.value(nullptr);
          }
        });
        if (const auto *MCE = dyn_cast<CXXMemberCallExpr>(CE)) role("obj", MCE->getImplicitObjectArgument());
      } else if (const auto *CC = dyn_cast<CXXConstructExpr>(S)) {
        J.attributeArray("args", [&] {
          for (const Expr *A : CC->arguments()) {
            auto it = stmtIds.find(A);
            if (it != stmtIds.end()) J.value((int64_t)it->second); else J.value(nullptr);
          }
        });
      } else if (const auto *B = dyn_cast<BinaryOperator>(S)) {
        role("lhs", B->getLHS()); role("rhs", B->getRHS());
      } else if (const auto *AS = dyn_cast<ArraySubscriptExpr>(S)) {
        role("base", AS->getBase()); role("idx", AS->getIdx());
      } else if (const auto *ME = dyn_cast<MemberExpr>(S)) {
        role("base", ME->getBase());
      }
    });
  }

  void emitCFG(const FunctionDecl *FD) {
    CFG::BuildOptions BO;
    BO.setAllAlwaysAdd();
    BO.AddImplicitDtors = true;
    BO.AddTemporaryDtors = true;
    BO.AddInitializers = true;
    BO.AddEHEdges = false;
    BO.PruneTriviallyFalseEdges = false;
    std::unique_ptr<CFG> G = CFG::buildCFG(FD, FD->getBody(), &Ctx, BO);
    if (!G) { J.attribute("cfg", nullptr); return; }
    // synthetic statements created by the CFG builder (split DeclStmts) get dumped here
    std::vector<const Stmt *> synth;
    for (const CFGBlock *B : *G)
      for (const CFGElement &E : *B)
        if (auto SE = E.getAs<CFGStmt>())
          if (!stmtIds.count(SE->getStmt())) synth.push_back(SE->getStmt());
    J.attributeArray("synth", [&] {
      for (const Stmt *S : synth)
        if (!stmtIds.count(S)) emitStmt(S);
    });
    J.attributeObject("cfg", [&] {
      J.attribute("entry", (int64_t)G->getEntry().getBlockID());
      J.attribute("exit", (int64_t)G->getExit().getBlockID());
      J.attributeArray("blocks", [&] {
        for (const CFGBlock *B : *G) {
          J.object([&] {
            J.attribute("id", (int64_t)B->getBlockID());
            if (B->hasNoReturnElement()) J.attribute("noreturn", true);
            J.attributeArray("el", [&] {
              for (const CFGElement &E : *B) {
                if (auto SE = E.getAs<CFGStmt>()) {
                  auto it = stmtIds.find(SE->getStmt());
                  if (it != stmtIds.end()) J.value((int64_t)it->second);
                } else if (auto IE = E.getAs<CFGInitializer>()) {
                  const CXXCtorInitializer *I = IE->getInitializer();
                  J.object([&] {
                    J.attribute("e", "init");
                    if (I->isAnyMemberInitializer()) J.attribute("field", I->getAnyMember()->getNameAsString());
                    else if (I->isBaseInitializer()) J.attribute("base", ctstr(QualType(I->getBaseClass(), 0)));
                    else if (I->isDelegatingInitializer()) J.attribute("delegating", true);
                    auto it = stmtIds.find(I->getInit());
                    if (it != stmtIds.end()) J.attribute("expr", (int64_t)it->second);
                  });
                } else if (auto DE = E.getAs<CFGImplicitDtor>()) {
                  J.object([&] {
                    const char *kind = "dtor";
                    if (auto AD = E.getAs<CFGAutomaticObjDtor>()) {
                      kind = "autodtor";
                      J.attribute("var", AD->getVarDecl()->getNameAsString());
                      J.attribute("did", (int64_t)did(AD->getVarDecl()));
                    } else if (E.getAs<CFGTemporaryDtor>()) kind = "tempdtor";
                    else if (auto MD = E.getAs<CFGMemberDtor>()) {
                      kind = "memberdtor";
                      if (MD->getFieldDecl()) J.attribute("field", MD->getFieldDecl()->getNameAsString());
                    }
                    else if (E.getAs<CFGBaseDtor>()) kind = "basedtor";
                    else if (E.getAs<CFGDeleteDtor>()) kind = "deletedtor";
                    J.attribute("e", kind);
                    const CXXDestructorDecl *DD = DE->getDestructorDecl(Ctx);
                    if (DD) { J.attribute("qn", qname(DD)); J.attribute("mn", mangled(DD)); }
                  });
                }
              }
            });
            if (const Stmt *T = B->getTerminatorStmt()) {
              auto it = stmtIds.find(T);
              if (it != stmtIds.end()) J.attribute("term", (int64_t)it->second);
              J.attribute("termk", T->getStmtClassName());
              if (B->getTerminator().isTemporaryDtorsBranch()) J.attribute("tempdtorbranch", true);
            }
            if (const Stmt *C = B->getTerminatorCondition(false)) {
              auto it = stmtIds.find(C);
              if (it != stmtIds.end()) J.attribute("cond", (int64_t)it->second);
            }
            if (const Stmt *L = B->getLabel()) {
              auto it = stmtIds.find(L);
              if (it != stmtIds.end()) J.attribute("label", (int64_t)it->second);
              J.attribute("labelk", L->getStmtClassName());
            }
            J.attributeArray("succ", [&] {
              for (auto I = B->succ_begin(); I != B->succ_end(); ++I) {
                const CFGBlock *Sx = I->getReachableBlock();
                if (!Sx) Sx = I->getPossiblyUnreachableBlock();
                if (Sx) J.value((int64_t)Sx->getBlockID()); else J.value(nullptr);
              }
            });
          });
        }
      });
    });
  }

  void emitFunction(const FunctionDecl *FD) {
    stmtIds.clear();
    nextStmt = 0;
    J.object([&] {
      J.attribute("qn", qname(FD));
      J.attribute("mn", mangled(FD));
      J.attribute("name", FD->getNameAsString());
      SourceLocation L = SM.getExpansionLoc(FD->getLocation());
      J.attribute("file", relPath(SM.getFilename(L)));
      J.attribute("line", (int64_t)SM.getExpansionLineNumber(L));
      J.attribute("endline", (int64_t)SM.getExpansionLineNumber(SM.getExpansionLoc(FD->getEndLoc())));
      if (FD->getLocation().isMacroID()) {
        J.attributeBegin("macro");
        J.value(Lexer::getImmediateMacroName(FD->getLocation(), SM, Ctx.getLangOpts()));
        J.attributeEnd();
      }
      J.attribute("ret", ctstr(FD->getReturnType()));
      J.attribute("sig", ctstr(FD->getType()));
      if (FD->isNoReturn()) J.attribute("noreturn", true);
      if (FD->isVariadic()) J.attribute("variadic", true);
      if (FD->isStatic()) J.attribute("static", true);
      if (FD->isExternC()) J.attribute("externc", true);
      if (const auto *FPT = FD->getType()->getAs<FunctionProtoType>()) {
        if (FPT->isNothrow()) J.attribute("nothrow", true);
      }
      const char *kind = "function";
      if (isa<CXXConstructorDecl>(FD)) kind = "ctor";
      else if (isa<CXXDestructorDecl>(FD)) kind = "dtor";
      else if (isa<CXXConversionDecl>(FD)) kind = "conversion";
      else if (isa<CXXMethodDecl>(FD)) kind = "method";
      J.attribute("kind", kind);
      if (const auto *MD = dyn_cast<CXXMethodDecl>(FD)) {
        J.attribute("cls", qname(MD->getParent()));
        if (MD->isVirtual()) J.attribute("virtual", true);
        if (MD->isConst()) J.attribute("const", true);
        J.attributeArray("overrides", [&] {
          for (const CXXMethodDecl *O : MD->overridden_methods()) J.value(mangled(O));
        });
      }
      J.attributeArray("params", [&] {
        for (const ParmVarDecl *P : FD->parameters()) {
          J.object([&] {
            J.attribute("name", P->getNameAsString());
            J.attribute("did", (int64_t)did(P));
            typeAttrs(P->getType());
          });
        }
      });
      if (const auto *CD = dyn_cast<CXXConstructorDecl>(FD)) {
        J.attributeArray("inits", [&] {
          for (const CXXCtorInitializer *I : CD->inits()) {
            J.object([&] {
              if (I->isAnyMemberInitializer()) J.attribute("field", I->getAnyMember()->getNameAsString());
              else if (I->isBaseInitializer()) J.attribute("base", ctstr(QualType(I->getBaseClass(), 0)));
              else if (I->isDelegatingInitializer()) J.attribute("delegating", true);
              J.attribute("written", I->isWritten());
              J.attributeBegin("expr");
              emitStmt(I->getInit());
              J.attributeEnd();
            });
          }
        });
      }
      J.attributeBegin("body");
      emitStmt(FD->getBody());
      J.attributeEnd();
      emitCFG(FD);
    });
  }
};

class Visitor : public RecursiveASTVisitor<Visitor> {
public:
  ASTContext &Ctx;
  SourceManager &SM;
  std::vector<const FunctionDecl *> funcs;
  std::vector<const VarDecl *> globals;
  std::vector<const CXXRecordDecl *> records;
  std::vector<const RecordDecl *> crecords;
  std::vector<const EnumDecl *> enums;
  std::vector<const FunctionDecl *> decls;
  Visitor(ASTContext &C) : Ctx(C), SM(C.getSourceManager()) {}
  bool shouldVisitTemplateInstantiations() const { return true; }
  bool inRoot(SourceLocation L) {
    if (!L.isValid()) return false;
    return underRoot(SM.getFilename(SM.getExpansionLoc(L)));
  }
  bool VisitFunctionDecl(FunctionDecl *FD) {
    if (!inRoot(FD->getLocation())) return true;
    if (FD->isDependentContext()) return true;
    if (FD->isThisDeclarationADefinition() && FD->hasBody() && !FD->isDefaulted() && !FD->isDeleted())
      funcs.push_back(FD);
    else if (!FD->isThisDeclarationADefinition())
      decls.push_back(FD);
    return true;
  }
  bool VisitVarDecl(VarDecl *VD) {
    if (!inRoot(VD->getLocation())) return true;
    if (isa<ParmVarDecl>(VD)) return true;
    if (VD->getDeclContext()->isDependentContext()) return true;
    if (VD->hasGlobalStorage() && !VD->isStaticLocal()) globals.push_back(VD);
    return true;
  }
  bool VisitRecordDecl(RecordDecl *RD) {
    if (!inRoot(RD->getLocation())) return true;
    if (!RD->isThisDeclarationADefinition()) return true;
    if (RD->isDependentContext()) return true;
    if (auto *C = dyn_cast<CXXRecordDecl>(RD)) records.push_back(C);
    else crecords.push_back(RD);
    return true;
  }
  bool VisitEnumDecl(EnumDecl *ED) {
    if (!inRoot(ED->getLocation())) return true;
    if (ED->isThisDeclarationADefinition()) enums.push_back(ED);
    return true;
  }
};

class Consumer : public ASTConsumer {
  Shared &Sh;
  std::string MainFile;
public:
  Consumer(Shared &Sh, llvm::StringRef MF) : Sh(Sh), MainFile(MF.str()) {}
  void HandleTranslationUnit(ASTContext &Ctx) override {
    if (Ctx.getDiagnostics().hasErrorOccurred()) {
      llvm::errs() << "cpv-extract: errors in " << MainFile << "\n";
    }
    std::error_code EC;
    std::unique_ptr<llvm::raw_fd_ostream> FOS;
    llvm::raw_ostream *OS = &llvm::outs();
    if (Out != "-") {
      FOS.reset(new llvm::raw_fd_ostream(Out, EC));
      if (EC) { llvm::errs() << "cannot open " << Out << "\n"; return; }
      OS = FOS.get();
    }
    json::OStream J(*OS, 0);
    Visitor V(Ctx);
    V.TraverseDecl(Ctx.getTranslationUnitDecl());
    Emitter E(Ctx, J);
    SourceManager &SM = Ctx.getSourceManager();
    J.object([&] {
      J.attribute("tu", relPath(MainFile));
      J.attribute("errors", Ctx.getDiagnostics().hasErrorOccurred());
      J.attributeArray("functions", [&] {
        std::set<const FunctionDecl *> seen;
        for (const FunctionDecl *FD : V.funcs)
          if (seen.insert(FD).second) E.emitFunction(FD);
      });
      J.attributeArray("fdecls", [&] {
        std::set<std::string> seen;
        for (const FunctionDecl *FD : V.decls) {
          std::string m = E.mangled(FD);
          if (!seen.insert(m).second) continue;
          J.object([&] {
            J.attribute("qn", E.qname(FD));
            J.attribute("mn", m);
            J.attribute("sig", E.ctstr(FD->getType()));
            if (FD->isNoReturn()) J.attribute("noreturn", true);
            SourceLocation L = SM.getExpansionLoc(FD->getLocation());
            J.attribute("file", relPath(SM.getFilename(L)));
            J.attribute("line", (int64_t)SM.getExpansionLineNumber(L));
            J.attributeArray("params", [&] {
              for (const ParmVarDecl *P : FD->parameters()) {
                J.object([&] {
                  J.attribute("name", P->getNameAsString());
                  J.attribute("ct", E.ctstr(P->getType()));
                  if (P->hasDefaultArg() && !P->hasUninstantiatedDefaultArg() && !P->hasUnparsedDefaultArg()) J.attribute("hasdefault", true);
                });
              }
            });
          });
        }
      });
      J.attributeArray("globals", [&] {
        std::set<const VarDecl *> seen;
        for (const VarDecl *VD : V.globals) {
          if (!seen.insert(VD).second) continue;
          E.stmtIds.clear();
          E.nextStmt = 0;
          J.object([&] {
            J.attribute("qn", E.qname(VD));
            J.attribute("name", VD->getNameAsString());
            J.attribute("did", (int64_t)E.did(VD));
            E.typeAttrs(VD->getType());
            SourceLocation L = SM.getExpansionLoc(VD->getLocation());
            J.attribute("file", relPath(SM.getFilename(L)));
            J.attribute("line", (int64_t)SM.getExpansionLineNumber(L));
            J.attribute("def", VD->isThisDeclarationADefinition() != VarDecl::DeclarationOnly);
            if (VD->getStorageClass() == SC_Static) J.attribute("static", true);
            if (VD->hasInit()) {
              J.attributeBegin("init");
              E.emitStmt(VD->getInit());
              J.attributeEnd();
            }
          });
        }
      });
      J.attributeArray("records", [&] {
        auto emitFields = [&](const RecordDecl *RD) {
          J.attributeArray("fields", [&] {
            for (const FieldDecl *F : RD->fields()) {
              J.object([&] {
                J.attribute("name", F->getNameAsString());
                E.typeAttrs(F->getType());
                if (const auto *AT = Ctx.getAsConstantArrayType(F->getType()))
                  J.attribute("extent", (int64_t)AT->getSize().getZExtValue());
              });
            }
          });
        };
        for (const CXXRecordDecl *RD : V.records) {
          J.object([&] {
            J.attribute("qn", E.qname(RD));
            J.attribute("union", RD->isUnion());
            SourceLocation L = SM.getExpansionLoc(RD->getLocation());
            J.attribute("file", relPath(SM.getFilename(L)));
            J.attribute("line", (int64_t)SM.getExpansionLineNumber(L));
            J.attributeArray("bases", [&] {
              for (const CXXBaseSpecifier &B : RD->bases()) J.value(E.ctstr(B.getType()));
            });
            emitFields(RD);
            J.attributeArray("methods", [&] {
              for (const CXXMethodDecl *M : RD->methods()) {
                if (M->isImplicit()) continue;
                J.object([&] {
                  J.attribute("name", M->getNameAsString());
                  J.attribute("qn", E.qname(M));
                  J.attribute("mn", E.mangled(M));
                  J.attribute("sig", E.ctstr(M->getType()));
                  if (M->isVirtual()) J.attribute("virtual", true);
                  if (M->isPure()) J.attribute("pure", true);
                  if (M->isStatic()) J.attribute("static", true);
                  if (M->isConst()) J.attribute("const", true);
                  J.attributeArray("overrides", [&] {
                    for (const CXXMethodDecl *O : M->overridden_methods()) J.value(E.mangled(O));
                  });
                  J.attributeArray("params", [&] {
                    for (const ParmVarDecl *P : M->parameters()) {
                      J.object([&] {
                        J.attribute("name", P->getNameAsString());
                        J.attribute("ct", E.ctstr(P->getType()));
                      });
                    }
                  });
                });
              }
            });
          });
        }
        for (const RecordDecl *RD : V.crecords) {
          J.object([&] {
            J.attribute("qn", E.qname(RD));
            J.attribute("union", RD->isUnion());
            emitFields(RD);
          });
        }
      });
      J.attributeArray("enums", [&] {
        for (const EnumDecl *ED : V.enums) {
          J.object([&] {
            J.attribute("qn", E.qname(ED));
            J.attributeArray("enumerators", [&] {
              for (const EnumConstantDecl *EC : ED->enumerators()) {
                J.object([&] {
                  J.attribute("name", EC->getNameAsString());
                  J.attribute("qn", E.qname(EC));
                  J.attributeBegin("v");
                  E.intValue(EC->getInitVal());
                  J.attributeEnd();
                });
              }
            });
          });
        }
      });
      J.attributeArray("macros", [&] {
        for (const MacroDef &M : Sh.macros) {
          J.object([&] {
            J.attribute("name", M.name);
            J.attribute("file", M.file);
            J.attribute("line", (int64_t)M.line);
            J.attribute("fnlike", M.fnlike);
            J.attributeArray("params", [&] { for (auto &p : M.params) J.value(p); });
            J.attribute("body", json::isUTF8(M.body) ? M.body : json::fixUTF8(M.body));
          });
        }
      });
      J.attributeObject("types", [&] {
        for (auto &KV : E.typesSeen) {
          QualType T = KV.second;
          J.attributeObject(KV.first, [&] {
            const Type *Ty = T.getTypePtr();
            if (Ty->isBooleanType()) { J.attribute("k", "bool"); J.attribute("bits", (int64_t)Ctx.getTypeSize(T)); }
            else if (Ty->isEnumeralType()) { J.attribute("k", "enum"); if (Ty->isIncompleteType()) return; J.attribute("bits", (int64_t)Ctx.getTypeSize(T)); J.attribute("signed", Ty->isSignedIntegerOrEnumerationType()); }
            else if (Ty->isIntegerType()) { J.attribute("k", "int"); J.attribute("bits", (int64_t)Ctx.getTypeSize(T)); J.attribute("signed", Ty->isSignedIntegerType()); }
            else if (Ty->isFloatingType()) { J.attribute("k", "float"); J.attribute("bits", (int64_t)Ctx.getTypeSize(T)); }
            else if (Ty->isPointerType()) { J.attribute("k", "ptr"); J.attribute("pointee", E.PP.Bool ? Ty->getPointeeType().getCanonicalType().getAsString(E.PP) : ""); }
            else if (Ty->isReferenceType()) { J.attribute("k", "ref"); J.attribute("pointee", Ty->getPointeeType().getCanonicalType().getAsString(E.PP)); }
            else if (const auto *AT = Ctx.getAsConstantArrayType(T)) { J.attribute("k", "array"); J.attribute("extent", (int64_t)AT->getSize().getZExtValue()); J.attribute("elem", AT->getElementType().getCanonicalType().getAsString(E.PP)); }
            else if (Ty->isRecordType()) { J.attribute("k", "record"); }
            else if (Ty->isFunctionType()) { J.attribute("k", "fn"); }
            else if (Ty->isVoidType()) { J.attribute("k", "void"); }
            else J.attribute("k", "other");
            if (T.isConstQualified()) J.attribute("const", true);
          });
        }
      });
    });
    *OS << "\n";
  }
};

class Action : public ASTFrontendAction {
  Shared Sh;
public:
  std::unique_ptr<ASTConsumer> CreateASTConsumer(CompilerInstance &CI, llvm::StringRef InFile) override {
    CI.getPreprocessor().addPPCallbacks(std::make_unique<PPC>(CI.getPreprocessor(), Sh));
    return std::make_unique<Consumer>(Sh, InFile);
  }
};

} // namespace

int main(int argc, const char **argv) {
  auto Exp = CommonOptionsParser::create(argc, argv, Cat);
  if (!Exp) { llvm::errs() << Exp.takeError(); return 2; }
  CommonOptionsParser &OP = Exp.get();
  ClangTool Tool(OP.getCompilations(), OP.getSourcePathList());
  int rc = Tool.run(newFrontendActionFactory<Action>().get());
  return rc;
}

#!/usr/bin/env python3
"""tools/seed_matrix.py [ids...] — run every registered check against every confirmed seeded change
(scratch copy of /repo HEAD + patch) and record which checks fire. Writes seeded/MATRIX.json."""
import json, os, subprocess, sys
from concurrent.futures import ThreadPoolExecutor
HERE = os.path.dirname(os.path.dirname(os.path.abspath(__file__)))
SEEDS = sorted(d for d in os.listdir(os.path.join(HERE, "seeded")) if os.path.isdir(os.path.join(HERE, "seeded", d)))
if len(sys.argv) > 1:
    SEEDS = [s for s in SEEDS if s in sys.argv[1:] or s.split("-")[0] in sys.argv[1:]]
PROPS = ["C%02d" % i for i in range(1, 21)]

def one(seed):
    d = os.path.join(HERE, "seeded", seed)
    patch = os.path.join(d, "patch.rebased.diff") if os.path.exists(os.path.join(d, "patch.rebased.diff")) else os.path.join(d, "patch.diff")
    root = "/tmp/cpv-matrix/%s/root" % seed
    os.makedirs(root, exist_ok=True)
    subprocess.check_call(["rsync", "-a", "--delete", "--exclude", "_build", "--exclude", ".git", "--exclude", "build", "/repo/", root + "/"])
    r = subprocess.run(["patch", "-p1", "-s", "-d", root, "-i", patch], capture_output=True, text=True)
    if r.returncode != 0:
        return seed, {"applies": False, "patch": os.path.basename(patch), "err": (r.stdout + r.stderr)[-300:]}
    env = dict(os.environ, CPV_EVIDENCE_DIR="/tmp/cpv-matrix/%s/evidence" % seed)
    res = {"applies": True, "patch": os.path.basename(patch), "fired": {}, "broken": []}
    for p in PROPS:
        rr = subprocess.run([os.path.join(HERE, "check"), p, "--root", root], capture_output=True, text=True, env=env)
        if rr.returncode == 1:
            v = [l.strip() for l in rr.stdout.splitlines() if l.startswith("  violated")]
            res["fired"][p] = v[:3]
        elif rr.returncode != 0:
            res["broken"].append(p)
    subprocess.run(["rm", "-rf", "/tmp/cpv-matrix/%s" % seed])
    return seed, res

out = {}
mp = os.path.join(HERE, "seeded", "MATRIX.json")
if os.path.exists(mp) and len(sys.argv) > 1:
    out = json.load(open(mp))
with ThreadPoolExecutor(max_workers=6) as ex:
    for seed, res in ex.map(one, SEEDS):
        out[seed] = res
        own = seed.split("-")[0]
        print(seed, "applies=%s" % res.get("applies"), "own=%s" % ("CAUGHT" if own in res.get("fired", {}) else ("broken" if own in res.get("broken", []) else "missed")),
              "others=%s" % sorted(k for k in res.get("fired", {}) if k != own), "broken=%s" % res.get("broken"))
json.dump(out, open(mp, "w"), indent=1, sort_keys=True)

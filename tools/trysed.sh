#!/bin/sh
# tools/trysed.sh <file relative to repo> <sed expression> <Cxx...> : ad-hoc mutant on a scratch copy of /repo (never touches /repo)
F=$1; E=$2; shift 2
S=${CPV_SCRATCH:-/tmp/cpv-scratch}
mkdir -p $S/root
rsync -a --delete --exclude _build --exclude .git --exclude build /repo/ $S/root/
sed -i "$E" $S/root/$F
diff -u /repo/$F $S/root/$F | grep '^[-+][^-+]' | head -6
for P in "$@"; do
  CPV_EVIDENCE_DIR=$S/evidence /verif/check $P --root $S/root 2>&1 | grep -E "^(OK|ANALYSIS|  violated)" | cut -c1-${COLS:-330} | head -${LINES_MAX:-4}
done

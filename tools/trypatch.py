#!/usr/bin/env python3
"""tools/trypatch.py <patch.diff> [Cxx ...]  — run checks against a scratch copy of /repo with the patch applied.
Never touches /repo. Evidence of these runs goes to a scratch directory."""
import os, subprocess, sys, shutil, tempfile
HERE = os.path.dirname(os.path.dirname(os.path.abspath(__file__)))
SCRATCH = os.environ.get("CPV_SCRATCH", "/tmp/cpv-scratch")
root = os.path.join(SCRATCH, "root")
os.makedirs(root, exist_ok=True)
patch = os.path.abspath(sys.argv[1]) if sys.argv[1] != "-" else None
props = sys.argv[2:] or ["all"]
subprocess.check_call(["rsync", "-a", "--delete", "--exclude", "_build", "--exclude", ".git", "--exclude", "build", "/repo/", root + "/"])
if patch:
    r = subprocess.run(["patch", "-p1", "-s", "-d", root, "-i", patch], capture_output=True, text=True)
    if r.returncode != 0:
        print("PATCH FAILED", r.stdout, r.stderr)
        sys.exit(3)
env = dict(os.environ)
env["CPV_EVIDENCE_DIR"] = os.path.join(SCRATCH, "evidence")
rc_all = 0
for p in props:
    r = subprocess.run([os.path.join(HERE, "check"), p, "--root", root] + (["--tier", os.environ["TIER"]] if os.environ.get("TIER") else []), capture_output=True, text=True, env=env)
    lines = [l for l in r.stdout.splitlines() if l.startswith(("VIOLATION", "ANALYSIS-BROKEN", "  violated", "OK "))]
    print("== %s exit=%d" % (p, r.returncode))
    for l in lines:
        print("   " + l[:300])
    if r.returncode not in (0, 1):
        print(r.stdout[-1500:], r.stderr[-1500:])
    rc_all = max(rc_all, r.returncode)
sys.exit(rc_all)

#!/bin/sh
# tools/tryrefac.sh <Cxx> [refactor ids...] : run check Cxx against behaviour-preserving refactorings (must stay silent)
P=$1; shift
IDS="$@"
[ -z "$IDS" ] && IDS="$P-1 $P-2 $P-3 $P-4"
for r in $IDS; do
  echo "--- refactor $r vs $P"
  /verif/tools/trypatch.py /verif/refactors/$r/patch.diff $P 2>&1 | grep -v WARN | cut -c1-${COLS:-420} | grep -v "^   OK\|^== .* exit=0" | head -${LINES_MAX:-8}
done

"""C01 — a failing check always fails the run: phase sequencing, jump-buffer balance, fail => recorded once =>
phase ends, verdict and exit value, bracketing, location printing. DESIGN.md section 4, C01."""
import itertools
import re
from .common import *
from cpv.ceval import Evaluator, Unknown
from .shared import plugin_chain_order, testfailure_ctor_table

SETJMP, LONGJMP_SLOT, RESTORE = "PlatformSpecificSetJmp", "PlatformSpecificLongJmp", "PlatformSpecificRestoreJumpBuffer"
PHASES = {"helperDoTestSetup": "setup", "helperDoTestBody": "testBody", "helperDoTestTeardown": "teardown"}


def setjmp_phase(prog, f, c):
    if prog.callee_name(f, c) != SETJMP:
        return None
    a = f.args(c)
    return render(f, a[0]) if a else "?"


def _check(ctx, run, flags=(), label="default"):
    prog = ctx.program(flags=flags) if flags else ctx.program()
    sfx = "" if label == "default" else " [%s]" % label
    run.assume("setjmp/longjmp and C++ exception unwinding behave as specified; user fixture code may throw or longjmp at any statement (modelled as: every PlatformSpecificSetJmp call may return 0, return 1, or raise)")
    run.not_decided.append("run-time counts for concrete test programs; that fixture nesting stays below the 10 jump-buffer slots; (int) truncation of >= 2^31 failures")
    run.rule("R1", "phase sequencing in Utest::run: body only on the non-zero result of the setup SetJmp, teardown SetJmp on every path that returns, also after every caught exception; escape only by the explicit rethrow option; helpers call setup/testBody/teardown", floor=8)
    run.rule("R2", "jump-buffer depth is balanced: SetJmp +1-1 on return, LongJmp -1 then longjmp on the same slot expression, and every catch handler of a try containing a SetJmp calls RestoreJumpBuffer exactly once", floor=9)
    run.rule("R3", "fail => recorded once => phase ends: failWith = addFailure x1 then terminator; addFailure marks the test and counts/prints once; every exitCurrentTest override has no normal exit; handlers of the framework's own exception add no failure, all others exactly one", floor=16)
    run.rule("R4", "verdict and exit value: isFailure truth table, fresh TestResult per repetition, monotone accumulators, returned value zero iff no failure in any repetition, summary OK iff !isFailure with each counter printed under its label", floor=20)
    run.rule("R5", "context and plugin bracketing in runOneTestInCurrentProcess: pre actions < create < run < destroy < post actions on the normal path, destroy on the exceptional one, saved context restored; plugin chain order", floor=8)
    run.rule("R6", "location printing: every path of printFailure prints the failure's file and line and the message exactly once; TestFailure constructors fill the identity fields", floor=8)

    urun = prog.fn("Utest::run")
    run.analysed(urun)

    # ---------------- R1 ----------------------------------------------------
    # Utest::run folded against scripted outcomes of the three phase runners: 1 = the phase completed, 0 = it left by
    # longjmp (a failed check), F/S/U = it left by a CppUTestFailedException / a std::exception / any other exception
    from cpv.ceval import Thrown
    have_try = any(n["k"] == "CXXTryStmt" for n in urun.walk()) or any(n["k"] == "CXXTryStmt" for g in prog.functions.values() if g.file == urun.file and not g.cls and g.d.get("static") for n in g.walk())
    OUT = (1, 0, "F", "S", "U") if have_try else (1, 0)
    EXC = {"F": "CppUTestFailedException", "S": "std::exception", "U": "int"}

    def fold_run(script, rethrow):
        log = []

        def setjmp(fn, data):
            ph = {"helperDoTestSetup": "setup", "helperDoTestBody": "body", "helperDoTestTeardown": "teardown"}.get(fn[1].split("::")[-1] if isinstance(fn, tuple) else None)
            log.append(ph)
            o = script.get(ph, 1)
            if o in EXC:
                raise Thrown("phase %s throws" % ph, exc=EXC[o])
            return o
        ev = Evaluator(prog, urun, env={"this": 4000}, calls={SETJMP: setjmp, RESTORE: lambda *a_: (log.append("restore"), 0)[1], "UtestShell::getCurrent": lambda *a_: 7,
                                                               "UtestShell::isRethrowingExceptions": lambda *a_: rethrow, "UtestShell::addFailure": lambda *a_: (log.append("failure"), 0)[1]})
        end, _ = ev.run_blocks(urun.entry, max_steps=2000)
        return log, ("throw" if end == "throw" else "return")
    nsc = 0
    try:
        for so, bo, to, rethrow in itertools.product(OUT, OUT, OUT, (0, 1)):
            if so != 1 and bo != 1:
                continue        # the body is not reached: one script per setup outcome is enough
            nsc += 1
            log, end = fold_run({"setup": so, "body": bo, "teardown": to}, rethrow)
            phases = [x for x in log if x in ("setup", "body", "teardown")]
            escaped = [ph for ph, o in (("setup", so), ("body", bo if so == 1 else 1)) if o in ("S", "U")]
            why = []
            if rethrow and escaped:
                want, want_end = (["setup"] + (["body"] if so == 1 else [])), "throw"
            else:
                want = ["setup"] + (["body"] if so == 1 else []) + ["teardown"]
                want_end = "throw" if (rethrow and to in ("S", "U")) else "return"
            if phases != want:
                if "body" in phases and so != 1:
                    why.append("body entered although setup did not complete with a non-zero result")
                elif so == 1 and "body" not in phases:
                    why.append("setup completed but the body was not entered")
                elif phases.count("teardown") != (1 if "teardown" in want else 0):
                    why.append("teardown entered %d times" % phases.count("teardown"))
                else:
                    why.append("phases run: %s, expected %s" % (phases, want))
            if end != want_end:
                why.append("Utest::run ends with %s, expected %s%s" % (end, want_end, "" if want_end == "throw" else " (an exception escapes without the rethrow option being set)"))
            run.ob("R1", "phases folded [setup=%s body=%s teardown=%s rethrow=%d]%s" % (so, bo if so == 1 else "-", to, rethrow, sfx), urun.site, not why, witness={"phases": phases, "end": end}, what="; ".join(why))
            if have_try and not why:
                thrown = [o for ph, o in (("setup", so), ("body", bo if so == 1 else 1), ("teardown", to if "teardown" in phases else 1)) if o in EXC]
                w2 = []
                if log.count("restore") != len(thrown):
                    w2.append("%d exception(s) left a SetJmp'd phase, the jump buffer is restored %d times: an exception leaks one jump-buffer slot per occurrence (the 11th such test overruns the 10-slot table), or a slot too many is popped" % (len(thrown), log.count("restore")))
                if log.count("failure") != len([o for o in thrown if o in ("S", "U")]):
                    w2.append("%d unexpected exception(s), %d failure(s) recorded" % (len([o for o in thrown if o in ("S", "U")]), log.count("failure")))
                run.ob("R2", "handlers folded [setup=%s body=%s teardown=%s rethrow=%d]: one RestoreJumpBuffer per exception caught, one failure per unexpected exception%s" % (so, bo if so == 1 else "-", to, rethrow, sfx), urun.site, not w2,
                       witness={"log": log}, what="; ".join(w2))
    except Unknown as u:
        run.broke("C01.R1: Utest::run cannot be folded%s: %s" % (sfx, u))
    for h, meth in PHASES.items():
        f = prog.fn(h)
        run.analysed(f)
        cs = [(prog.callee_name(f, c) or "").split("::")[-1] for c in f.calls()]
        cs = [c for c in cs if c in PHASES.values()]
        run.ob("R1", "%s calls %s%s" % (h, meth, sfx), f.site, cs == [meth], witness=cs)
    # ---------------- R2 ----------------------------------------------------
    def r2():
        impl = {}
        for slot in (SETJMP, LONGJMP_SLOT, RESTORE):
            tg = sorted(prog.slots().get(slot, set()))
            if len(tg) != 1 or tg[0] not in prog.functions:
                raise AnalysisBroken("platform slot %s does not hold exactly one analysed function (%s)" % (slot, tg))
            impl[slot] = prog.functions[tg[0]]
            run.analysed(impl[slot])
        sj, lj, rs = impl[SETJMP], impl[LONGJMP_SLOT], impl[RESTORE]
        SJN = ("setjmp", "_setjmp", "__sigsetjmp", "sigsetjmp")
        LJN = ("longjmp", "_longjmp", "siglongjmp", "__longjmp_chk")
        gvars = sorted({n["name"] for g in (sj, lj, rs) for n in g.walk() if n["k"] == "DeclRefExpr" and n.get("global") and n.get("dk") == "Var" and n.get("ct") in ("int", "unsigned int", "unsigned long", "long")})
        if len(gvars) != 1:
            raise AnalysisBroken("jump-buffer depth counter not identified (%s)" % gvars)
        depth = gvars[0]
        saved = {}
        for d0 in (0, 3, 9):
            for first_return in (0, 1):       # setjmp returns 0 when called, non-zero when longjmp lands
                ev = Evaluator(prog, sj, env={depth: d0, sj.params[0]["name"]: 77, sj.params[1]["name"]: 88})
                during = []
                for nm in SJN:
                    ev.calls[nm] = lambda *a, fr=first_return: fr
                ev.calls[sj.params[0]["name"]] = lambda *a, ev=ev, during=during: (during.append(ev.env.get(depth)), 0)[1]
                try:
                    ev.run_blocks(sj.entry, max_steps=200)
                    keys = [k for nm, k in getattr(ev, "argkeys", []) if nm in SJN]
                    got = {"after": ev.env.get(depth), "ret": getattr(ev, "ret", None), "during": during, "slot": keys[0][0] if keys else None}
                except Unknown as u:
                    got = {"error": str(u)}
                if first_return == 0:
                    want_ok = got.get("after") == d0 and got.get("ret") == 1 and got.get("during") == [d0 + 1]
                    saved[d0] = got.get("slot")
                else:
                    want_ok = got.get("after") == d0 and got.get("ret") == 0 and got.get("during") == []
                run.ob("R2", "SetJmp implementation at depth %d, setjmp returns %s: body runs one level deeper and the depth is restored" % (d0, "0 (direct)" if first_return == 0 else "non-zero (after longjmp)") + sfx, sj.site, want_ok, witness=got)
            # LongJmp from depth d0+1 must land on the slot that SetJmp at depth d0 saved
            ev = Evaluator(prog, lj, env={depth: d0 + 1})
            landed = []
            for nm in LJN:
                ev.calls[nm] = lambda *a, landed=landed: (landed.append(1), 0)[1]
            try:
                ev.run_blocks(lj.entry, max_steps=100)
            except Unknown:
                pass
            keys = [k for nm, k in getattr(ev, "argkeys", []) if nm in LJN]
            got = {"after": ev.env.get(depth), "slot": keys[0][0] if keys else None, "setjmp_slot": saved.get(d0)}
            ok = got["after"] == d0 and got["slot"] is not None and got["slot"] == saved.get(d0)
            run.ob("R2", "LongJmp implementation from depth %d lands on the slot saved at depth %d and pops one level" % (d0 + 1, d0) + sfx, lj.site, ok, witness=got)
            ev = Evaluator(prog, rs, env={depth: d0 + 1})
            try:
                ev.run_blocks(rs.entry, max_steps=50)
            except Unknown:
                pass
            run.ob("R2", "RestoreJumpBuffer implementation pops exactly one level (from %d)" % (d0 + 1) + sfx, rs.site, ev.env.get(depth) == d0 and not [t for t in ev.trace], witness={"after": ev.env.get(depth)})
        for p in enumerate_paths(lj, stop=lambda f, n: n["k"] == "CallExpr" and (prog.callee_name(f, n) or "") in LJN):
            run.ob("R2", "LongJmp implementation never returns" + sfx, lj.site, p.end in ("stop", "noreturn"), witness=p.end)
        # handlers
        nh = 0
        for f in prog.functions.values():
            if not f.file.startswith("src/"):
                continue
            for t in [n for n in f.walk() if n["k"] == "CXXTryStmt"]:
                body = f.node(t.get("body"))
                if not any(prog.callee_name(f, c) == SETJMP for c in f.calls(body)):
                    continue
                for hid in t.get("handlers", []):
                    h = f.nodes[hid]
                    nh += 1
                    # paths through the handler
                    hb = [b for b in f.blocks.values() if b.get("label") == hid]
                    if not hb:
                        run.ob("R2", "handler catch(%s)" % h.get("caught"), f.site, False, what="handler block not found in the CFG")
                        continue
                    sub = enumerate_paths(f, start_block=hb[0]["id"])
                    # only the part of the path inside the handler counts
                    inside = {x["id"] for x in f.walk(h)}
                    ok = True
                    wit = []
                    for p in sub:
                        seq = []
                        in_handler = False
                        for e in p.trace:
                            if isinstance(e, int):
                                in_handler = e in inside
                                n = f.nodes[e]
                            elif isinstance(e, dict) and "k" in e:
                                n = e       # spliced from a static helper called at the last own element
                            else:
                                continue
                            if not in_handler:
                                continue
                            if n["k"] == "CallExpr" and prog.callee_name(f, n) == RESTORE:
                                seq.append("restore")
                            if n["k"] == "CXXThrowExpr":
                                seq.append("throw")
                        wit.append(seq)
                        if seq.count("restore") != 1 or ("throw" in seq and seq.index("throw") < seq.index("restore")):
                            ok = False
                    ordinal = [x for x in t.get("handlers", [])].index(hid)
                    tries = [n["id"] for n in f.walk() if n["k"] == "CXXTryStmt"]
                    run.ob("R2", "try #%d handler catch(%s) restores the jump buffer exactly once%s" % (tries.index(t["id"]) + 1, h.get("caught"), sfx), f.site, ok, witness=wit,
                           what="" if ok else "an exception leaving a SetJmp'd phase leaks one jump-buffer slot per occurrence (the 11th such test overruns the 10-slot table)")
        # (the per-handler rule above covers handlers whose try block calls SetJmp directly; when the phase runners were
        # moved into helpers the folded scenarios of R1/R2 are what decides the handlers)
    guarded(run, r2)

    # ---------------- R3 ----------------------------------------------------
    fw = [f for f in prog.fns("UtestShell::failWith") if len(f.params) == 2][0]
    run.analysed(fw)
    for p in enumerate_paths(fw, stop=lambda f, n: n["k"] == "CXXMemberCallExpr" and (prog.callee_name(f, n) or "").endswith("exitCurrentTest")):
        names = [(prog.callee_name(fw, c) or "").split("::")[-1] for c in path_calls(prog, fw, p)]
        names = [n for n in names if n in ("addFailure", "exitCurrentTest")]
        run.ob("R3", "failWith = addFailure then terminator%s" % sfx, fw.site, names == ["addFailure", "exitCurrentTest"] and p.end == "stop", witness=names)
    fw1 = [f for f in prog.fns("UtestShell::failWith") if len(f.params) == 1][0]
    cs = [render(fw1, c) for c in fw1.calls() if (prog.callee_name(fw1, c) or "").endswith("failWith")]
    run.ob("R3", "failWith(failure) delegates with the current terminator%s" % sfx, fw1.site, [c.replace("UtestShell::", "") for c in cs] == ["failWith(%s, getCurrentTestTerminator())" % fw1.params[0]["name"]], witness=cs)
    af = prog.fn("UtestShell::addFailure")
    run.analysed(af)
    for p in enumerate_paths(af):
        a = [(l, render(af, r)) for l, r, n in assignments(af, p)]
        cs = [rx(af, c) for c in path_calls(prog, af, p) if (prog.callee_name(af, c) or "").endswith("::addFailure")]
        run.ob("R3", "UtestShell::addFailure marks the test failed and records once%s" % sfx, af.site, ("hasFailed_", "true") in a and cs == ["getTestResult()->addFailure(%s)" % af.params[0]["name"]], witness={"assign": a, "calls": cs})
    ra = prog.fn("TestResult::addFailure")
    run.analysed(ra)
    for p in enumerate_paths(ra):
        inc = [render(ra, ra.nodes[e]) for e in p.trace if isinstance(e, int) and ra.nodes[e]["k"] == "UnaryOperator" and ra.nodes[e].get("op") == "++"]
        cs = [render(ra, c) for c in path_calls(prog, ra, p) if (prog.callee_name(ra, c) or "").endswith("printFailure")]
        run.ob("R3", "TestResult::addFailure counts once and prints once%s" % sfx, ra.site, inc == ["failureCount_++"] and cs == ["output_.printFailure(%s)" % ra.params[0]["name"]], witness={"inc": inc, "print": cs})
    # terminators
    r, m = None, None
    base = [x for x in prog.records.get("TestTerminator", {}).get("methods", []) if x["name"] == "exitCurrentTest"]
    if not base:
        raise AnalysisBroken("TestTerminator::exitCurrentTest not found")
    overs = sorted(prog.overriders(base[0]["mn"]))
    nterm = 0
    longjmp_targets = prog.slots().get(LONGJMP_SLOT, set())

    def term_stop(f, n):
        if n["k"] not in CALL_KINDS:
            return False
        nm = prog.callee_name(f, n) or ""
        if nm == LONGJMP_SLOT or nm.endswith("::exitCurrentTest"):
            return True
        return is_noreturn_call(prog, f, n)
    for mn in overs:
        f = prog.functions.get(mn)
        if f is None or not f.file.startswith(("src/", "include/")):
            continue
        nterm += 1
        run.analysed(f)
        ends = []
        for p in enumerate_paths(f, stop=term_stop):
            ends.append(p.end)
        ok = bool(ends) and all(e in ("stop", "throw", "noreturn") for e in ends)
        run.ob("R3", "%s has no normal exit%s" % (f.qn, sfx), f.site, ok, witness=ends, what="" if ok else "a path returns to the failing statement: code after a failed check would run")
    if nterm < 5:
        run.broke("only %d exitCurrentTest overrides found (6 confirmed by hand)" % nterm)
    for mn in sorted(longjmp_targets):
        g = prog.functions.get(mn)
        ok = g is not None and any((prog.callee_name(g, c) or "") in ("longjmp", "_longjmp", "siglongjmp") for c in g.calls())
        run.ob("R3", "the LongJmp slot holds a function that ends in longjmp%s" % sfx, g.site if g else mn, ok)
    # handlers in Utest::run
    for t in [n for n in urun.walk() if n["k"] == "CXXTryStmt"]:
        for hid in t.get("handlers", []):
            h = urun.nodes[hid]
            hb0 = [b for b in urun.blocks.values() if b.get("label") == hid]
            inside0 = {x["id"] for x in urun.walk(h)}
            counts = set()
            for p in (enumerate_paths(urun, start_block=hb0[0]["id"]) if hb0 else []):
                c_ = 0
                in_h = False
                for e in p.trace:
                    if isinstance(e, int):
                        in_h = e in inside0
                        n = urun.nodes[e]
                    elif isinstance(e, dict) and "k" in e:
                        n = e
                    else:
                        continue
                    if in_h and n["k"] == "CXXMemberCallExpr" and (prog.callee_name(urun, n) or "") == "UtestShell::addFailure":
                        c_ += 1
                counts.add(c_)
            adds = sorted(counts)
            own = "CppUTestFailedException" in (h.get("caught") or "")
            ok = adds == ([0] if own else [1])
            tries = [n["id"] for n in urun.walk() if n["k"] == "CXXTryStmt"]
            run.ob("R3", "Utest::run try #%d catch(%s) adds %s failure%s" % (tries.index(t["id"]) + 1, h.get("caught"), "no" if own else "exactly one", sfx), urun.site, ok, witness={"failures_added_per_path": adds},
                   what="" if ok else ("an already recorded failure would be recorded twice" if own else "an escaped exception would not be recorded exactly once"))
            if not own and adds == [1]:
                # the failure is recorded before the optional rethrow
                hb = [b for b in urun.blocks.values() if b.get("label") == hid]
                okb = True
                for p in enumerate_paths(urun, start_block=hb[0]["id"]):
                    seq = []
                    inside = {x["id"] for x in urun.walk(h)}
                    in_h = False
                    for e in p.trace:
                        if isinstance(e, int):
                            in_h = e in inside
                            n = urun.nodes[e]
                        elif isinstance(e, dict) and "k" in e:
                            n = e
                        else:
                            continue
                        if not in_h:
                            continue
                        if n["k"] == "CXXMemberCallExpr" and (prog.callee_name(urun, n) or "") == "UtestShell::addFailure":
                            seq.append("add")
                        if n["k"] == "CXXThrowExpr":
                            seq.append("throw")
                    if seq.count("add") != 1 or ("throw" in seq and seq.index("throw") < seq.index("add")):
                        okb = False
                run.ob("R3", "Utest::run try #%d catch(%s) records before rethrowing%s" % (tries.index(t["id"]) + 1, h.get("caught"), sfx), urun.site, okb)

    # ---------------- R4 ----------------------------------------------------
    # with -p a failure crosses a process boundary: the child's exit status must tell the parent about every failure the
    # result recorded (also those a plugin added without going through the shell), the parent turns it into one failure
    from .C11 import separate_process_rules
    separate_process_rules(prog, run, "R4", "R4")
    isf = prog.fn("TestResult::isFailure")
    run.analysed(isf)
    getters = {"getFailureCount": "failureCount_", "getRunCount": "runCount_", "getIgnoredCount": "ignoredCount_", "getTestCount": "testCount_",
               "getCheckCount": "checkCount_", "getFilteredOutCount": "filteredOutCount_"}
    for g, fld in getters.items():
        gf = prog.fn("TestResult::" + g)
        rets = [render(gf, gf.node(n.get("value"))) for n in gf.walk() if n["k"] == "ReturnStmt"]
        run.ob("R4", "TestResult::%s returns %s%s" % (g, fld, sfx), gf.site, rets == [fld], witness=rets)
    for meth, fld in (("countTest", "testCount_"), ("countRun", "runCount_"), ("countCheck", "checkCount_"), ("countFilteredOut", "filteredOutCount_"), ("countIgnored", "ignoredCount_")):
        cf = prog.fn("TestResult::" + meth)
        ops = [render(cf, n) for n in cf.walk() if n["k"] in ("UnaryOperator", "CompoundAssignOperator", "BinaryOperator") and n.get("op") in ("++", "--", "+=", "-=", "=")]
        run.ob("R4", "TestResult::%s increments %s once%s" % (meth, fld, sfx), cf.site, ops in (["%s++" % fld], ["++%s" % fld]), witness=ops)
    rexpr = [isf.node(n.get("value")) for n in isf.walk() if n["k"] == "ReturnStmt"]
    for fc, rc, ic in itertools.product((0, 1, 7), (0, 1, 7), (0, 1, 7)):
        ev = Evaluator(prog, isf, calls={"TestResult::getFailureCount": lambda fc=fc: fc, "TestResult::getRunCount": lambda rc=rc: rc, "TestResult::getIgnoredCount": lambda ic=ic: ic},
                       env={"failureCount_": fc, "runCount_": rc, "ignoredCount_": ic})
        try:
            got = ev.ev(rexpr[0]) if len(rexpr) == 1 else None
        except Unknown as u:
            got = "unknown: %s" % u
        want = 1 if (fc > 0 or rc + ic == 0) else 0
        run.ob("R4", "isFailure(failures=%d, run=%d, ignored=%d)%s" % (fc, rc, ic, sfx), isf.site, got == want, witness={"folded": got, "oracle": want})
    from .shared import runner_fold
    rt = prog.fn("CommandLineTestRunner::runAllTests")
    run.analysed(rt)
    OUTCOMES = [(0, 0), (2, 1), (0, 1)]      # (failure count, isFailure): passed / failed checks / failed without a failure (nothing ran)
    try:
        for nrep in (1, 2, 3):
            for reps in itertools.product(OUTCOMES, repeat=nrep):
                r, events = runner_fold(prog, list(reps))
                total = sum(fc for fc, isf in reps)
                want_zero = all(x == (0, 0) for x in reps)
                runs = [e for e in events if e[0] in ("new-result", "runAllTests")]
                why = ""
                if runs != [("new-result",), ("runAllTests",)] * nrep:
                    why = "repetitions run as %s; expected one fresh TestResult and one registry run per repetition (counts of earlier repetitions leak into later summaries)" % [e[0] for e in runs]
                elif not isinstance(r, int) or (r == 0) != want_zero:
                    why = "exit value %s for repetitions %s: it must be zero exactly when every repetition passed" % (r, list(reps))
                elif total and r != total:
                    why = "exit value %s, the repetitions recorded %d failures" % (r, total)
                run.ob("R4", "runner folded over repetitions %s%s: fresh result per repetition, exit value zero iff all passed" % (list(reps), sfx), rt.site, not why, witness={"returns": r}, what=why)
    except Unknown as u:
        run.broke("C01.R4: the runner cannot be folded%s: %s" % (sfx, u))
    pe = prog.fn("TestOutput::printTestsEnded")
    run.analysed(pe)
    LABELS = [("getTestCount", " tests, ", 101), ("getRunCount", " ran, ", 102), ("getCheckCount", " checks, ", 103), ("getIgnoredCount", " ignored, ", 104), ("getFilteredOutCount", " filtered out, ", 105)]
    for isf, fc, col in itertools.product((0, 1), (0, 3), (0, 1)):
        if not isf and fc:
            continue
        out = []
        hooks = {"TestResult::isFailure": lambda *a_, isf=isf: isf, "TestResult::getFailureCount": lambda *a_, fc=fc: fc, "TestResult::getTotalExecutionTime": lambda *a_: 999,
                 "TestOutput::print": lambda *a_: (out.append(a_[-1][1] if isinstance(a_[-1], tuple) and a_[-1][0] == "str" else "<%s>" % (a_[-1],)), 0)[1]}
        for g, lab, v in LABELS:
            hooks["TestResult::" + g] = (lambda *a_, v=v: v)
        ev = Evaluator(prog, pe, env={"color_": col, "dotCount_": 5}, calls=hooks)
        try:
            ev.run_blocks(pe.entry, max_steps=600)
        except Unknown as u:
            run.broke("C01.R4: printTestsEnded cannot be folded: %s" % u)
            break
        txt = "".join(out)
        okk = ("OK (" in txt) == (not isf) and ("Errors (" in txt) == bool(isf)
        for g, lab, v in LABELS:
            if txt.count("<%d>%s" % (v, lab)) != 1:
                okk = False
        if isf and fc and "<%d> failures, " % fc not in txt:
            okk = False
        run.ob("R4", "summary folded [isFailure=%d failures=%d colour=%d]: reads OK iff !isFailure and prints every counter under its own label%s" % (isf, fc, col, sfx), pe.site, okk, witness=short(txt.replace("\033", "ESC"), 300))

    # ---------------- R5 ----------------------------------------------------
    ro = prog.fn("UtestShell::runOneTestInCurrentProcess")
    run.analysed(ro)

    def mt2(f, n):
        nm = prog.callee_name(f, n) or ""
        return n["k"] in CALL_KINDS and nm.split("::")[-1] in ("createTest", "run")
    KEY = ("runAllPreTestAction", "createTest", "run", "destroyTest", "runAllPostTestAction", "setCurrentTest", "setTestResult")
    for p in enumerate_paths(ro, may_throw=mt2 if have_try else None):
        seq = []
        for c in path_calls(prog, ro, p):
            nm = (prog.callee_name(ro, c) or "").split("::")[-1]
            if nm in KEY:
                seq.append(nm if nm not in ("setCurrentTest", "setTestResult") else "%s(%s)" % (nm, rx(ro, ro.args(c)[0]).replace("UtestShell::", "")))
        core = [s for s in seq if "(" not in s]
        if p.end == "return":
            ok = core == ["runAllPreTestAction", "createTest", "run", "destroyTest", "runAllPostTestAction"]
            cs_ = [s for s in seq if "(" in s]
            ctx_ok = sorted(cs_[:2]) == ["setCurrentTest(this)", "setTestResult(&%s)" % ro.params[1]["name"]] and sorted(cs_[2:]) == ["setCurrentTest(getCurrent())", "setTestResult(getTestResult())"]
            run.ob("R5", "normal path: pre < create < run < destroy < post, context saved and restored%s" % sfx, ro.site, ok and ctx_ok, witness=seq)
        elif p.end == "throw":
            ok = core[:2] == ["runAllPreTestAction", "createTest"] and core.count("destroyTest") == 1 and "runAllPostTestAction" not in core
            run.ob("R5", "exceptional path [%s]: the test object is destroyed before the exception continues%s" % (short(p.describe(ro), 60), sfx), ro.site, ok, witness=seq)
    # the restored values were read before the context was switched
    okc = True
    for p in enumerate_paths(ro):
        if p.end != "return":
            continue
        order = []
        for n in trace_nodes(ro, p):
            if n["k"] in CALL_KINDS:
                nm = (prog.callee_name(ro, n) or "").split("::")[-1]
                if nm in ("getCurrent", "getTestResult"):
                    order.append("read")
                if nm in ("setCurrentTest", "setTestResult"):
                    order.append("write")
        if order[:2] != ["read", "read"] or "read" in order[2:]:
            okc = False
    run.ob("R5", "the context that is restored was read before the context was switched%s" % sfx, ro.site, okc)
    plugin_chain_order(prog, run, "R5")

    # ---------------- R6 ----------------------------------------------------
    pf = prog.fn("TestOutput::printFailure")
    run.analysed(pf)

    def expand(f, depth=0):
        """per path: flat list of (callee, rendered args) with TestOutput helper calls inlined"""
        out = []
        for p in enumerate_paths(f, inline=None):
            seqs = [[]]
            for c in path_calls(prog, f, p):
                nm = prog.callee_name(f, c) or ""
                g = prog.functions.get(c.get("callee", {}).get("mn")) if c.get("callee") else None
                if nm.startswith("TestOutput::print") and nm.split("::")[-1] not in ("print", "printBuffer") and g is not None and depth < 4:
                    sub = expand(g, depth + 1)
                    # substitute arguments textually by parameter position
                    amap = {q["name"]: render(f, a) for q, a in zip(g.params, f.args(c))}
                    sub2 = []
                    for s in sub:
                        sub2.append([(n2, [amap.get(x.split(".")[0], x) if x.split(".")[0] in amap and "." not in x else (amap[x.split(".")[0]] + x[len(x.split(".")[0]):] if x.split(".")[0] in amap else x) for x in a2]) for n2, a2 in s])
                    seqs = [s + t for s in seqs for t in sub2]
                else:
                    seqs = [s + [(nm.split("::")[-1], [render(f, a) for a in f.args(c)])] for s in seqs]
            out.extend(seqs)
        return out
    fname = pf.params[0]["name"]
    for i, seq in enumerate(expand(pf)):
        printed = [a[0] for n, a in seq if n == "print" and a]
        fn_ = [x for x in printed if x.startswith("%s.getFileName()" % fname)]
        ln_ = [x for x in printed if x.startswith("%s.getFailureLineNumber()" % fname)]
        msg = [x for x in printed if x.startswith("%s.getMessage()" % fname)]
        ok = len(fn_) == 1 and len(ln_) == 1 and len(msg) == 1
        run.ob("R6", "printFailure path #%d prints file, line and message of the failure once each%s" % (i + 1, sfx), pf.site, ok, witness={"file": fn_, "line": ln_, "message": msg})
    testfailure_ctor_table(prog, run, "R6")
    for g, fld in (("getFileName", "fileName_"), ("getFailureLineNumber", "lineNumber_"), ("getMessage", "message_"), ("getTestName", "testName_")):
        gf = prog.fn("TestFailure::" + g)
        rets = [render(gf, gf.node(n.get("value"))) for n in gf.walk() if n["k"] == "ReturnStmt"]
        run.ob("R6", "TestFailure::%s returns %s%s" % (g, fld, sfx), gf.site, rets == [fld], witness=rets)


def check(ctx, run):
    _check(ctx, run)
    if ctx.thorough:
        run.configs.append("-fno-exceptions (longjmp-only variant of the phase sequencing)")
        _check(ctx, run, flags=("-fno-exceptions",), label="no-exceptions")

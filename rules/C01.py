"""C01 — a failing check always fails the run: phase sequencing, jump-buffer balance, fail => recorded once =>
phase ends, verdict and exit value, bracketing, location printing. DESIGN.md section 4, C01."""
import itertools
import re
from .common import *
from cpv.ceval import Evaluator, Unknown
from .shared import plugin_chain_order, testfailure_ctor_table

SETJMP, LONGJMP_SLOT, RESTORE = "PlatformSpecificSetJmp", "PlatformSpecificLongJmp", "PlatformSpecificRestoreJumpBuffer"
PHASES = {"helperDoTestSetup": "setup", "helperDoTestBody": "testBody", "helperDoTestTeardown": "teardown"}


def setjmp_phase(prog, f, c):
    if prog.callee_name(f, c) != SETJMP:
        return None
    a = f.args(c)
    return render(f, a[0]) if a else "?"


def _check(ctx, run, flags=(), label="default"):
    prog = ctx.program(flags=flags) if flags else ctx.program()
    sfx = "" if label == "default" else " [%s]" % label
    run.assume("setjmp/longjmp and C++ exception unwinding behave as specified; user fixture code may throw or longjmp at any statement (modelled as: every PlatformSpecificSetJmp call may return 0, return 1, or raise)")
    run.not_decided.append("run-time counts for concrete test programs; that fixture nesting stays below the 10 jump-buffer slots; (int) truncation of >= 2^31 failures")
    run.rule("R1", "phase sequencing in Utest::run: body only on the non-zero result of the setup SetJmp, teardown SetJmp on every path that returns, also after every caught exception; escape only by the explicit rethrow option; helpers call setup/testBody/teardown", floor=8)
    run.rule("R2", "jump-buffer depth is balanced: SetJmp +1-1 on return, LongJmp -1 then longjmp on the same slot expression, and every catch handler of a try containing a SetJmp calls RestoreJumpBuffer exactly once", floor=9)
    run.rule("R3", "fail => recorded once => phase ends: failWith = addFailure x1 then terminator; addFailure marks the test and counts/prints once; every exitCurrentTest override has no normal exit; handlers of the framework's own exception add no failure, all others exactly one", floor=16)
    run.rule("R4", "verdict and exit value: isFailure truth table, fresh TestResult per repetition, monotone accumulators, returned value zero iff no failure in any repetition, summary OK iff !isFailure with each counter printed under its label", floor=20)
    run.rule("R5", "context and plugin bracketing in runOneTestInCurrentProcess: pre actions < create < run < destroy < post actions on the normal path, destroy on the exceptional one, saved context restored; plugin chain order", floor=8)
    run.rule("R6", "location printing: every path of printFailure prints the failure's file and line and the message exactly once; TestFailure constructors fill the identity fields", floor=8)

    urun = prog.fn("Utest::run")
    run.analysed(urun)

    # ---------------- R1 ----------------------------------------------------
    # Utest::run folded against scripted outcomes of the three phase runners: 1 = the phase completed, 0 = it left by
    # longjmp (a failed check), F/S/U = it left by a CppUTestFailedException / a std::exception / any other exception
    from cpv.ceval import Thrown
    have_try = any(n["k"] == "CXXTryStmt" for n in urun.walk()) or any(n["k"] == "CXXTryStmt" for g in prog.functions.values() if g.file == urun.file and not g.cls and g.d.get("static") for n in g.walk())
    OUT = (1, 0, "F", "S", "U") if have_try else (1, 0)
    EXC = {"F": "CppUTestFailedException", "S": "std::exception", "U": "int"}

    def fold_run(script, rethrow):
        log = []

        def setjmp(fn, data):
            ph = {"helperDoTestSetup": "setup", "helperDoTestBody": "body", "helperDoTestTeardown": "teardown"}.get(fn[1].split("::")[-1] if isinstance(fn, tuple) else None)
            log.append(ph)
            o = script.get(ph, 1)
            if o in EXC:
                raise Thrown("phase %s throws" % ph, exc=EXC[o])
            return o
        ev = Evaluator(prog, urun, env={"this": 4000}, calls={SETJMP: setjmp, RESTORE: lambda *a_: (log.append("restore"), 0)[1], "UtestShell::getCurrent": lambda *a_: 7,
                                                               "UtestShell::isRethrowingExceptions": lambda *a_: rethrow, "UtestShell::addFailure": lambda *a_: (log.append("failure"), 0)[1]})
        end, _ = ev.run_blocks(urun.entry, max_steps=2000)
        return log, ("throw" if end == "throw" else "return")
    nsc = 0
    try:
        for so, bo, to, rethrow in itertools.product(OUT, OUT, OUT, (0, 1)):
            if so != 1 and bo != 1:
                continue        # the body is not reached: one script per setup outcome is enough
            nsc += 1
            log, end = fold_run({"setup": so, "body": bo, "teardown": to}, rethrow)
            phases = [x for x in log if x in ("setup", "body", "teardown")]
            escaped = [ph for ph, o in (("setup", so), ("body", bo if so == 1 else 1)) if o in ("S", "U")]
            why = []
            if rethrow and escaped:
                want, want_end = (["setup"] + (["body"] if so == 1 else [])), "throw"
            else:
                want = ["setup"] + (["body"] if so == 1 else []) + ["teardown"]
                want_end = "throw" if (rethrow and to in ("S", "U")) else "return"
            if phases != want:
                if "body" in phases and so != 1:
                    why.append("body entered although setup did not complete with a non-zero result")
                elif so == 1 and "body" not in phases:
                    why.append("setup completed but the body was not entered")
                elif phases.count("teardown") != (1 if "teardown" in want else 0):
                    why.append("teardown entered %d times" % phases.count("teardown"))
                else:
                    why.append("phases run: %s, expected %s" % (phases, want))
            if end != want_end:
                why.append("Utest::run ends with %s, expected %s%s" % (end, want_end, "" if want_end == "throw" else " (an exception escapes without the rethrow option being set)"))
            run.ob("R1", "phases folded [setup=%s body=%s teardown=%s rethrow=%d]%s" % (so, bo if so == 1 else "-", to, rethrow, sfx), urun.site, not why, witness={"phases": phases, "end": end}, what="; ".join(why))
            if have_try and not why:
                thrown = [o for ph, o in (("setup", so), ("body", bo if so == 1 else 1), ("teardown", to if "teardown" in phases else 1)) if o in EXC]
                w2 = []
                if log.count("restore") != len(thrown):
                    w2.append("%d exception(s) left a SetJmp'd phase, the jump buffer is restored %d times: an exception leaks one jump-buffer slot per occurrence (the 11th such test overruns the 10-slot table), or a slot too many is popped" % (len(thrown), log.count("restore")))
                if log.count("failure") != len([o for o in thrown if o in ("S", "U")]):
                    w2.append("%d unexpected exception(s), %d failure(s) recorded" % (len([o for o in thrown if o in ("S", "U")]), log.count("failure")))
                run.ob("R2", "handlers folded [setup=%s body=%s teardown=%s rethrow=%d]: one RestoreJumpBuffer per exception caught, one failure per unexpected exception%s" % (so, bo if so == 1 else "-", to, rethrow, sfx), urun.site, not w2,
                       witness={"log": log}, what="; ".join(w2))
    except Unknown as u:
        run.broke("C01.R1: Utest::run cannot be folded%s: %s" % (sfx, u))
    for h, meth in PHASES.items():
        f = prog.fn(h)
        run.analysed(f)
        cs = [(prog.callee_name(f, c) or "").split("::")[-1] for c in f.calls()]
        cs = [c for c in cs if c in PHASES.values()]
        run.ob("R1", "%s calls %s%s" % (h, meth, sfx), f.site, cs == [meth], witness=cs)
    # ---------------- R2 ----------------------------------------------------
    def r2():
        impl = {}
        for slot in (SETJMP, LONGJMP_SLOT, RESTORE):
            tg = sorted(prog.slots().get(slot, set()))
            if len(tg) != 1 or tg[0] not in prog.functions:
                raise AnalysisBroken("platform slot %s does not hold exactly one analysed function (%s)" % (slot, tg))
            impl[slot] = prog.functions[tg[0]]
            run.analysed(impl[slot])
        sj, lj, rs = impl[SETJMP], impl[LONGJMP_SLOT], impl[RESTORE]
        SJN = ("setjmp", "_setjmp", "__sigsetjmp", "sigsetjmp")
        LJN = ("longjmp", "_longjmp", "siglongjmp", "__longjmp_chk")
        gvars = sorted({n["name"] for g in (sj, lj, rs) for n in g.walk() if n["k"] == "DeclRefExpr" and n.get("global") and n.get("dk") == "Var" and n.get("ct") in ("int", "unsigned int", "unsigned long", "long")})
        if len(gvars) != 1:
            raise AnalysisBroken("jump-buffer depth counter not identified (%s)" % gvars)
        depth = gvars[0]
        saved = {}
        for d0 in (0, 3, 9):
            for first_return in (0, 1):       # setjmp returns 0 when called, non-zero when longjmp lands
                ev = Evaluator(prog, sj, env={depth: d0, sj.params[0]["name"]: 77, sj.params[1]["name"]: 88})
                during = []
                for nm in SJN:
                    ev.calls[nm] = lambda *a, fr=first_return: fr
                ev.calls[sj.params[0]["name"]] = lambda *a, ev=ev, during=during: (during.append(ev.env.get(depth)), 0)[1]
                try:
                    ev.run_blocks(sj.entry, max_steps=200)
                    keys = [k for nm, k in getattr(ev, "argkeys", []) if nm in SJN]
                    got = {"after": ev.env.get(depth), "ret": getattr(ev, "ret", None), "during": during, "slot": keys[0][0] if keys else None}
                except Unknown as u:
                    got = {"error": str(u)}
                if first_return == 0:
                    want_ok = got.get("after") == d0 and got.get("ret") == 1 and got.get("during") == [d0 + 1]
                    saved[d0] = got.get("slot")
                else:
                    want_ok = got.get("after") == d0 and got.get("ret") == 0 and got.get("during") == []
                run.ob("R2", "SetJmp implementation at depth %d, setjmp returns %s: body runs one level deeper and the depth is restored" % (d0, "0 (direct)" if first_return == 0 else "non-zero (after longjmp)") + sfx, sj.site, want_ok, witness=got)
            # LongJmp from depth d0+1 must land on the slot that SetJmp at depth d0 saved
            ev = Evaluator(prog, lj, env={depth: d0 + 1})
            landed = []
            for nm in LJN:
                ev.calls[nm] = lambda *a, landed=landed: (landed.append(1), 0)[1]
            try:
                ev.run_blocks(lj.entry, max_steps=100)
            except Unknown:
                pass
            keys = [k for nm, k in getattr(ev, "argkeys", []) if nm in LJN]
            got = {"after": ev.env.get(depth), "slot": keys[0][0] if keys else None, "setjmp_slot": saved.get(d0)}
            ok = got["after"] == d0 and got["slot"] is not None and got["slot"] == saved.get(d0)
            run.ob("R2", "LongJmp implementation from depth %d lands on the slot saved at depth %d and pops one level" % (d0 + 1, d0) + sfx, lj.site, ok, witness=got)
            ev = Evaluator(prog, rs, env={depth: d0 + 1})
            try:
                ev.run_blocks(rs.entry, max_steps=50)
            except Unknown:
                pass
            run.ob("R2", "RestoreJumpBuffer implementation pops exactly one level (from %d)" % (d0 + 1) + sfx, rs.site, ev.env.get(depth) == d0 and not [t for t in ev.trace if not str(t[0]).startswith(("enter ", "leave "))], witness={"after": ev.env.get(depth), "calls": [str(t[0]) for t in ev.trace if not str(t[0]).startswith(("enter ", "leave "))]})
        for p in enumerate_paths(lj, stop=lambda f, n: n["k"] == "CallExpr" and (prog.callee_name(f, n) or "") in LJN):
            run.ob("R2", "LongJmp implementation never returns" + sfx, lj.site, p.end in ("stop", "noreturn"), witness=p.end)
        # handlers
        nh = 0
        for f in prog.functions.values():
            if not f.file.startswith("src/"):
                continue
            for t in [n for n in f.walk() if n["k"] == "CXXTryStmt"]:
                body = f.node(t.get("body"))
                if not any(prog.callee_name(f, c) == SETJMP for c in f.calls(body)):
                    continue
                for hid in t.get("handlers", []):
                    h = f.nodes[hid]
                    nh += 1
                    # paths through the handler
                    hb = [b for b in f.blocks.values() if b.get("label") == hid]
                    if not hb:
                        run.ob("R2", "handler catch(%s)" % h.get("caught"), f.site, False, what="handler block not found in the CFG")
                        continue
                    sub = enumerate_paths(f, start_block=hb[0]["id"])
                    # only the part of the path inside the handler counts
                    inside = {x["id"] for x in f.walk(h)}
                    ok = True
                    wit = []
                    for p in sub:
                        seq = []
                        in_handler = False
                        for e in p.trace:
                            if isinstance(e, int):
                                in_handler = e in inside
                                n = f.nodes[e]
                            elif isinstance(e, dict) and "k" in e:
                                n = e       # spliced from a static helper called at the last own element
                            else:
                                continue
                            if not in_handler:
                                continue
                            if n["k"] == "CallExpr" and prog.callee_name(f, n) == RESTORE:
                                seq.append("restore")
                            if n["k"] == "CXXThrowExpr":
                                seq.append("throw")
                        wit.append(seq)
                        if seq.count("restore") != 1 or ("throw" in seq and seq.index("throw") < seq.index("restore")):
                            ok = False
                    ordinal = [x for x in t.get("handlers", [])].index(hid)
                    tries = [n["id"] for n in f.walk() if n["k"] == "CXXTryStmt"]
                    run.ob("R2", "try #%d handler catch(%s) restores the jump buffer exactly once%s" % (tries.index(t["id"]) + 1, h.get("caught"), sfx), f.site, ok, witness=wit,
                           what="" if ok else "an exception leaving a SetJmp'd phase leaks one jump-buffer slot per occurrence (the 11th such test overruns the 10-slot table)")
        # (the per-handler rule above covers handlers whose try block calls SetJmp directly; when the phase runners were
        # moved into helpers the folded scenarios of R1/R2 are what decides the handlers)
    guarded(run, r2)
    # which of the two behaviours Utest::run shows is the process-wide rethrow option: the runner sets it to exactly what the command
    # line says - also back to "off" when an earlier run in the same process had switched it on
    init = prog.fn("CommandLineTestRunner::initializeTestRun")
    run.analysed(init)
    for want, before in ((0, 1), (1, 0), (0, 0), (1, 1)):
        cell = {"v": before}
        hooks = {"UtestShell::setRethrowExceptions": lambda *a_: (cell.__setitem__("v", int(bool(a_[-1]))), 0)[1], "UtestShell::isRethrowingExceptions": lambda *a_: cell["v"],
                 "CommandLineArguments::getGroupFilters": lambda *a_: 81, "CommandLineArguments::getNameFilters": lambda *a_: 82}
        for g_ in prog.methods_of("CommandLineArguments"):
            if g_.ret in ("bool", "_Bool") and not g_.params and g_.kind == "method":
                hooks[g_.qn] = (lambda *a_, nm=g_.name: want if nm == "isRethrowingExceptions" else 0)
        for g_ in prog.functions.values():
            if g_.qn.startswith(("TestRegistry::set", "TestOutput::verbose", "TestOutput::color", "UtestShell::setCrashOnFail")):
                hooks.setdefault(g_.qn, lambda *a_: 0)
        ev = Evaluator(prog, init, env={"registry_": 11, "arguments_": 22, "output_": 33}, calls=hooks)
        ev.pass_object = True
        ev.optional_stubs = set(hooks)
        try:
            ev.run_blocks(init.entry, max_steps=600)
        except Unknown as u:
            raise AnalysisBroken("C01.R2: initializeTestRun cannot be folded%s: %s" % (sfx, u))
        run.ob("R2", "initializeTestRun folded [command line says rethrow=%d, option was %d]: the option is what the command line says%s" % (want, before, sfx), init.site, cell["v"] == want, witness={"option after": cell["v"]},
               what="" if cell["v"] == want else "the rethrow option is %d after the run was set up with rethrow=%d: an unexpected exception %s" % (cell["v"], want, "escapes the runner (no teardown, no summary)" if cell["v"] else "is swallowed although -e asked for it to propagate"))

    # ---------------- R3 ----------------------------------------------------
    # the recording chain folded against recording stubs: failWith = record, then leave through the terminator; each layer records
    # exactly once and hands on the very failure object it was given
    fw = [f for f in prog.fns("UtestShell::failWith") if len(f.params) == 2][0]
    fw1 = [f for f in prog.fns("UtestShell::failWith") if len(f.params) == 1][0]
    af = prog.fn("UtestShell::addFailure")
    ra = prog.fn("TestResult::addFailure")
    for f_ in (fw, fw1, af, ra):
        run.analysed(f_)
    FAILURE, TERM, RESULT = 300, 400, 200

    def chain_fold(f_, env, inline=()):
        seq = []
        hooks = {"UtestShell::addFailure": lambda *a_: (seq.append(("addFailure", a_[-1])), 0)[1], "TestTerminator::exitCurrentTest": lambda o=None, *a_: (seq.append(("exit", o)), 0)[1],
                 "UtestShell::getCurrentTestTerminator": lambda *a_: TERM, "UtestShell::getTestResult": lambda *a_: RESULT,
                 "TestResult::addFailure": lambda o=None, *a_: (seq.append(("result.addFailure", o, a_[-1] if a_ else None)), 0)[1],
                 "TestOutput::printFailure": lambda o=None, *a_: (seq.append(("printFailure", a_[-1] if a_ else None)), 0)[1]}
        hooks = {k_: v_ for k_, v_ in hooks.items() if k_ != f_.qn and k_ not in inline}
        ev = Evaluator(prog, f_, env=env, calls=hooks)
        ev.pass_object = True
        ev.heap_mode = True
        ev.inline = set(inline)
        ev.optional_stubs = set(hooks)
        try:
            ev.run_blocks(f_.entry, max_steps=400)
        except Unknown as u:
            raise AnalysisBroken("C01.R3: %s cannot be folded: %s" % (f_.qn, u))
        return seq, ev
    seq, _ = chain_fold(fw, dict(zip([q["name"] for q in fw.params], (FAILURE, TERM))))
    run.ob("R3", "failWith folded: the failure is recorded once, then the test is left through the given terminator%s" % sfx, fw.site, seq == [("addFailure", FAILURE), ("exit", TERM)], witness=[str(x) for x in seq])
    seq, _ = chain_fold(fw1, {fw1.params[0]["name"]: FAILURE}, inline={"UtestShell::failWith"})
    run.ob("R3", "failWith(failure) folded: records once and leaves through the current terminator%s" % sfx, fw1.site, seq == [("addFailure", FAILURE), ("exit", TERM)], witness=[str(x) for x in seq])
    seq, ev_ = chain_fold(af, {af.params[0]["name"]: FAILURE, "hasFailed_": 0})
    run.ob("R3", "UtestShell::addFailure folded: marks the test failed and hands the failure to the result once%s" % sfx, af.site, seq == [("result.addFailure", RESULT, FAILURE)] and ev_.env.get("hasFailed_") in (1, True),
           witness={"calls": [str(x) for x in seq], "hasFailed_": ev_.env.get("hasFailed_")})
    seq, ev_ = chain_fold(ra, {ra.params[0]["name"]: FAILURE, "failureCount_": 5})
    run.ob("R3", "TestResult::addFailure folded: counts once and prints once%s" % sfx, ra.site, seq == [("printFailure", FAILURE)] and ev_.env.get("failureCount_") == 6,
           witness={"calls": [str(x) for x in seq], "failureCount_": ev_.env.get("failureCount_")})
    # terminators
    r, m = None, None
    base = [x for x in prog.records.get("TestTerminator", {}).get("methods", []) if x["name"] == "exitCurrentTest"]
    if not base:
        raise AnalysisBroken("TestTerminator::exitCurrentTest not found")
    overs = sorted(prog.overriders(base[0]["mn"]))
    nterm = 0
    longjmp_targets = prog.slots().get(LONGJMP_SLOT, set())

    def term_stop(f, n):
        if n["k"] not in CALL_KINDS:
            return False
        nm = prog.callee_name(f, n) or ""
        if nm == LONGJMP_SLOT or nm.endswith("::exitCurrentTest"):
            return True
        return is_noreturn_call(prog, f, n)
    for mn in overs:
        f = prog.functions.get(mn)
        if f is None or not f.file.startswith(("src/", "include/")):
            continue
        nterm += 1
        run.analysed(f)
        ends = []
        for p in enumerate_paths(f, stop=term_stop):
            ends.append(p.end)
        ok = bool(ends) and all(e in ("stop", "throw", "noreturn") for e in ends)
        run.ob("R3", "%s has no normal exit%s" % (f.qn, sfx), f.site, ok, witness=ends, what="" if ok else "a path returns to the failing statement: code after a failed check would run")
    if nterm < 5:
        run.broke("only %d exitCurrentTest overrides found (6 confirmed by hand)" % nterm)
    for mn in sorted(longjmp_targets):
        g = prog.functions.get(mn)
        ok = g is not None and any((prog.callee_name(g, c) or "") in ("longjmp", "_longjmp", "siglongjmp") for c in g.calls())
        run.ob("R3", "the LongJmp slot holds a function that ends in longjmp%s" % sfx, g.site if g else mn, ok)
    # handlers in Utest::run
    for t in [n for n in urun.walk() if n["k"] == "CXXTryStmt"]:
        for hid in t.get("handlers", []):
            h = urun.nodes[hid]
            hb0 = [b for b in urun.blocks.values() if b.get("label") == hid]
            inside0 = {x["id"] for x in urun.walk(h)}
            counts = set()
            for p in (enumerate_paths(urun, start_block=hb0[0]["id"]) if hb0 else []):
                c_ = 0
                in_h = False
                for e in p.trace:
                    if isinstance(e, int):
                        in_h = e in inside0
                        n = urun.nodes[e]
                    elif isinstance(e, dict) and "k" in e:
                        n = e
                    else:
                        continue
                    if in_h and n["k"] == "CXXMemberCallExpr" and (prog.callee_name(urun, n) or "") == "UtestShell::addFailure":
                        c_ += 1
                counts.add(c_)
            adds = sorted(counts)
            own = "CppUTestFailedException" in (h.get("caught") or "")
            ok = adds == ([0] if own else [1])
            tries = [n["id"] for n in urun.walk() if n["k"] == "CXXTryStmt"]
            run.ob("R3", "Utest::run try #%d catch(%s) adds %s failure%s" % (tries.index(t["id"]) + 1, h.get("caught"), "no" if own else "exactly one", sfx), urun.site, ok, witness={"failures_added_per_path": adds},
                   what="" if ok else ("an already recorded failure would be recorded twice" if own else "an escaped exception would not be recorded exactly once"))
            if not own and adds == [1]:
                # the failure is recorded before the optional rethrow
                hb = [b for b in urun.blocks.values() if b.get("label") == hid]
                okb = True
                for p in enumerate_paths(urun, start_block=hb[0]["id"]):
                    seq = []
                    inside = {x["id"] for x in urun.walk(h)}
                    in_h = False
                    for e in p.trace:
                        if isinstance(e, int):
                            in_h = e in inside
                            n = urun.nodes[e]
                        elif isinstance(e, dict) and "k" in e:
                            n = e
                        else:
                            continue
                        if not in_h:
                            continue
                        if n["k"] == "CXXMemberCallExpr" and (prog.callee_name(urun, n) or "") == "UtestShell::addFailure":
                            seq.append("add")
                        if n["k"] == "CXXThrowExpr":
                            seq.append("throw")
                    if seq.count("add") != 1 or ("throw" in seq and seq.index("throw") < seq.index("add")):
                        okb = False
                run.ob("R3", "Utest::run try #%d catch(%s) records before rethrowing%s" % (tries.index(t["id"]) + 1, h.get("caught"), sfx), urun.site, okb)

    # ---------------- R4 ----------------------------------------------------
    # with -p a failure crosses a process boundary: the child's exit status must tell the parent about every failure the
    # result recorded (also those a plugin added without going through the shell), the parent turns it into one failure
    from .C11 import separate_process_rules
    separate_process_rules(prog, run, "R4", "R4")
    isf = prog.fn("TestResult::isFailure")
    run.analysed(isf)
    getters = {"getFailureCount": "failureCount_", "getRunCount": "runCount_", "getIgnoredCount": "ignoredCount_", "getTestCount": "testCount_",
               "getCheckCount": "checkCount_", "getFilteredOutCount": "filteredOutCount_"}
    for g, fld in getters.items():
        gf = prog.fn("TestResult::" + g)
        rets = getter_fold(prog, gf, fld)
        run.ob("R4", "TestResult::%s returns %s%s (folded)" % (g, fld, sfx), gf.site, rets == 424242, witness=rets)
    for meth, fld in (("countTest", "testCount_"), ("countRun", "runCount_"), ("countCheck", "checkCount_"), ("countFilteredOut", "filteredOutCount_"), ("countIgnored", "ignoredCount_")):
        cf = prog.fn("TestResult::" + meth)
        counters = {f_: 40 + i_ for i_, f_ in enumerate(("testCount_", "runCount_", "checkCount_", "filteredOutCount_", "ignoredCount_", "failureCount_"))}
        ev = Evaluator(prog, cf, env=dict(counters))
        try:
            ev.run_blocks(cf.entry, max_steps=100)
            after = {k_: ev.env.get(k_) for k_ in counters}
        except Unknown as u:
            after = {"unknown": str(u)}
        want_c = dict(counters)
        want_c[fld] += 1
        run.ob("R4", "TestResult::%s folded: increments %s by one and nothing else%s" % (meth, fld, sfx), cf.site, after == want_c, witness={k_: v_ for k_, v_ in after.items() if counters.get(k_) != v_})
    # the counts the summary prints are recorded where the work is done: every assert entry point counts its check exactly once and
    # first, on every operand case (shared with C03.R1); the registry counts every test once, run or filtered out, whatever the filters
    # select (shared with C02.R1)
    from .C03 import assert_rules
    from .C02 import registry_rules
    assert_rules(prog, run, "R4")
    registry_rules(prog, run, "R4", "accounting")
    for fc, rc, ic in itertools.product((0, 1, 7), (0, 1, 7), (0, 1, 7)):
        ev = Evaluator(prog, isf, env={"failureCount_": fc, "runCount_": rc, "ignoredCount_": ic})
        ev.inline = {"TestResult::getFailureCount", "TestResult::getRunCount", "TestResult::getIgnoredCount"}
        try:
            ev.run_blocks(isf.entry, max_steps=200)
            got = getattr(ev, "ret", None)
            got = int(bool(got)) if isinstance(got, (int, bool)) else got
        except Unknown as u:
            got = "unknown: %s" % u
        want = 1 if (fc > 0 or rc + ic == 0) else 0
        run.ob("R4", "isFailure(failures=%d, run=%d, ignored=%d)%s" % (fc, rc, ic, sfx), isf.site, got == want, witness={"folded": got, "oracle": want})
    from .shared import runner_fold
    rt = prog.fn("CommandLineTestRunner::runAllTests")
    run.analysed(rt)
    OUTCOMES = [(0, 0), (2, 1), (0, 1)]      # (failure count, isFailure): passed / failed checks / failed without a failure (nothing ran)
    try:
        for nrep in (1, 2, 3):
            for reps in itertools.product(OUTCOMES, repeat=nrep):
                r, events = runner_fold(prog, list(reps))
                total = sum(fc for fc, isf in reps)
                want_zero = all(x == (0, 0) for x in reps)
                runs = [e for e in events if e[0] in ("new-result", "runAllTests")]
                why = ""
                if runs != [("new-result",), ("runAllTests",)] * nrep:
                    why = "repetitions run as %s; expected one fresh TestResult and one registry run per repetition (counts of earlier repetitions leak into later summaries)" % [e[0] for e in runs]
                elif not isinstance(r, int) or (r == 0) != want_zero:
                    why = "exit value %s for repetitions %s: it must be zero exactly when every repetition passed" % (r, list(reps))
                elif total and r != total:
                    why = "exit value %s, the repetitions recorded %d failures" % (r, total)
                run.ob("R4", "runner folded over repetitions %s%s: fresh result per repetition, exit value zero iff all passed" % (list(reps), sfx), rt.site, not why, witness={"returns": r}, what=why)
    except Unknown as u:
        run.broke("C01.R4: the runner cannot be folded%s: %s" % (sfx, u))
    pe = prog.fn("TestOutput::printTestsEnded")
    run.analysed(pe)
    LABELS = [("getTestCount", " tests, ", 101), ("getRunCount", " ran, ", 102), ("getCheckCount", " checks, ", 103), ("getIgnoredCount", " ignored, ", 104), ("getFilteredOutCount", " filtered out, ", 105)]
    for isf, fc, col in itertools.product((0, 1), (0, 3), (0, 1)):
        if not isf and fc:
            continue
        out = []
        hooks = {"TestResult::isFailure": lambda *a_, isf=isf: isf, "TestResult::getFailureCount": lambda *a_, fc=fc: fc, "TestResult::getTotalExecutionTime": lambda *a_: 999,
                 "TestOutput::print": lambda *a_: (out.append(a_[-1][1] if isinstance(a_[-1], tuple) and a_[-1][0] == "str" else "<%s>" % (a_[-1],)), 0)[1]}
        for g, lab, v in LABELS:
            hooks["TestResult::" + g] = (lambda *a_, v=v: v)
        ev = Evaluator(prog, pe, env={"color_": col, "dotCount_": 5}, calls=hooks)
        try:
            ev.run_blocks(pe.entry, max_steps=600)
        except Unknown as u:
            run.broke("C01.R4: printTestsEnded cannot be folded: %s" % u)
            break
        txt = "".join(out)
        okk = ("OK (" in txt) == (not isf) and ("Errors (" in txt) == bool(isf)
        for g, lab, v in LABELS:
            if txt.count("<%d>%s" % (v, lab)) != 1:
                okk = False
        if isf and fc and "<%d> failures, " % fc not in txt:
            okk = False
        run.ob("R4", "summary folded [isFailure=%d failures=%d colour=%d]: reads OK iff !isFailure and prints every counter under its own label%s" % (isf, fc, col, sfx), pe.site, okk, witness=short(txt.replace("\033", "ESC"), 300))

    # ---------------- R5 ----------------------------------------------------
    bracketing_rule(prog, run, "R5", sfx)
    plugin_chain_order(prog, run, "R5")

    # ---------------- R6 ----------------------------------------------------
    pf = prog.fn("TestOutput::printFailure")
    run.analysed(pf)
    # printFailure folded with its helpers inlined against recording print stubs, over (outside the test file, in a helper function)
    # x the two location formats: the emitted text names the failure's own file directly followed by its own line once, the message
    # once, and - when the failure is not in the test's own file or function - the test's file and line as well
    ENV = [e_["v"] for en in prog.enums.values() for e_ in en["enumerators"] if e_["name"] == "visualStudio"]
    if not ENV:
        raise AnalysisBroken("C01.R6: enumerator visualStudio not found")
    for outside, helper, vs in itertools.product((0, 1), (0, 1), (0, 1)):
        out = []

        def pr(ev_, *a_):
            v = a_[-1]
            if isinstance(v, tuple) and v[0] == "str":
                out.append(v[1])
            elif isinstance(v, tuple) and v[0] == "ptr":
                out.append(ev_.cstring(v))
            elif isinstance(v, int):
                out.append(str(v))
            else:
                raise Unknown("print of %r" % (v,))
            return 0
        pr.wants_ev = True
        hooks = string_hooks({"TestFailure::getFileName": lambda *a_: ("str", "FAILFILE.cpp"), "TestFailure::getFailureLineNumber": lambda *a_: 4711, "TestFailure::getMessage": lambda *a_: ("str", "THE-MESSAGE"),
                              "TestFailure::getTestName": lambda *a_: ("str", "THE-TEST"), "TestFailure::getTestNameOnly": lambda *a_: ("str", "THE-TEST"), "TestFailure::getTestFileName": lambda *a_: ("str", "TESTFILE.cpp"),
                              "TestFailure::getTestLineNumber": lambda *a_: 1234, "TestFailure::isOutsideTestFile": lambda *a_: outside, "TestFailure::isInHelperFunction": lambda *a_: helper,
                              "TestOutput::getWorkingEnvironment": lambda *a_: ENV[0] if vs else ENV[0] + 1000, "TestOutput::print": pr, "TestOutput::printBuffer": pr})
        ev = Evaluator(prog, pf, env={pf.params[0]["name"]: 100}, calls=hooks)
        ev.pass_object = True
        ev.inline = {g.qn for g in prog.functions.values() if (g.qn.startswith("TestOutput::") or (g.cls is None and g.file == pf.file)) and g.qn not in hooks}
        ev.optional_stubs = set(hooks)
        try:
            ev.run_blocks(pf.entry, max_steps=5000)
        except Unknown as u:
            raise AnalysisBroken("C01.R6: printFailure cannot be folded%s: %s" % (sfx, u))
        text = "".join(out)
        why = []
        if len(re.findall(r"FAILFILE\.cpp\W{1,3}4711(?!\d)", text)) != 1 or text.count("FAILFILE.cpp") != 1 or text.count("4711") != 1:
            why.append("the failure's file and line are not printed once, the line directly after the file")
        if text.count("THE-MESSAGE") != 1:
            why.append("the message is printed %d times" % text.count("THE-MESSAGE"))
        if text.count("THE-TEST") != 1:
            why.append("the test's name is printed %d times" % text.count("THE-TEST"))
        if (outside or helper) and len(re.findall(r"TESTFILE\.cpp\W{1,3}1234(?!\d)", text)) != 1:
            why.append("a failure outside the test's own file / function does not also name the test's file and line")
        run.ob("R6", "printFailure folded [outside test file=%d, in helper=%d, %s format]: file+line of the failure, the test's name and the message once each%s" % (outside, helper, "Visual Studio" if vs else "Eclipse", sfx), pf.site, not why,
               witness=text, what="; ".join(why))
    testfailure_ctor_table(prog, run, "R6")
    for g, fld in (("getFileName", "fileName_"), ("getFailureLineNumber", "lineNumber_"), ("getMessage", "message_"), ("getTestName", "testName_")):
        gf = prog.fn("TestFailure::" + g)
        tok = 424242 if fld == "lineNumber_" else ("str", "token-424242")
        rets = getter_fold(prog, gf, fld, token=tok)
        run.ob("R6", "TestFailure::%s returns %s%s (folded)" % (g, fld, sfx), gf.site, rets == tok, witness=rets)


def bracketing_rule(prog, run, rid, sfx=""):
    """runOneTestInCurrentProcess folded (shared with C07.R3 and C17.R3): plugin pre actions < create < run < destroy < post actions, each
    with this test and its result; the context cells are switched for the run and put back; on an exception the object is destroyed."""
    ro = prog.fn("UtestShell::runOneTestInCurrentProcess")
    run.analysed(ro)
    # (a configuration without exceptions has no handlers anywhere in the file: nothing can be thrown through the function)
    have_try = any(n["k"] == "CXXTryStmt" for g in prog.functions.values() if g.file == ro.file for n in g.walk())

    # folded against a model of the two context cells (current test, current result) and recording stubs for the steps: whatever
    # helpers or temporaries the function uses, the order of the steps and the context each of them sees is what is judged
    from cpv.ceval import Thrown
    THIS, PLUGIN, RESULT_, OLD = 100, 70, 200, (7, 8)
    for script in (("ok", "ok"),) + ((("throws", "-"), ("ok", "throws")) if have_try else ()):
        cur, log = {"test": OLD[0], "result": OLD[1]}, []

        def step(name, outcome="ok"):
            def h(*a_):
                log.append((name, tuple(x for x in a_ if isinstance(x, int)), (cur["test"], cur["result"])))
                if outcome == "throws":
                    raise Thrown(name + " throws", exc="int")
                return 900 if name == "create" else 0
            return h
        hooks = string_hooks({"UtestShell::getCurrent": lambda *a_: cur["test"], "UtestShell::getTestResult": lambda *a_: cur["result"],
                              "UtestShell::setCurrentTest": lambda *a_: (cur.__setitem__("test", a_[-1]), 0)[1], "UtestShell::setTestResult": lambda *a_: (cur.__setitem__("result", a_[-1]), 0)[1],
                              "TestPlugin::runAllPreTestAction": step("pre"), "TestPlugin::runAllPostTestAction": step("post"), "UtestShell::createTest": step("create", script[0]),
                              "Utest::run": step("run", script[1]), "UtestShell::destroyTest": step("destroy"), "TestResult::printVeryVerbose": lambda *a_: 0})
        ev = Evaluator(prog, ro, env={"this": THIS, ro.params[0]["name"]: PLUGIN, ro.params[1]["name"]: RESULT_}, calls=hooks)
        ev.pass_object = True
        ev.heap_mode = True
        try:
            end, _ = ev.run_blocks(ro.entry, max_steps=3000)
        except Unknown as u:
            raise AnalysisBroken("C01.R5: runOneTestInCurrentProcess cannot be folded%s: %s" % (sfx, u))
        names = [x[0] for x in log]
        why = []
        if script == ("ok", "ok"):
            if names != ["pre", "create", "run", "destroy", "post"]:
                why.append("steps %s, expected pre < create < run < destroy < post" % names)
            else:
                d_ = {x[0]: x for x in log}
                if d_["run"][1][:1] != (900,) or d_["destroy"][1][-1:] != (900,):
                    why.append("the test object created is not the one that is run and destroyed (%s, %s)" % (d_["run"][1], d_["destroy"][1]))
                if d_["create"][2] != (THIS, RESULT_) or d_["run"][2] != (THIS, RESULT_):
                    why.append("the test is created / run with (current test, result) = %s / %s, expected this test and its result" % (d_["create"][2], d_["run"][2]))
                if any(d_[k_][1][-2:] != (THIS, RESULT_) for k_ in ("pre", "post")):
                    why.append("the plugin actions are not given this test and its result (%s, %s)" % (d_["pre"][1], d_["post"][1]))
                if d_["pre"][1][:1] != (PLUGIN,) or d_["post"][1][:1] != (PLUGIN,):
                    why.append("the actions are not run on the plugin chain that was passed in")
                if (cur["test"], cur["result"]) != OLD:
                    why.append("the context (current test, result) is %s afterwards, it was %s before" % ((cur["test"], cur["result"]), OLD))
            if end == "throw":
                why.append("ends by throwing")
            run.ob(rid, "normal path folded: pre < create < run < destroy < post, the test runs with itself and its result as the context, the context is put back%s" % sfx, ro.site, not why, witness=[str(x) for x in log], what="; ".join(why))
        else:
            what_ = "createTest" if script[0] == "throws" else "the test's run"
            if names.count("destroy") != 1 or "post" in names or end != "throw" or (script[1] == "throws" and [x[1][-1:] for x in log if x[0] == "destroy"] != [(900,)]):
                why.append("steps %s, end %s: expected one destroyTest (of the created object), no post action, and the exception to continue" % (names, end))
            run.ob(rid, "exceptional path folded [%s throws]: the test object is destroyed before the exception continues%s" % (what_, sfx), ro.site, not why, witness=[str(x) for x in log], what="; ".join(why))


def check(ctx, run):
    _check(ctx, run)
    if ctx.thorough:
        run.configs.append("-fno-exceptions (longjmp-only variant of the phase sequencing)")
        _check(ctx, run, flags=("-fno-exceptions",), label="no-exceptions")

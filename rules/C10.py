"""C10 — Thread-safe allocation mode (SIBLING / WHO / ORDER / REACH). See DESIGN.md section 4, C10."""
from .common import *
from cpv.graph import reach
from cpv.ceval import Evaluator, Unknown
import re

PLUGIN = "src/CppUTest/MemoryLeakWarningPlugin.cpp"
SWITCHES = {
    "threadsafe": "MemoryLeakWarningPlugin::turnOnThreadSafeNewDeleteOverloads",
    "default": "MemoryLeakWarningPlugin::turnOnDefaultNotThreadSafeNewDeleteOverloads",
    "off": "MemoryLeakWarningPlugin::turnOffNewDeleteOverloads",
}
SAVE = "MemoryLeakWarningPlugin::saveAndDisableNewDeleteOverloads"
RESTORE = "MemoryLeakWarningPlugin::restoreNewDeleteOverloads"
LONGJMP = ("longjmp", "_longjmp", "siglongjmp", "__longjmp_chk", "__builtin_longjmp")


def slot_vars(prog):
    out = []
    for qn, gs in prog.globals.items():
        for g in gs:
            if g["file"] == PLUGIN and "(*)" in g.get("ct", "") and g.get("def"):
                out.append(qn)
                break
    return sorted(out)


def ctor_reaches(prog, mn, target_qn, depth=4, seen=None):
    """does constructor/function mn (transitively, through constructor calls and direct calls) call target_qn"""
    seen = seen or set()
    if mn in seen or depth < 0:
        return False
    seen.add(mn)
    f = prog.functions.get(mn)
    if f is None:
        return False
    for c in f.calls():
        for tmn, tqn, how in prog.call_targets(f, c):
            if tqn == target_qn:
                return True
            if ctor_reaches(prog, tmn, target_qn, depth - 1, seen):
                return True
    return False


def dtor_reaches(prog, cls, target_qn, depth=4):
    """does destroying an object of class cls call target_qn (user dtor body, then member destructors)"""
    if depth < 0:
        return False
    rec = prog.records.get(cls)
    dt = [f for f in prog.methods_of(cls) if f.kind == "dtor"]
    for f in dt:
        if ctor_reaches(prog, f.mn, target_qn):
            return True
    if rec:
        for fld in rec.get("fields", []):
            t = fld.get("ct", "")
            if t in prog.records and dtor_reaches(prog, t, target_qn, depth - 1):
                return True
    return False


def lock_decl_index(prog, f):
    """index among top-level statements of the declaration of an RAII lock object, plus its type"""
    for i, s in enumerate(top_stmts(f)):
        if s["k"] != "DeclStmt":
            continue
        for d in s.get("decls", []):
            t = d.get("ct", "")
            init = d.get("init")
            if t in prog.records and init is not None:
                ce = f.strip(init)
                if ce is not None and ce.get("ctor") and ctor_reaches(prog, ce["ctor"]["mn"], "SimpleMutex::Lock") \
                        and dtor_reaches(prog, t, "SimpleMutex::Unlock"):
                    return i, t, d
    return None, None, None


def lock_types(prog):
    """record types whose construction reaches SimpleMutex::Lock and whose destruction reaches SimpleMutex::Unlock"""
    out = set()
    for cls in prog.records:
        cts = [f for f in prog.methods_of(cls) if f.kind == "ctor"]
        if cts and any(ctor_reaches(prog, c.mn, "SimpleMutex::Lock") for c in cts) and dtor_reaches(prog, cls, "SimpleMutex::Unlock"):
            out.add(cls)
    return out


DETECTOR, MUTEX_OF_DETECTOR = 555, 777


def null_variants(f):
    """the partitions of a slot function's pointer parameters: all given, and each pointer parameter NULL in turn
    (realloc(NULL, n), free(NULL), delete NULL take their own paths)"""
    ptrs = [q["name"] for q in f.params if q["ct"].rstrip().endswith("*") and "char" not in q["ct"]]
    # (and a size of zero with everything else given: realloc(p, 0), malloc(0), new char[0] may take their own paths as well)
    sizes = [q["name"] for q in f.params if q["ct"].replace("const ", "").strip() in ("size_t", "unsigned long", "unsigned int", "unsigned long long")][:1]
    return [()] + [(p_,) for p_ in ptrs] + [(z_,) for z_ in sizes]


def slot_fold(prog, f, alloc_answer=70000, nulls=(), detector=None, statics=None):
    """Fold a function stored in an allocation slot against recording stubs of the detector and of SimpleMutex, with
    local objects modelled: constructors and (also on unwinding) destructors of the lock types are run, whichever
    classes and helpers the locking is spread over. Returns the chronological list of events:
    ("acquired", mutex, frame) | ("released", mutex) | ("getter", name, locked) | ("detector", method, args, locked),
    where `locked` says whether the global detector's mutex is held at that moment."""
    from cpv.ceval import Evaluator, Unknown
    GETTERS = {"getCurrentNewAllocator": 101, "getCurrentNewArrayAllocator": 102, "getCurrentMallocAllocator": 103}
    hooks = {"MemoryLeakWarningPlugin::getGlobalDetector": lambda *a_: DETECTOR if detector is None else detector,
             "MemoryLeakDetector::getMutex": lambda o, *a_: (o + 222) if isinstance(o, int) else None,
             "SimpleMutex::Lock": lambda *a_: 0, "SimpleMutex::Unlock": lambda *a_: 0}
    for g, v in GETTERS.items():
        hooks[g] = (lambda *a_, v=v: v)
    for m in ("allocMemory", "deallocMemory", "reallocMemory", "invalidateMemory"):
        hooks["MemoryLeakDetector::" + m] = (lambda *a_, m=m: alloc_answer if m in ("allocMemory", "reallocMemory") else 0)
    env = {}
    for i_, q in enumerate(f.params):
        env[q["name"]] = 0 if q["name"] in nulls else 7000 + i_
    ev = Evaluator(prog, f, env=env, calls=hooks)
    ev.pass_object = True
    ev.objects = True
    if not hasattr(prog, "_c10_inline"):
        lt_ = lock_types(prog) | {"ScopedMutexLock"}
        prog._c10_inline = {g.qn for g in prog.functions.values() if g.file in (PLUGIN, "src/CppUTest/SimpleMutex.cpp") or g.cls in lt_}
    ev.inline = prog._c10_inline - set(hooks)
    if statics is not None:
        ev.statics = statics            # function-local statics carried from an earlier fold (the same process, a later call)
    e_, _ = ev.run_blocks(f.entry, max_steps=1500)
    end = "throw" if e_ == "throw" else "return"
    events, frames, held = [], ["<self>"], {}
    for nm, args, node in ev.trace:
        if nm.startswith("enter "):
            frames.append(nm[6:])
        elif nm.startswith("leave "):
            fr = frames.pop() if len(frames) > 1 else None
            events.append(("leave", fr))
        elif nm == "SimpleMutex::Lock":
            mx = args[0] if args else None
            held[mx] = held.get(mx, 0) + 1
            events.append(("acquired", mx, frames[-1]))
        elif nm == "SimpleMutex::Unlock":
            mx = args[0] if args else None
            held[mx] = held.get(mx, 0) - 1
            events.append(("released", mx))
        elif nm in GETTERS:
            events.append(("getter", nm, held.get(MUTEX_OF_DETECTOR, 0) > 0))
        elif nm.startswith("MemoryLeakDetector::") and nm.split("::")[-1] in ("allocMemory", "deallocMemory", "reallocMemory", "invalidateMemory"):
            events.append(("detector", nm.split("::")[-1], tuple(args[1:]) if args else (), held.get(MUTEX_OF_DETECTOR, 0) > 0))
    return events, getattr(ev, "ret", None), end, env


def slot_targets(prog, slot):
    """the functions the overload switches store in `slot`, read off folds of the switch functions (helpers that do the assignments,
    taking the functions as parameters, are folded with them)"""
    out = []
    for qn in SWITCHES.values():
        f = prog.fn(qn)
        ev = Evaluator(prog, f, env={s_: ("fn", "marker_" + s_) for s_ in slot_vars(prog)})
        ev.inline = set(SWITCHES.values()) - {f.qn}
        try:
            ev.run_blocks(f.entry, max_steps=2000)
        except Unknown:
            continue
        v = ev.env.get(slot)
        if isinstance(v, tuple) and v[0] == "fn":
            out += [g for g in prog.functions.values() if g.qn == v[1]]
    return sorted(set(out), key=lambda g: g.qn)


def slot_switch_rules(prog, run, rid):
    """WHO/SIBLING over the switch functions (shared by C10.R1 and C04.R8). Returns (slots, saved slots, stored map)."""
    slots = [s for s in slot_vars(prog) if not s.startswith("saved_")]
    saved = [s for s in slot_vars(prog) if s.startswith("saved_")]
    if len(slots) < 11:
        raise AnalysisBroken("found only %d function-pointer slots in %s" % (len(slots), PLUGIN))
    # ---------------- R1 --------------------------------------------------
    # every switch function folded on a model of the slots (each holding a marker): afterwards every slot holds a function of the
    # program - whatever helpers do the assignments, and in whatever order
    def by_qn(qn):
        fs_ = [g for g in prog.functions.values() if g.qn == qn]
        return fs_[0].mn if len(fs_) == 1 else None

    def fold_switch(f, env):
        ev = Evaluator(prog, f, env=dict(env))
        ev.inline = {q_ for q_ in SWITCHES.values()} - {f.qn}
        try:
            ev.run_blocks(f.entry, max_steps=2000)
        except Unknown as u:
            raise AnalysisBroken("%s.%s: %s cannot be folded on the slot model: %s" % (run.pid, rid, f.qn, u))
        return ev.env
    # (the other file-level variables of the unit - flags, counters a switch may keep - start from their initialisers)
    def const_of(n):
        while isinstance(n, dict):
            if n.get("cv") is not None:
                return int(n["cv"])
            if n.get("k") in ("IntegerLiteral", "CXXBoolLiteralExpr"):
                return int(n["v"]) if not isinstance(n.get("v"), bool) else int(n["v"])
            if n.get("k") in ("CXXNullPtrLiteralExpr", "GNUNullExpr"):
                return 0
            n = n["c"][0] if n.get("c") else None
        return None
    ginit = {}
    for qn_, gs_ in prog.globals.items():
        for g_ in gs_:
            if g_.get("file") == PLUGIN and g_.get("def") and qn_ not in slots + saved and "(*)" not in g_.get("ct", ""):
                try:
                    v_ = const_of(g_.get("init")) if g_.get("init") is not None else 0
                except (ValueError, TypeError):
                    v_ = None
                if v_ is not None and not g_.get("ct", "").rstrip().endswith("*") and g_.get("ct", "").replace("const ", "").replace("static ", "").strip() in ("bool", "int", "unsigned int", "long", "unsigned long", "size_t", "char", "unsigned char", "short"):
                    ginit[qn_] = v_
    stored = {}
    for kind, qn in SWITCHES.items():
        f = prog.fn(qn)
        run.analysed(f)
        env = dict(ginit)
        env.update({s_: ("fn", "marker_" + s_) for s_ in slots + saved})
        after = fold_switch(f, env)
        stored[kind] = {}
        for s in slots:
            v = after.get(s)
            tgt = by_qn(v[1]) if isinstance(v, tuple) and v[0] == "fn" else None
            ok = tgt is not None
            stored[kind][s] = tgt
            run.ob(rid, "%s assigns %s (folded)" % (kind, s), f.site, ok, witness=(prog.functions[tgt].qn if tgt in prog.functions else str(v)),
                   what="" if ok else "after %s the slot holds %s, not a function of the program" % (kind, v))
        touched = [s_ for s_ in saved if after.get(s_) != env[s_]]
        if touched:
            run.ob(rid, "%s leaves the saved slots alone" % kind, f.site, False, witness=touched)
    # histories of switches (whatever file-level state the switches keep is carried from fold to fold): the last switch decides
    import itertools as _it
    kinds_ = list(SWITCHES)
    for last in kinds_:
        bad = None
        for h_ in _it.product(kinds_, repeat=2):
            env = dict(ginit)
            env.update({s_: ("fn", "marker_" + s_) for s_ in slots + saved})
            for k_ in h_ + (last,):
                env = fold_switch(prog.fn(SWITCHES[k_]), env)
            wrong = [s_ for s_ in slots if not (isinstance(env.get(s_), tuple) and env[s_][0] == "fn" and by_qn(env[s_][1]) == stored[last].get(s_))]
            if wrong and bad is None:
                bad = "after the switches %s then %s, %d slots (%s ...) do not hold what %s stores on its own" % (list(h_), last, len(wrong), wrong[0], last)
        run.ob(rid, "%s decides every slot after any history of two earlier switches (folded, file-level state carried along)" % last, prog.fn(SWITCHES[last]).site, bad is None,
               witness=bad or "%d histories" % (len(kinds_) ** 2), what=bad or "")
    fs, fr = prog.fn(SAVE), prog.fn(RESTORE)
    run.analysed(fs)
    run.analysed(fr)
    # save / restore folded on the same model plus the nesting counter: the outermost save copies every slot into a saved slot of its
    # own and switches the overloads off; the matching restore copies every one back; nested pairs only count
    env0 = {s_: ("fn", "cur_" + s_) for s_ in slots}
    env0.update({s_: ("fn", "stale_" + s_) for s_ in saved})
    a1 = fold_switch(fs, dict(env0, save_counter=0))
    pairing = {}
    for s in slots:
        holders = [v_ for v_ in saved if a1.get(v_) == env0[s]]
        ok = len(holders) == 1
        pairing[s] = holders[0] if ok else None
        run.ob(rid, "save stores %s (folded)" % s, fs.site, ok, witness=holders, what="" if ok else "after the outermost save the value of %s is held by %s saved slots" % (s, len(holders)))
    off_ok = all(isinstance(a1.get(s), tuple) and by_qn(a1[s][1]) == stored["off"].get(s) for s in slots) and a1.get("save_counter") == 1
    run.ob(rid, "save switches the overloads off after saving and counts the nesting", fs.site, off_ok, witness={"counter": a1.get("save_counter")},
           what="" if off_ok else "after the outermost save the slots hold %s" % {s: str(a1.get(s)) for s in slots if not (isinstance(a1.get(s), tuple) and by_qn(a1[s][1]) == stored["off"].get(s))})
    a2 = fold_switch(fs, dict(a1))
    nested_ok = all(a2.get(k_) == a1.get(k_) for k_ in slots + saved) and a2.get("save_counter") == 2
    run.ob(rid, "a nested save only counts", fs.site, nested_ok, witness={"counter": a2.get("save_counter")})
    a3 = fold_switch(fr, dict(a2))
    nested_ok = all(a3.get(k_) == a2.get(k_) for k_ in slots + saved) and a3.get("save_counter") == 1
    run.ob(rid, "a nested restore only counts", fr.site, nested_ok, witness={"counter": a3.get("save_counter")})
    a4 = fold_switch(fr, dict(a3))
    for s in slots:
        ok = a4.get(s) == env0[s]
        run.ob(rid, "restore assigns %s (folded)" % s, fr.site, ok and a4.get("save_counter") == 0, witness=str(a4.get(s)),
               what="" if ok else "after the outermost restore %s holds %s, before the save it held %s" % (s, a4.get(s), env0[s]))

    return slots, saved, stored


def overload_routing_rule(prog, run, rid):
    """Every global operator new / delete overload folded against recording stubs of the function-pointer slots and of the detector: it
    does its work through exactly one call of the slot of its own family and variant (so that whatever a switch stores there - the
    thread-safe functions included - covers it), hands on its own arguments in order, answers what the slot answers, and never touches
    the detector itself. Shared by C04.R8 (accounting family) and C10.R2 (the lock covers every entry)."""
    FAM = {"operator new": "operator_new", "operator new[]": "operator_new_array", "operator delete": "operator_delete", "operator delete[]": "operator_delete_array"}
    svars = [v for v in slot_vars(prog) if not v.startswith("saved_")]
    nops = 0
    for f in sorted((g for g in prog.functions.values() if g.file == PLUGIN and g.name in FAM), key=lambda g: g.line):
        nops += 1
        run.analysed(f)
        pts = [q["ct"] for q in f.params]
        is_del = "delete" in f.name
        if is_del:
            want = FAM[f.name] + "_fptr"
        else:
            want = FAM[f.name] + ("_nothrow_fptr" if any("nothrow_t" in t for t in pts) else ("_debug_fptr" if len(pts) == 3 else "_fptr"))
        seq, direct = [], []
        hooks = {}
        for sv in svars:
            hooks[sv] = (lambda sv: lambda *a_: (seq.append((sv, tuple(a_))), 5150)[1])(sv)
        for g in prog.functions.values():
            if g.qn.startswith(("MemoryLeakDetector::", "TestMemoryAllocator::")) or g.qn in ("MemoryLeakWarningPlugin::getGlobalDetector",):
                hooks[g.qn] = (lambda qn: lambda *a_: (direct.append(qn), 0)[1])(g.qn)
        vals = [40 + i_ for i_ in range(len(f.params))]
        ev = Evaluator(prog, f, env=dict(zip([q["name"] for q in f.params], vals)), calls=hooks)
        ev.optional_stubs = set(hooks)
        try:
            ev.run_blocks(f.entry, max_steps=600)
            r = getattr(ev, "ret", None)
        except Unknown as u:
            raise AnalysisBroken("%s.%s: %s(%s) cannot be folded: %s" % (run.pid, rid, f.name, ", ".join(pts), u))
        why = ""
        if [s_ for s_, a_ in seq] != [want]:
            why = "goes through %s, the slot of its family and variant is %s" % ([s_ for s_, a_ in seq] or "no slot", want)
        elif direct:
            why = "also calls %s itself: that work is outside whatever the slot holds (no lock in thread-safe mode, no effect when switched off)" % sorted(set(direct))[:3]
        else:
            args = seq[0][1]
            n_fwd = 1 if (is_del or len(pts) != 3) else 3
            if tuple(args[:n_fwd]) != tuple(vals[:n_fwd]) or len(args) != n_fwd:
                why = "hands %s to the slot, its own arguments are %s" % (args, tuple(vals[:n_fwd]))
            elif not is_del and r != 5150:
                why = "answers %s, the slot answered 5150" % (r,)
        run.ob(rid, "%s(%s) folded: one call of %s with its own arguments, nothing else" % (f.name, ", ".join(pts), want), f.site, not why, witness=[str(x) for x in seq] + sorted(set(direct))[:3],
               what="" if not why else "a global %s overload %s" % (f.name, why))
    if nops < 16:
        raise AnalysisBroken("%s.%s: only %d global operator new/delete overloads found (18 confirmed by hand)" % (run.pid, rid, nops))


def check(ctx, run):
    prog = ctx.program()
    run.assume("POSIX pthread_mutex_lock/unlock provide mutual exclusion (trusted base)")
    run.assume("virtual calls resolved by class-hierarchy analysis over the analysed library units; function-pointer slots by every function ever stored into them")
    run.not_decided.append("schedule-independence of the final accounting for all interleavings (follows from mutual exclusion plus sequential exactness, which is not decided statically: see C04)")
    run.not_decided.append("data races inside user-supplied allocators")

    run.rule("R1", "WHO/SIBLING: every switch function (thread-safe, default, off, save, restore) assigns each of the function-pointer slots exactly once on every active path", floor=55)
    run.rule("R2", "SIBLING: the function the thread-safe switch stores in a slot, folded with local objects modelled (constructors, destructors, unwinding), does exactly the detector work of the slot's default function, all of it while the global detector's mutex is held", floor=11)
    run.rule("R3", "ORDER/TABLE: per slot and allocator answer the fold locks exactly getGlobalDetector()->getMutex() once and has unlocked it once when it returns or throws; ScopedMutexLock folded: ctor locks / dtor unlocks the stored mutex; SimpleMutex forwards to the platform slots, which reach pthread_mutex_*; mutex_ is a new SimpleMutex", floor=12)
    run.rule("R4", "REACH: per allocation slot, no call path from the function that holds the RAII lock for its thread-safe variant reaches longjmp (throw is allowed: unwinding releases)", floor=11)

    slots = [s for s in slot_vars(prog) if not s.startswith("saved_")]
    saved = [s for s in slot_vars(prog) if s.startswith("saved_")]
    if len(slots) < 11:
        raise AnalysisBroken("found only %d function-pointer slots in %s" % (len(slots), PLUGIN))

    slots, saved, stored = slot_switch_rules(prog, run, "R1")

    # the mode in force survives the lazy creation of the global detector (which saves, switches off and restores)
    gd = prog.fn("MemoryLeakWarningPlugin::getGlobalDetector")
    run.analysed(gd)
    for mode in ("threadsafe", "default", "off"):
        for depth in (0, 1):
            env = {"globalDetector": 0, "globalReporter": 0, "save_counter": depth}
            before = {}
            for s_ in slots:
                mn_ = stored[mode if depth == 0 else "off"].get(s_)
                before[s_] = ("fn", prog.functions[mn_].qn) if mn_ in prog.functions else ("fn", str(mn_))
            env.update(before)
            outer = {}
            for s_ in saved:
                mn_ = stored[mode].get(s_[len("saved_"):])
                outer[s_] = (("fn", prog.functions[mn_].qn) if mn_ in prog.functions else ("fn", str(mn_))) if depth else ("fn", "stale_" + s_)
            env.update(outer)
            ev = Evaluator(prog, gd, env=env)
            try:
                ev.run_blocks(gd.entry, max_steps=2000)
                r = getattr(ev, "ret", None)
            except Unknown as u:
                raise AnalysisBroken("C10.R1: getGlobalDetector cannot be folded: %s" % u)
            news = [a_[0] for nm_, a_, nd_ in ev.trace if nm_.startswith("new MemoryLeakDetector") and a_]
            after = {s_: ev.env.get(s_) for s_ in slots}
            why = ""
            if len(news) != 1 or r != news[0] or ev.env.get("globalDetector") != news[0]:
                why = "the detector is created %d times / the created one is not what is stored and returned (%s)" % (len(news), r)
            elif after != before:
                ch = sorted(k_ for k_ in slots if after[k_] != before[k_])
                why = "the slots %s hold %s afterwards: the %s mode in force is lost when the detector is first created" % (ch[:3], [after[k_][1] if isinstance(after[k_], tuple) else after[k_] for k_ in ch[:3]], mode)
            elif depth and {s_: ev.env.get(s_) for s_ in saved} != outer:
                why = "the overloads saved by the enclosing save are overwritten"
            elif ev.env.get("save_counter") != depth:
                why = "save/restore are not balanced (counter %s -> %s)" % (depth, ev.env.get("save_counter"))
            run.ob("R1", "getGlobalDetector folded on first use in %s mode%s: creates the detector once and leaves every slot as it was" % (mode, " inside an enclosing save/disable" if depth else ""), gd.site, not why,
                   witness=why or {"slots": len(slots), "created": news}, what=why)

    # ---------------- R2 --------------------------------------------------
    locked_fns = []
    LT = lock_types(prog)
    run.ob("R2", "RAII lock types found (constructor reaches SimpleMutex::Lock, destructor reaches Unlock)", PLUGIN, bool(LT), witness=sorted(LT))
    for s in slots:
        t, d = stored["threadsafe"].get(s), stored["default"].get(s)
        ft, fd = prog.functions.get(t), prog.functions.get(d)
        if ft is None or fd is None:
            run.ob("R2", "slot %s" % s, PLUGIN, False, what="thread-safe or default function of the slot unresolved")
            continue
        run.analysed(ft)
        run.analysed(fd)
        why, et, ed = "", [], []
        work = lambda ev_: [(e[0],) + tuple(e[1:-1]) for e in ev_ if e[0] in ("getter", "detector")]
        for nulls in null_variants(ft):
            try:
                nd_ = tuple(fd.params[[q["name"] for q in ft.params].index(p_)]["name"] for p_ in nulls) if len(fd.params) == len(ft.params) else ()
                et, rt_, endt, envt = slot_fold(prog, ft, nulls=nulls)
                ed, rd_, endd, envd = slot_fold(prog, fd, nulls=nd_)
                et0, _, endt0, _ = slot_fold(prog, ft, alloc_answer=0, nulls=nulls)
                ed0, _, endd0, _ = slot_fold(prog, fd, alloc_answer=0, nulls=nd_)
            except Unknown as u:
                run.broke("C10.R2: the functions of slot %s cannot be folded: %s" % (s, u))
                why = None
                break
            locks = [e for e in et if e[0] == "acquired" and e[1] == MUTEX_OF_DETECTOR]
            unlocked = [e for e in et if e[0] in ("getter", "detector") and not e[-1]]
            tag = (" (with %s == 0)" % nulls[0]) if nulls else ""
            if not locks and work(et):
                why = "the global detector's mutex is never locked in the function stored by the thread-safe switch" + tag
            elif unlocked:
                why = "call(s) before the lock is taken or after it was released%s: %s" % (tag, [e[1] for e in unlocked])
            elif len(locks) > 1:
                why = "the lock is taken %d times%s" % (len(locks), tag)
            elif work(et) != work(ed) or (endt, rt_) != (endd, rd_) or work(et0) != work(ed0) or endt0 != endd0:
                why = "body differs from the unlocked sibling %s%s" % (fd.qn, tag)
            if locks and ft not in locked_fns:
                locked_fns.append(ft)
            if why:
                break
        if why is None:
            continue
        run.ob("R2", "slot %s" % s, ft.site, not why, witness={"threadsafe": [list(map(str, e)) for e in et], "default": [list(map(str, e)) for e in ed]}, what=why)

    # any other function using the RAII type is also 'locked'
    # every global entry goes through its slot: what the thread-safe switch stores there covers it
    overload_routing_rule(prog, run, "R2")

    # ---------------- R3 --------------------------------------------------
    # the functions that hold the lock: wherever an RAII lock object is declared at top level (the slot functions themselves, or helpers they delegate to)
    locked_fns = [f for f in prog.functions.values() if f.file.startswith("src/") and lock_decl_index(prog, f)[0] is not None]
    ltypes = set()
    for ft in locked_fns:
        idx, ltype, decl = lock_decl_index(prog, ft)
        if ltype:
            ltypes.add(ltype)
    # which mutex is taken and that it is released exactly once on every exit, per slot: decided on the fold
    for s_ in slots:
        ft = prog.functions.get(stored["threadsafe"].get(s_))
        if ft is None:
            continue
        for answer, nulls in [(70000, ()), (0, ())] + [(70000, nv) for nv in null_variants(ft)[1:]]:
            try:
                et, rt_, endt, envt = slot_fold(prog, ft, alloc_answer=answer, nulls=nulls)
            except Unknown as u:
                run.broke("C10.R3: the thread-safe function of slot %s cannot be folded: %s" % (s_, u))
                continue
            lk = [e[1] for e in et if e[0] == "acquired"]
            ul = [e[1] for e in et if e[0] == "released"]
            why = ""
            if nulls and not [e for e in et if e[0] in ("getter", "detector")] and not lk and not ul:
                pass        # (a NULL argument handled without touching the detector needs no lock)
            elif lk != [MUTEX_OF_DETECTOR]:
                why = "locks %s; expected exactly the mutex of MemoryLeakWarningPlugin::getGlobalDetector() once" % (lk,)
            elif ul != [MUTEX_OF_DETECTOR]:
                why = "leaves by %s with the mutex unlocked %d times (unlocks %s)" % (endt, len(ul), ul)
            elif [e[0] for e in et if e[0] in ("acquired", "released")] != ["acquired", "released"]:
                why = "unlock precedes lock"
            run.ob("R3", "slot %s (detector answers %s%s): locks the global detector's mutex once and releases it once by the time it %ss" % (s_, "a block" if answer else "NULL", (", %s == 0" % nulls[0]) if nulls else "", endt), ft.site, not why,
                   witness=[list(map(str, e)) for e in et if e[0] in ("acquired", "released")], what=why)
        # the global detector can be replaced between two operations (setGlobalDetector, destroy + lazy re-creation): the second
        # operation, folded with whatever function-local statics the first one left, locks the mutex of the detector that is current THEN
        try:
            st_ = {}
            slot_fold(prog, ft, statics=st_)
            e2, _, end2, _ = slot_fold(prog, ft, detector=DETECTOR + 1000, statics=st_)
            lk2 = [e[1] for e in e2 if e[0] == "acquired"]
            ok2 = lk2 == [MUTEX_OF_DETECTOR + 1000]
            run.ob("R3", "slot %s folded a second time after the global detector was replaced: locks the new detector's mutex" % s_, ft.site, ok2, witness={"locks": lk2, "statics kept": [k_[1] for k_ in st_]},
                   what="" if ok2 else "locks %s while working on the detector whose mutex is %d: a mutex looked up once is kept across a change of the global detector" % (lk2, MUTEX_OF_DETECTOR + 1000))
        except Unknown as u:
            run.broke("C10.R3: the thread-safe function of slot %s cannot be folded twice: %s" % (s_, u))
    gm = prog.fn("MemoryLeakDetector::getMutex")
    run.analysed(gm)
    rets = getter_fold(prog, gm, "mutex_")
    run.ob("R3", "getMutex returns the detector's mutex_ member (folded)", gm.site, rets == 424242, witness=rets)

    def single_call(f, qn, recv=None, arg=None):
        paths = enumerate_paths(f)
        good = True
        w = []
        for p in paths:
            cs = [c for c in path_calls(prog, f, p) if call_name(prog, f, c) == qn]
            w.append([render(f, c) for c in cs])
            if len(cs) != 1:
                good = False
                continue
            c = cs[0]
            if recv is not None:
                o = f.node(c.get("obj"))
                if o is None or render(f, o) != recv:
                    good = False
            if arg is not None:
                a = f.args(c)
                if len(a) != 1 or render(f, a[0], keep_explicit_casts=False) != arg:
                    good = False
        return good and bool(paths), w

    c = prog.fn("ScopedMutexLock::ScopedMutexLock")
    d = prog.fn("ScopedMutexLock::~ScopedMutexLock")
    run.analysed(c)
    run.analysed(d)
    seen = []
    hk = {"SimpleMutex::Lock": lambda o, *a_: (seen.append(("Lock", o)), 0)[1], "SimpleMutex::Unlock": lambda o, *a_: (seen.append(("Unlock", o)), 0)[1]}
    try:
        e1 = Evaluator(prog, c, env={c.params[0]["name"]: 777}, calls=hk)
        e1.pass_object = True
        e1.objects = True
        e1.run_blocks(c.entry, max_steps=200)
        fields = {fl["name"] for fl in prog.records.get("ScopedMutexLock", {}).get("fields", [])}
        after_ctor = list(seen)
        e2 = Evaluator(prog, d, env={k_: v for k_, v in e1.env.items() if k_ in fields}, calls=hk)
        e2.pass_object = True
        e2.objects = True
        e2.run_blocks(d.entry, max_steps=200)
    except Unknown as u:
        raise AnalysisBroken("C10.R3: ScopedMutexLock cannot be folded: %s" % u)
    run.ob("R3", "ScopedMutexLock ctor calls mutex->Lock() exactly once on every path", c.site, after_ctor == [("Lock", 777)], witness=[list(x) for x in after_ctor])
    run.ob("R3", "ScopedMutexLock dtor calls mutex->Unlock() exactly once on every path", d.site, seen[len(after_ctor):] == [("Unlock", 777)], witness=[list(x) for x in seen],
           what="" if seen[len(after_ctor):] == [("Unlock", 777)] else "the destructor does not unlock the mutex the constructor locked")
    for meth, slot in (("SimpleMutex::Lock", "PlatformSpecificMutexLock"), ("SimpleMutex::Unlock", "PlatformSpecificMutexUnlock"),
                       ("SimpleMutex::~SimpleMutex", "PlatformSpecificMutexDestroy")):
        f = prog.fn(meth)
        run.analysed(f)
        ok, w = single_call(f, slot, arg="psMtx")
        run.ob("R3", "%s forwards psMtx to %s exactly once" % (meth, slot), f.site, ok, witness=w)
    f = prog.fn("SimpleMutex::SimpleMutex")
    run.analysed(f)
    a = [(l, render(f, r)) for (l, r, n) in assignments(f)] + [(i.get("field"), render(f, i["expr"])) for i in f.d.get("inits", []) if i.get("written")]
    run.ob("R3", "SimpleMutex ctor creates the platform mutex", f.site, [v for k, v in a if k == "psMtx"] == ["PlatformSpecificMutexCreate()"], witness=a)
    for slot, pfn in (("PlatformSpecificMutexLock", "pthread_mutex_lock"), ("PlatformSpecificMutexUnlock", "pthread_mutex_unlock"),
                      ("PlatformSpecificMutexCreate", "pthread_mutex_init"), ("PlatformSpecificMutexDestroy", "pthread_mutex_destroy")):
        tg = prog.slots().get(slot, set())
        if not tg:
            run.ob("R3", "slot %s holds a function" % slot, "src/Platforms/Gcc/UtestPlatform.cpp", False, what="no function is stored in the slot")
            continue
        for mn in sorted(tg):
            g = prog.functions.get(mn)
            if g is None:
                run.ob("R3", "slot %s -> %s" % (slot, mn), "?", False, what="stored function has no definition in the analysed units")
                continue
            run.analysed(g)
            ok, w = single_call(g, pfn)
            if ok and slot != "PlatformSpecificMutexCreate":
                # argument derives from the function's parameter
                pn = g.params[0]["name"] if g.params else None
                for x in calls_to(prog, g, pfn):
                    ar = g.args(x)
                    if not ar or pn is None or not derives_from(g, ar[0], {pn}):
                        ok = False
            run.ob("R3", "slot %s -> %s calls %s exactly once on its parameter" % (slot, g.qn, pfn), g.site, ok, witness=w,
                   what="" if ok else "the platform function in the slot does not call %s exactly once on every path" % pfn)
    # the detector owns a real mutex
    from cpv.graph import field_writers
    ws = field_writers(prog, "MemoryLeakDetector::mutex_")
    good = sorted({f.qn for f, n in ws})
    dc = [f for f in prog.methods_of("MemoryLeakDetector") if f.kind == "ctor"]
    made = None
    for f in dc:
        run.analysed(f)
        e1 = Evaluator(prog, f, env={q["name"]: 7000 + i_ for i_, q in enumerate(f.params)}, calls={"SimpleMutex::SimpleMutex": lambda *a_: 0})
        e1.objects = True
        try:
            e1.run_blocks(f.entry, max_steps=400)
        except Unknown:
            pass
        news = {a_[0]: nm for nm, a_, nd in e1.trace if nm.startswith("new ") and a_}
        made = news.get(e1.env.get("mutex_"))
    ok = len(ws) >= 1 and all(f.kind == "ctor" for f, n in ws) and made is not None and "SimpleMutex" in made
    run.ob("R3", "mutex_ is written only by the detector's constructor with a new SimpleMutex", "include/CppUTest/MemoryLeakDetector.h:MemoryLeakDetector::mutex_", ok, witness={"writers": good, "constructor leaves mutex_ =": made})

    # ---------------- R4 --------------------------------------------------
    def sink(f, c):
        nm = prog.callee_name(f, c)
        if nm in LONGJMP:
            return nm
        return None

    def cut(f, c, tgt):
        # user-pluggable allocator implementations are outside the property (see not_decided)
        cal = c.get("callee")
        if cal and cal.get("dispatch") == "virtual" and cal.get("cls") in ("TestMemoryAllocator",) :
            return True
        return False

    def lock_holders(f, depth=2, seen=None):
        """the function itself and the same-file free helpers it delegates to that declare an RAII lock at top level"""
        seen = seen if seen is not None else set()
        out = []
        if f.mn in seen:
            return out
        seen.add(f.mn)
        if lock_decl_index(prog, f)[0] is not None:
            out.append(f)
        if depth > 0:
            for c in f.calls():
                cc = c.get("callee")
                h = prog.functions.get(cc["mn"]) if cc and cc.get("dispatch") == "direct" else None
                if h is not None and h.file == f.file and not h.cls and h.kind == "function":
                    out += lock_holders(h, depth - 1, seen)
        return out
    for s_ in slots:
        ft = prog.functions.get(stored["threadsafe"].get(s_))
        if ft is None:
            continue
        holders = lock_holders(ft)
        run.analysed(ft)
        site = "%s:slot %s" % (PLUGIN, s_)
        worst = None
        for f in holders:
            run.analysed(f)
            res = reach(prog, [f.mn], sink, cut=cut)
            if res:
                lab, path = min(res, key=lambda r: len(r[1]))
                if worst is None or len(path) < len(worst[1]):
                    worst = (lab, path, len(res))
        if not holders:
            run.ob("R4", "no longjmp reachable while the lock is held", site, False, what="no function holding the lock found for the thread-safe function of the slot")
        elif worst is None:
            run.ob("R4", "no longjmp reachable while the lock is held", site, True, witness="call graph closed under CHA + slots: no path to longjmp from %s" % [f.qn for f in holders])
        else:
            lab, path, cnt = worst
            run.ob("R4", "no longjmp reachable while the lock is held", site, False,
                   witness=[" -> ".join("%s{%s}" % (a, b) for a, b, c in path)],
                   what="%s reachable with the detector lock held (%d call paths; shortest shown)" % (lab, cnt))

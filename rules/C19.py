"""C19 — the C mocking interface forwards to the C++ one: slot wiring (TABLE), forwarder typing (SIBLING),
tagged-union conversion (TABLE), adaptors. DESIGN.md section 4, C19."""
import itertools
import re
from .common import *
from cpv.ceval import Evaluator, Unknown

UNIT = "src/CppUTestExt/MockSupport_c.cpp"
TABLES = {"gMockSupport": "MockSupport_c", "gExpectedCall": "MockExpectedCall_c", "gActualCall": "MockActualCall_c"}
TOK = {"Bool": "bool", "Int": "int", "UnsignedInt": "unsigned int", "LongInt": "long", "UnsignedLongInt": "unsigned long",
       "LongLongInt": "long long", "UnsignedLongLongInt": "unsigned long long", "Double": "double", "String": "const char *",
       "Pointer": "void *", "ConstPointer": "const void *", "FunctionPointer": "void (*)()"}
CTYPE = dict(TOK, Bool="int")
UNION = [  # tag literal, enumerator, union member, getter
    ("bool", "MOCKVALUETYPE_BOOL", "boolValue", "getBoolValue"),
    ("int", "MOCKVALUETYPE_INTEGER", "intValue", "getIntValue"),
    ("unsigned int", "MOCKVALUETYPE_UNSIGNED_INTEGER", "unsignedIntValue", "getUnsignedIntValue"),
    ("long int", "MOCKVALUETYPE_LONG_INTEGER", "longIntValue", "getLongIntValue"),
    ("unsigned long int", "MOCKVALUETYPE_UNSIGNED_LONG_INTEGER", "unsignedLongIntValue", "getUnsignedLongIntValue"),
    ("long long int", "MOCKVALUETYPE_LONG_LONG_INTEGER", "longLongIntValue", "getLongLongIntValue"),
    ("unsigned long long int", "MOCKVALUETYPE_UNSIGNED_LONG_LONG_INTEGER", "unsignedLongLongIntValue", "getUnsignedLongLongIntValue"),
    ("double", "MOCKVALUETYPE_DOUBLE", "doubleValue", "getDoubleValue"),
    ("const char*", "MOCKVALUETYPE_STRING", "stringValue", "getStringValue"),
    ("void*", "MOCKVALUETYPE_POINTER", "pointerValue", "getPointerValue"),
    ("const void*", "MOCKVALUETYPE_CONST_POINTER", "constPointerValue", "getConstPointerValue"),
    ("void (*)()", "MOCKVALUETYPE_FUNCTIONPOINTER", "functionPointerValue", "getFunctionPointerValue"),
    ("const unsigned char*", "MOCKVALUETYPE_MEMORYBUFFER", "memoryBufferValue", "getMemoryBuffer"),
    (None, "MOCKVALUETYPE_OBJECT", "objectValue", "getObjectPointer"),
]


def table_rows(prog, g):
    for x in prog.globals.get(g, []):
        n = x.get("init")
        if not n:
            continue
        while n is not None and n["k"] != "InitListExpr":
            n = n["c"][0] if n.get("c") else None
        if n is None:
            continue
        rows = []
        for fld, i in zip(n["fields"], n["c"]):
            r = i
            while r is not None and r["k"] != "DeclRefExpr":
                r = r["c"][0] if r.get("c") else None
            rows.append((fld, r["name"] if r else None, r.get("mn") if r else None))
        return rows, len(n["fields"]), len(n["c"])
    raise AnalysisBroken("table %s has no initialiser in %s" % (g, UNIT))


def norm(s):
    return s[:-1] if s.endswith("s") else s


def check(ctx, run):
    prog = ctx.program()
    run.assume("the C++ interface itself is the reference: what a forwarder passes through unchanged behaves as in C++ (C08/C09 cover the C++ side)")
    run.not_decided.append("equality of the full failure text for all scenarios (run-time text); decided: the C reporter builds no text of its own and forwards the same MockFailure object")
    run.rule("R1", "TABLE: the function stored in field F of gMockSupport/gExpectedCall/gActualCall is the forwarder named for F", floor=125)
    run.rule("R2", "SIBLING: each forwarder calls exactly one C++ method of its family on the current object, passes exactly its own parameters in order, and overload resolution picked the parameter type named in the function", floor=140)
    run.rule("R3", "TABLE: tag literal <-> MOCKVALUETYPE_* <-> union member written <-> getter called, for every branch of the C value conversion", floor=14)
    run.rule("R4", "adaptors: comparator/copier forward their arguments in order; the C failure reporter has the same hasFailed guard as the C++ one and ends in the longjmp terminator; mock_c installs it", floor=7)

    allfns = {}
    # ---------------- R1 ----------------------------------------------------
    for g in sorted(TABLES):
        rows, nf, ni = table_rows(prog, g)
        run.ob("R1", "%s initialises every field" % g, UNIT + ":" + g, nf == ni, witness={"fields": nf, "initialisers": ni})
        for fld, fn, mn in rows:
            cands = {fld + "_c", norm(fld) + "_c", norm(fld) + "s_c"}
            if g == "gActualCall" and fld.startswith("with"):
                a = "withActual" + fld[4:]
                cands = {a + "_c", norm(a) + "_c", norm(a) + "s_c"}
            ok = fn in cands
            run.ob("R1", "%s.%s" % (g, fld), UNIT + ":" + g, ok, witness={"stored": fn, "expected": sorted(cands)[0]},
                   what="" if ok else "slot %s holds %s" % (fld, fn))
            if mn:
                allfns[fn] = mn

    # ---------------- R2 ----------------------------------------------------
    GLOBALS = {"actualCall": 9000, "expectedCall": 9050, "currentMockSupport": 8000}
    CPP = ("MockExpectedCall::", "MockActualCall::", "MockSupport::")
    cpp_methods = set()
    for g_ in prog.functions.values():
        if g_.file == UNIT:
            for c in g_.calls():
                nm = prog.callee_name(g_, c) or ""
                if nm.startswith(CPP):
                    cpp_methods.add(nm)

    def forwarder_shape(f, family_recv, method, want_types=None, assign_back=None, ret=None, bool_conv_at=None):
        """the forwarder folded on distinctive argument values with recording stubs for the C++ interface: exactly one
        call to `method` on the object `family_recv` points to, with exactly the forwarder's own argument values in order
        (helpers and named temporaries are transparent); the overload chosen at that call site has the named parameter type"""
        why = []
        env = dict(GLOBALS)
        env.update({"gActualCall": 777001, "gExpectedCall": 777002, "gMockSupport": 777003, "comparatorList_": 0, "copierList_": 0})
        pvals = []
        for i, q in enumerate(f.params):
            v = ("str", "p%d" % i) if q["ct"].replace("const ", "").strip() == "char *" else 101 + i
            env[q["name"]] = v
            pvals.append(v)
        seen = []
        hooks = {nm: (lambda *a_, nm=nm: (seen.append((nm, a_[0] if a_ else None, tuple(a_[1:]))), 9100)[1]) for nm in cpp_methods}
        ev = Evaluator(prog, f, env=env, calls=string_hooks(hooks))
        ev.pass_object = True
        try:
            ev.run_blocks(f.entry, max_steps=600)
        except Unknown as u:
            pass        # (the value handed back may be unmodelled: what matters here is the forwarding call made)
        mname = method.split("::")[-1]
        classes = method.split("::")[0].split("|")
        mine = [x for x in seen if x[0].split("::")[-1] == mname and x[0].split("::")[0] in classes]
        if len(mine) != 1:
            why.append("%d calls to %s (calls made: %s)" % (len(mine), method, [x[0] for x in seen]))
            return why
        nm, recv, args = mine[0]
        if recv != GLOBALS.get(family_recv):
            why.append("receiver is %s, expected the object %s points to" % (recv, family_recv))
        norm_ = lambda v: v[1] if isinstance(v, tuple) and v[0] == "str" else v
        got, want = [norm_(x) for x in args], [norm_(x) for x in pvals]
        bool_ok = len(got) == len(want) and all(g == w or (g in (0, 1) and isinstance(w, int) and g == (1 if w else 0)) for g, w in zip(got, want))
        if not bool_ok:
            why.append("passes (%s), its own parameters are (%s)" % (", ".join(map(str, got)), ", ".join(q["name"] + "=" + str(norm_(v)) for q, v in zip(f.params, pvals))))
        if want_types is not None:
            sites = [(g_, c) for g_ in prog.functions.values() if g_.file == UNIT and (g_ is f or (not g_.cls and g_.d.get("static"))) for c in g_.calls() if (prog.callee_name(g_, c) or "") == nm]
            sites = [(g_, c) for g_, c in sites if g_ is f] or sites
            pt = callee_param_types(prog, sites[0][1]) if sites else None
            if pt is None:
                why.append("callee parameter types unknown")
            else:
                for idx, wt in want_types.items():
                    if idx >= len(pt) or pt[idx].replace("const ", "", 1) != wt and pt[idx] != wt:
                        why.append("overload resolution picked parameter type %s, the function is named for %s" % (pt[idx] if idx < len(pt) else None, wt))
        return why

    checked = 0
    for name in sorted(allfns):
        f = prog.functions.get(allfns[name])
        if f is None:
            run.ob("R2", name, UNIT, False, what="forwarder stored in a table has no definition")
            continue
        run.analysed(f)
        base = name[:-2]
        m = re.match(r"^with(Actual)?(\w+?)Parameters?(AndTolerance)?$", base)
        why = None
        if m and m.group(2) in TOK:
            recv = "actualCall" if m.group(1) else "expectedCall"
            cls = "MockActualCall" if m.group(1) else "MockExpectedCall"
            why = forwarder_shape(f, recv, cls + "::withParameter", {1: TOK[m.group(2)]})
            ct = f.params[1]["ct"] if len(f.params) > 1 else None
            if ct != CTYPE[m.group(2)]:
                why.append("C parameter type is %s, expected %s" % (ct, CTYPE[m.group(2)]))
        elif m and m.group(2) == "MemoryBuffer":
            recv = "actualCall" if m.group(1) else "expectedCall"
            cls = "MockActualCall" if m.group(1) else "MockExpectedCall"
            why = forwarder_shape(f, recv, cls + "::withParameter", {1: "const unsigned char *", 2: "unsigned long"})
        elif re.match(r"^with(Actual)?ParameterOfType$", base):
            a = "Actual" in base
            why = forwarder_shape(f, "actualCall" if a else "expectedCall", ("MockActualCall" if a else "MockExpectedCall") + "::withParameterOfType")
        elif base in ("withOutputParameterReturning", "withOutputParameterOfTypeReturning", "withUnmodifiedOutputParameter", "ignoreOtherParameters"):
            why = forwarder_shape(f, "expectedCall", "MockExpectedCall::" + base)
        elif base in ("withActualOutputParameter", "withActualOutputParameterOfType"):
            why = forwarder_shape(f, "actualCall", "MockActualCall::" + base.replace("Actual", ""))
        elif re.match(r"^andReturn(\w+)Value$", base) and re.match(r"^andReturn(\w+)Value$", base).group(1) in TOK:
            t = re.match(r"^andReturn(\w+)Value$", base).group(1)
            why = forwarder_shape(f, "expectedCall", "MockExpectedCall::andReturnValue", {0: TOK[t]})
        elif re.match(r"^set(\w+)Data$", base) and re.match(r"^set(\w+)Data$", base).group(1) in TOK:
            t = re.match(r"^set(\w+)Data$", base).group(1)
            why = forwarder_shape(f, "currentMockSupport", "MockSupport::setData", {1: TOK[t]})
        elif re.match(r"^return(\w+)ValueOrDefault$", base):
            t = re.match(r"^return(\w+)ValueOrDefault$", base).group(1)
            sib = t[0].lower() + t[1:] + "ReturnValue_c"
            why = []
            paths = enumerate_paths(f)
            seen = set()
            for p in paths:
                val = p.val()
                hv = [v for k, v in val.items() if k == "hasReturnValue_c()"]
                r = render(f, f.node(p.ret.get("value"))) if p.ret is not None and p.ret.get("value") is not None else None
                if len(hv) != 1 or len(val) != 1:
                    why.append("decision is not exactly hasReturnValue_c(): [%s]" % p.describe(f))
                    continue
                seen.add(hv[0])
                exp = (sib + "()") if hv[0] else f.params[0]["name"]
                if r != exp:
                    why.append("returns %s when hasReturnValue_c() is %s, expected %s" % (r, hv[0], exp))
            if seen != {True, False}:
                why.append("both outcomes of hasReturnValue_c() must be handled")
        elif re.match(r"^(\w+)ReturnValue$", base) and (base[0].upper() + base[1:-len("ReturnValue")]) in TOK:
            t = base[0].upper() + base[1:-len("ReturnValue")]
            why = forwarder_shape(f, "actualCall", "MockActualCall::return%sValue" % t)
            if f.ret.replace("const ", "") != CTYPE[t].replace("const ", "") and f.ret != CTYPE[t]:
                why.append("C return type %s, expected %s" % (f.ret, CTYPE[t]))
            for p in enumerate_paths(f):
                r = f.strip(f.node(p.ret.get("value"))) if p.ret is not None and p.ret.get("value") is not None else None
                if r is None or "return%sValue" % t not in render(f, r):
                    why.append("does not return the value of return%sValue()" % t)
        elif base in ("strictOrder", "expectOneCall", "expectNoCall", "expectNCalls", "actualCall", "disable", "enable", "ignoreOtherCalls",
                      "checkExpectations", "expectedCallsLeft", "clear", "hasReturnValue", "setDataObject", "setDataConstObject", "crashOnFailure", "getData"):
            why = forwarder_shape(f, "currentMockSupport", "MockSupport::" + base)
        elif base == "returnValue":
            why = forwarder_shape(f, "actualCall", "MockActualCall::returnValue")
        elif base in ("installComparator", "installCopier", "removeAllComparatorsAndCopiers"):
            why = forwarder_shape(f, "currentMockSupport", "MockSupport::" + base)
            # installComparator/Copier pass (typeName, *list node): own-parameter check does not apply
            why = [w for w in why if not w.startswith("passes (")]
        else:
            run.ob("R2", name, f.site, False, what="forwarder does not belong to a known family (new entry point: extend the rule table)")
            continue
        checked += 1
        run.ob("R2", name, f.site, not why, witness=why or "one forwarding call, own parameters in order, typed overload",
               what="; ".join(why))
    # the current-object pointer is updated with the returned reference and the table address returned
    for name in sorted(allfns):
        f = prog.functions.get(allfns[name])
        if f is None or not (f.ret.endswith("_c *")) or f.ret.startswith("MockSupport_c"):
            continue
        tbl = "gActualCall" if "Actual" in f.ret else "gExpectedCall"
        cur = "actualCall" if "Actual" in f.ret else "expectedCall"
        CUR, NEXT, TBL = 9000, 9100, 777000
        seen = []
        hooks = {}
        for g_, c in ([(f, c) for c in f.calls()] + [(h_, c) for c0 in f.calls() for h_ in [prog.functions.get((c0.get("callee") or {}).get("mn"))] if h_ is not None and h_.file == f.file and not h_.cls for c in h_.calls()]):
            nm = prog.callee_name(g_, c) or ""
            if nm.startswith(("MockExpectedCall::", "MockActualCall::", "MockSupport::")):
                hooks[nm] = (lambda *a_, nm=nm: (seen.append((nm, a_[0] if a_ else None)), NEXT)[1])
        env = {cur: CUR, tbl: TBL, "currentMockSupport": 8000, "gActualCall": TBL + 1 if tbl != "gActualCall" else TBL, "gExpectedCall": TBL + 2 if tbl != "gExpectedCall" else TBL}
        env.update({q["name"]: 5 for q in f.params})
        ev = Evaluator(prog, f, env=env, calls=hooks)
        ev.pass_object = True
        why = ""
        try:
            ev.run_blocks(f.entry, max_steps=300)
            r = getattr(ev, "ret", None)
            if [o for nm, o in seen] not in ([CUR], [8000]) or (seen and seen[0][0].startswith("MockSupport::") != (seen[0][1] == 8000)):
                why = "the C++ methods are invoked on %s; expected one call on the current call object (or on the current mock support for the call-creating entry points)" % ([o for nm, o in seen],)
            elif ev.env.get(cur) != NEXT:
                why = "the current call object is %s after the call, expected the object the C++ method returned" % (ev.env.get(cur),)
            elif r != TBL:
                why = "returns %s, expected &%s" % (r, tbl)
        except Unknown as u:
            why = "cannot be folded: %s" % u
        ok = not why
        run.ob("R2", "%s keeps the chained call object and returns &%s (folded)" % (name, tbl), f.site, ok, witness=why or "ok", what=why)

    # ---------------- R3 ----------------------------------------------------
    conv = prog.fn("getMockValueCFromNamedValue")
    run.analysed(conv)
    pname = conv.params[0]["name"]
    enumv = {e["name"]: e["v"] for en in prog.enums.values() for e in en["enumerators"] if e["name"].startswith("MOCKVALUETYPE_")}
    for g_ in prog.functions.values():      # the C enum is an anonymous typedef: take the enumerator values from their uses
        if g_.file.endswith("MockSupport_c.cpp"):
            for n in g_.walk():
                if n["k"] == "DeclRefExpr" and (n.get("name") or "").startswith("MOCKVALUETYPE_") and "cv" in n:
                    enumv.setdefault(n["name"], int(n["cv"]))
    GVAL = {u[3]: 1000 + i for i, u in enumerate(UNION)}
    GVAL["getBoolValue"] = 1

    def fold_conv(tag):
        def strcmp(a_, b_):
            if not (isinstance(a_, tuple) and isinstance(b_, tuple)):
                return None
            return (a_[1] > b_[1]) - (a_[1] < b_[1])
        # (the C-string primitives are folded, not stubbed: however the tag is compared, it is compared as a whole string)
        hooks = string_hooks({"MockNamedValue::getType": lambda *a_: ("str", tag)})
        for g_, v_ in GVAL.items():
            hooks["MockNamedValue::" + g_] = (lambda *a_, v_=v_: v_)
        ev = Evaluator(prog, conv, env={pname: 4000}, calls=hooks)
        ev.pass_object = True
        ev.inline = {"SimpleString::StrCmp", "SimpleString::StrNCmp", "SimpleString::StrLen"}
        ev.run_blocks(conv.entry, max_steps=6000)
        locs = {}
        for k, v in ev.env.items():
            m_ = re.match(r"^\w+\.(type|value\.(\w+))$", k)
            if m_:
                locs["type" if m_.group(1) == "type" else m_.group(2)] = v
        return locs
    try:
        for tag, enum, member, getter in UNION:
            locs = fold_conv(tag if tag is not None else "SomeUserType")
            vals = {k: v for k, v in locs.items() if k != "type"}
            ok = locs.get("type") == enumv.get(enum) and vals == {member: GVAL[getter]}
            run.ob("R3", "tag %r" % tag, conv.site, ok, witness={"folded": {k: str(v) for k, v in locs.items()}, "required": [enum, member, getter]},
                   what="" if ok else "conversion row for tag %r writes %s, expected type %s and %s from %s()" % (tag, {k: str(v) for k, v in locs.items()}, enum, member, getter))
        # a user type whose name merely starts with (or is the start of) a built-in tag is an object of that user type
        other = next((u_ for u_ in UNION if u_[0] is None), None)
        if other is not None:
            for tag in ("intPair", "int32_t", "boolean_t", "doubleBuffer", "in", "boo", "const char*x", "unsigned", "void"):
                locs = fold_conv(tag)
                vals = {k: v for k, v in locs.items() if k != "type"}
                ok = locs.get("type") == enumv.get(other[1]) and vals == {other[2]: GVAL[other[3]]}
                run.ob("R3", "user type %r (shares a prefix with a built-in tag)" % tag, conv.site, ok, witness={"folded": {k: str(v) for k, v in locs.items()}, "required": list(other[1:])},
                       what="" if ok else "a value of the user type %r is converted as %s: tags are matched by prefix, not as whole names" % (tag, {k: str(v) for k, v in locs.items()}))
    except Unknown as u:
        run.broke("C19.R3: getMockValueCFromNamedValue cannot be folded: %s" % u)

    # ---------------- R4 ----------------------------------------------------
    # the C getters (hasReturnValue_c and the *OrDefault family) ask the C++ support about "the current call": that is the
    # call just made only if actualCall retires the previous one on every route (shared with C08.R11)
    from .C08 import actualcall_routing_rule
    actualcall_routing_rule(prog, run, "R4")
    # every custom type gets an adaptor of its own that holds exactly the C functions installed for THAT type, whatever was installed
    # before (the C++ repository keeps a reference to the adaptor: it must not be shared with, or changed by, another installation)
    from .shared import member_by_type
    for fname, cxx, cls, mtypes, installs in (
            ("installComparator_c", "MockSupport::installComparator", "MockCFunctionComparatorNode", ("int (*)(void *, void *)", "char *(*)(void *)"),      # (member_by_type compares canonical types without const)
             [("A", "eq1", "strA"), ("B", "eq1", "strB"), ("C", "eq2", "strA"), ("D", "eq1", "strA")]),
            ("installCopier_c", "MockSupport::installCopier", "MockCFunctionCopierNode", ("void (*)(void *, void *)",), [("A", "cp1"), ("B", "cp2"), ("C", "cp1")])):
        f = prog.fn(fname)
        run.analysed(f)
        members = [member_by_type(prog, cls, t_) for t_ in mtypes]
        handed, ctr = [], None
        state = {"currentMockSupport": 777, "comparatorList_": 0, "copierList_": 0}
        try:
            for inst in installs:
                e_ = dict(state)
                e_.update(dict(zip([q["name"] for q in f.params], [("str", inst[0])] + [("fn", x) for x in inst[1:]])))

                def on_install(o, tname, obj, handed=handed, inst=inst):
                    handed.append((inst, obj))
                    return 0
                ev = Evaluator(prog, f, env=e_, calls=string_hooks({cxx: on_install}))
                ev.heap_mode = True
                ev.pass_object = True
                ev.objects = True
                if ctr is not None:
                    ev._newctr = ctr
                ev.run_blocks(f.entry, max_steps=3000)
                ctr = getattr(ev, "_newctr", ctr)
                state = {k: v for k, v in ev.env.items() if k.startswith("@") or k in state}
        except Unknown as u:
            raise AnalysisBroken("C19.R4: %s cannot be folded over a sequence of installations: %s" % (fname, u))
        why = ""
        if len(handed) != len(installs) or any(not isinstance(o, int) or not o for i_, o in handed):
            why = "%d installations hand %s to the C++ interface" % (len(installs), [o for i_, o in handed])
        else:
            for inst, obj in handed:
                got = tuple(state.get("@%d.%s" % (obj, m)) for m in members)
                if got != tuple(("fn", x) for x in inst[1:]):
                    why = "after installing %s, the adaptor registered for type %s holds %s, the C functions given for that type are %s" % ([i_[0] for i_ in installs], inst[0], [g[1] if isinstance(g, tuple) else g for g in got], list(inst[1:]))
                    break
        run.ob("R4", "%s folded over %d installations (types sharing one of their C functions): each type's adaptor holds the C functions given for that type, also after the later installations" % (fname, len(installs)), f.site, not why,
               witness=why or [i_[0] for i_ in installs], what="" if not why else "a value of that type is compared / printed / copied with another type's C function: the failure text differs from the C++ interface: " + why)

    f = prog.fn("MockCFunctionComparatorNode::isEqual")
    run.analysed(f)
    pn = [p["name"] for p in f.params]
    okc, wit = True, []
    # (also for one object on both sides and for two NULLs: whether a value equals itself is the C function's decision, as it is the
    # comparator object's in the C++ interface)
    for (o1, o2), answer in itertools.product(((11, 22), (11, 11), (0, 0)), (0, 1, 2, -1)):
        seen = []
        ev = Evaluator(prog, f, env={pn[0]: o1, pn[1]: o2}, calls={"MockCFunctionComparatorNode::equal_": lambda *a_, answer=answer: (seen.append(a_), answer)[1]})
        try:
            ev.run_blocks(f.entry, max_steps=100)
            r = getattr(ev, "ret", None)
            r = int(bool(r)) if isinstance(r, (int, bool)) else r
        except Unknown as u:
            r = "unknown: %s" % u
        wit.append({"objects": (o1, o2), "C function answers": answer, "called with": [list(x) for x in seen], "isEqual": r})
        okc = okc and seen == [(o1, o2)] and r == (1 if answer != 0 else 0)
    run.ob("R4", "C comparator folded: forwards (object1, object2) in order - also the same object twice - and converts the int answer with != 0", f.site, okc, witness=[w_ for w_ in wit if w_["called with"] != [list(w_["objects"])] or w_["isEqual"] != (1 if w_["C function answers"] else 0)][:3] or "12 cases")
    f = prog.fn("MockCFunctionCopierNode::copy")
    run.analysed(f)
    pn = [p["name"] for p in f.params]
    seen = []
    ev = Evaluator(prog, f, env={pn[0]: 11, pn[1]: 22}, calls={"MockCFunctionCopierNode::copier_": lambda *a_: (seen.append(a_), 0)[1]})
    try:
        ev.run_blocks(f.entry, max_steps=100)
    except Unknown as u:
        seen.append("unknown: %s" % u)
    run.ob("R4", "C copier folded: forwards (dst, src) in order, once", f.site, seen == [(11, 22)], witness=[str(x) for x in seen])
    f = prog.fn("MockCFunctionComparatorNode::valueToString")
    run.analysed(f)
    seen = []
    ev = Evaluator(prog, f, env={f.params[0]["name"]: 11}, calls=string_hooks({"MockCFunctionComparatorNode::toString_": lambda *a_: (seen.append(a_), ("str", "rendered-by-C"))[1]}))
    try:
        ev.run_blocks(f.entry, max_steps=200)
        r = getattr(ev, "ret", None)
    except Unknown as u:
        r = "unknown: %s" % u
    run.ob("R4", "C comparator folded: the object is rendered by the C toString function (asked once, with the object) and that text is the answer", f.site, seen == [(11,)] and r == ("str", "rendered-by-C"),
           witness={"asked": [str(x) for x in seen], "returns": str(r)})
    cr = prog.fn("MockFailureReporterForInCOnlyCode::failTest")
    cpp = prog.fn("MockFailureReporter::failTest")
    for g in (cr, cpp):
        run.analysed(g)
        ok = True
        wit = []
        for p in enumerate_paths(g, stop=lambda ff, n: False):
            val = p.val()
            hf = [v for k, v in val.items() if k.endswith("hasFailed()")]
            calls = [(prog.callee_name(g, c) or "").split("::")[-1] for c in path_calls(prog, g, p)]
            nfw = calls.count("failWith")
            wit.append({"hasFailed": hf, "failWith": nfw})
            if len(hf) != 1 or nfw != (0 if hf[0] else 1):
                ok = False
        run.ob("R4", "%s reports iff the test has not failed yet" % g.qn, g.site, ok, witness=wit)
    # same failure object forwarded
    for g in (cr,):
        fw = [c for c in g.calls() if (prog.callee_name(g, c) or "").endswith("failWith")]
        a0 = [render(g, g.args(c)[0]) for c in fw]
        run.ob("R4", "the C reporter forwards the MockFailure it was given", g.site, a0 == [g.params[0]["name"]], witness=a0)
    t = prog.fn("MockFailureReporterTestTerminatorForInCOnlyCode::exitCurrentTest")
    run.analysed(t)
    last = []
    for p in enumerate_paths(t, stop=lambda ff, n: is_noreturn_call(prog, ff, n)):
        cs = [render(t, c) for c in path_calls(prog, t, p)]
        last.append(cs[-1] if cs else None)
    ok = bool(last) and all(x and ("getCurrentTestTerminatorWithoutExceptions().exitCurrentTest()" in x or "UT_CRASH" in x or "crash" in x.lower()) for x in last)
    run.ob("R4", "the C terminator ends every path in the longjmp terminator (or the requested crash)", t.site, ok, witness=last)
    for nm, scope in (("mock_c", '""'), ("mock_scope_c", None)):
        f = prog.fn(nm)
        run.analysed(f)
        seen = []
        env = {"currentMockSupport": 8000}
        if f.params:
            env[f.params[0]["name"]] = ("str", "scopeX")
        ev = Evaluator(prog, f, env=env, calls=string_hooks({"mock": lambda *a_: (seen.append(a_), ("ref", "SUPPORT"))[1]}))
        ev.pass_object = True
        ev.heap_mode = True
        ev.inline = {g_.qn for g_ in prog.functions.values() if g_.file == UNIT and not g_.cls} - set(ev.calls)
        try:
            ev.run_blocks(f.entry, max_steps=300)
            r = getattr(ev, "ret", None)
        except Unknown as u:
            r = "unknown: %s" % u
        want_scope = "" if scope is not None else "scopeX"
        norm_ = lambda v: v[1] if isinstance(v, tuple) and v[0] in ("str", "ref") else v
        ok = len(seen) == 1 and norm_(seen[0][0]) == want_scope and norm_(seen[0][1]) == "failureReporterForC" and norm_(ev.env.get("currentMockSupport")) == "SUPPORT" and norm_(r) == "gMockSupport"
        run.ob("R4", "%s selects the scope, installs the C reporter and returns &gMockSupport" % nm, f.site, ok,
               witness={"mock called with": [[str(norm_(x)) for x in a_] for a_ in seen], "currentMockSupport": str(ev.env.get("currentMockSupport")), "returns": str(r)})

"""C11 — separate-process mode contains every way a test can die. DESIGN.md section 4, C11."""
import itertools
import re
from .common import *
from cpv.ceval import Evaluator, Unknown

UNIT = "src/Platforms/Gcc/UtestPlatform.cpp"


def posix_decode(s):
    """Linux/glibc wait-status encoding (trusted base): returns 'exit0' | 'exit' | 'signal' | 'stopped' | 'other'"""
    if (s & 0x7f) == 0:
        return "exit0" if ((s >> 8) & 0xff) == 0 else "exit"
    if (s & 0xff) == 0x7f:
        return "stopped"
    t = ((s & 0x7f) + 1) & 0xff
    if t >= 0x80:
        t -= 0x100
    if (t >> 1) > 0:
        return "signal"
    return "other"


def separate_process_rules(prog, run, rid_parent, rid_child):
    """the fork-based runner folded against scripted fork / waitpid / errno answers (parent: rid_parent; child branch:
    rid_child). Shared with C01: the child's exit status is how a failure crosses the process boundary."""
    sp = prog.fn("GccPlatformSpecificRunTestInASeperateProcess")
    run.analysed(sp)
    # ---------------- R2 / R3 -----------------------------------------------
    # the runner folded against scripted fork / waitpid / errno answers; the oracle is the reference wait loop below
    class Halt(Exception):
        pass
    EINTR, EIO, SIGCONT, WUNTRACED, CHILD = 4, 5, 18, 2, 1234
    SHELL, PLUGIN_, RESULT = 100, 200, 300

    def fold_runner(fork_result, events, failure_counts=(3, 3), shell_failed=0):
        """events: list of ("ok", status) | ("err", errno); the last one repeats for ever. Returns the observation log."""
        log = []
        state = {"i": 0, "fc": 0}
        holder = {}

        def waitpid(ev_, pid, ref, opts):
            # (the evaluator that folds the call: the status variable may be a local of an inlined helper)
            e = events[min(state["i"], len(events) - 1)]
            state["i"] += 1
            log.append(("waitpid", pid, opts))
            if state["i"] > 200:
                raise Halt("more than 200 waits")
            if e[0] == "ok":
                if isinstance(ref, tuple) and ref[0] == "ref":
                    ev_.env[ref[1]] = e[1]
                    ev_.stores.append((ref[1], e[1]))
                else:
                    raise Unknown("status argument of waitpid is not the address of a local")
                return pid if pid == CHILD else CHILD
            ev_.env["ERRNO[0]"] = e[1]
            ev_.stores.append(("ERRNO[0]", e[1]))
            return -1
        waitpid.wants_ev = True

        def fcount(*a_):
            v = failure_counts[min(state["fc"], len(failure_counts) - 1)]
            state["fc"] += 1
            return v

        def leave(code):
            log.append(("_exit", code))
            raise Halt("_exit")
        ev = Evaluator(prog, sp, env={sp.params[0]["name"]: SHELL, sp.params[1]["name"]: PLUGIN_, sp.params[2]["name"]: RESULT, "ERRNO[0]": 0}, calls={
            "PlatformSpecificFork": lambda: (log.append(("fork",)), fork_result)[1], "PlatformSpecificWaitPid": waitpid,
            "__errno_location": lambda: ("ptr", "ERRNO", 0), "TestResult::addFailure": lambda *a_: (log.append(("failure",)), 0)[1],
            "TestResult::getFailureCount": fcount, "UtestShell::hasFailed": lambda *a_: shell_failed, "kill": lambda pid, sig: (log.append(("kill", pid, sig)), 0)[1],
            "UtestShell::runOneTestInCurrentProcess": lambda *a_: (log.append(("run", a_[0], a_[1])), 0)[1], "_exit": leave, "exit": leave, "_Exit": leave})
        ev.pass_object = True
        ev.optional_stubs = {"UtestShell::hasFailed"}
        holder["ev"] = ev
        try:
            end, _ = ev.run_blocks(sp.entry, max_steps=20000)
            log.append(("end", "return" if end == sp.exit else end))
        except Halt as h:
            log.append(("end", str(h)))
        return log

    def reference(events):
        """what the parent must do for a scripted sequence of wait results (bound on EINTR retries left open)"""
        out = []
        i = 0
        while True:
            e = events[min(i, len(events) - 1)]
            i += 1
            out.append("wait")
            if e[0] == "err":
                if e[1] == EINTR:
                    if i > 150:
                        return out, "unbounded"
                    continue
                out.append("failure")
                return out, "return"
            kind = posix_decode(e[1])
            if kind in ("exit", "signal", "stopped"):
                out.append("failure")
            if kind == "stopped":
                out.append("cont")
            if kind in ("exit0", "exit", "signal"):
                return out, "return"

    def observed(log):
        out = []
        for x in log:
            if x[0] == "waitpid":
                out.append("wait")
            elif x[0] == "failure":
                out.append("failure")
            elif x[0] == "kill":
                out.append("cont")
        return out
    seen = 0
    try:
        log = fold_runner(-1, [("ok", 0)])
        ok = [x[0] for x in log] == ["fork", "failure", "end"] and log[-1] == ("end", "return")
        run.ob(rid_parent, "a failing fork: one failure, no wait, the runner returns", sp.site, ok, witness=[list(map(str, x)) for x in log])
        seen += 1
        STOP, EXIT0, EXIT3, SIG9, SIG11C = (19 << 8) | 0x7f, 0, 3 << 8, 9, 11 | 0x80
        scripts = [[("ok", EXIT0)], [("ok", EXIT3)], [("ok", SIG9)], [("ok", SIG11C)], [("ok", STOP), ("ok", EXIT0)], [("ok", STOP), ("ok", STOP), ("ok", SIG9)],
                   [("err", EINTR), ("ok", EXIT0)], [("err", EINTR), ("err", EINTR), ("ok", EXIT3)], [("err", EIO)], [("err", EINTR), ("err", EIO)],
                   [("ok", STOP), ("err", EINTR), ("ok", SIG9)], [("ok", 0xffff), ("ok", EXIT0)], [("err", EINTR), ("ok", STOP), ("err", EIO)]]
        for sc in scripts:
            log = fold_runner(CHILD, sc)
            want, wend = reference(sc)
            got = observed(log)
            why = ""
            if got != want or log[-1] != ("end", "return"):
                why = "the runner does %s and ends with %s; expected %s and a return" % (got, log[-1][1], want)
            elif any(x[0] == "waitpid" and (x[1] != CHILD or x[2] != WUNTRACED) for x in log):
                why = "waitpid is not called for this child with WUNTRACED: %s" % [x for x in log if x[0] == "waitpid"][:1]
            elif any(x[0] == "kill" and x[1:] != (CHILD, SIGCONT) for x in log):
                why = "the stopped child is not continued with kill(child, SIGCONT): %s" % [x for x in log if x[0] == "kill"][:1]
            run.ob(rid_parent, "parent folded against wait results %s" % [("%s:%s" % (k, ("0x%x" % v) if k == "ok" else {EINTR: "EINTR", EIO: "EIO"}[v])) for k, v in sc], sp.site, not why, witness=got, what=why)
            seen += 1
        log = fold_runner(CHILD, [("err", EINTR)])
        waits = len([x for x in log if x[0] == "waitpid"])
        ok = log[-1] == ("end", "return") and [x[0] for x in log if x[0] in ("failure", "kill")] == ["failure"] and 2 <= waits <= 150
        run.ob(rid_parent, "EINTR for ever: the runner gives up after a bounded number of retries with exactly one failure", sp.site, ok, witness={"waits": waits, "end": log[-1][1]},
               what="" if ok else "waitpid interrupted for ever: %d waits, ends with %s" % (waits, log[-1][1]))
        seen += 1
        # the child
        # (the shell's own failed flag is scripted independently of the result's failure count: a plugin's post action
        # adds failures to the result without going through the shell, and a shell that had failed before adds none)
        for counts, code, sflag in (((3, 3), 0, 0), ((3, 5), 1, 0), ((0, 1), 1, 0), ((3, 3), 0, 1), ((2, 4), 1, 1)):
            log = fold_runner(0, [("ok", 0)], failure_counts=counts, shell_failed=sflag)
            kinds = [x[0] for x in log]
            ok = kinds == ["fork", "run", "_exit", "end"] and log[-1] == ("end", "_exit")
            run.ob(rid_child, "child (failures %d -> %d, shell's own failed flag %d): runs the test in-process and leaves only through _exit" % (counts + (sflag,)), sp.site, ok, witness=[list(map(str, x)) for x in log],
                   what="" if ok else "the child can return into the parent's test loop (tests would run twice), or waits/reports like the parent")
            if ok:
                run.ob(rid_child, "child (failures %d -> %d, shell's own failed flag %d): runs this test with the given plugin chain; exit status is (failures before < failures after)" % (counts + (sflag,)), sp.site,
                       log[1][1:] == (SHELL, PLUGIN_) and log[2] == ("_exit", code), witness=[list(map(str, x)) for x in log[1:3]],
                       what="" if log[2] == ("_exit", code) else "failures recorded directly on the result (plugin actions) would not reach the parent")
    except Unknown as u:
        run.broke("%s: " % run.pid + " the separate-process runner cannot be folded: %s" % u)



def check(ctx, run):
    prog = ctx.program()
    run.assume("wait-status encoding and the W* macros are glibc's (trusted base); exited / signalled / stopped are mutually exclusive for statuses the kernel produces")
    run.not_decided.append("kernel behaviour per signal; that the child really dies the way its status says")
    run.rule("R1", "status decoding folded over every exit status 0..255, every signal 1..127 (with and without core flag), every stop signal and the continued status: exactly one failure for exit!=0 / signalled / stopped, none for exit 0", floor=600, exhaustive=True)
    run.rule("R2", "wait loop per iteration: a non-EINTR error or EINTR past the bound reports one failure and returns; EINTR below the bound only counts and retries; a successful wait decodes the status once, continues a stopped child with SIGCONT and repeats until exited or signalled; a failing fork reports once and does not wait", floor=8)
    run.rule("R3", "the child never returns: on the cpid == 0 branch every path ends in _exit(initial failure count < current failure count) after running the test in-process", floor=2)
    run.rule("R4", "containment in the runner: both modes go through PlatformSpecificSetJmp; the registry marks every test (not only some) before it runs; fork/waitpid seams forward their arguments", floor=7)

    sp = prog.fn("GccPlatformSpecificRunTestInASeperateProcess")
    st = prog.fn("SetTestFailureByStatusCode")
    run.analysed(sp)
    run.analysed(st)

    # ---------------- R1 ----------------------------------------------------
    stname = st.params[2]["name"]
    statuses = [c << 8 for c in range(256)] + [s for s in range(1, 128)] + [s | 0x80 for s in range(1, 128)] + [(s << 8) | 0x7f for s in range(1, 128)] + [0xffff]
    for s in statuses:
        ev = Evaluator(prog, st, env={stname: s, st.params[0]["name"]: 1, st.params[1]["name"]: 2})
        ev.pass_object = True
        fails = []
        ev.calls["TestResult::addFailure"] = lambda *a, fails=fails: (fails.append(1), 0)[1]
        try:
            ev.run_blocks(st.entry, max_steps=300)
            got = len(fails)
        except Unknown as u:
            got = "unknown: %s" % u
        kind = posix_decode(s)
        want = 1 if kind in ("exit", "signal", "stopped") else 0
        run.ob("R1", "status 0x%04x (%s)" % (s, kind), st.site, got == want, witness={"failures_recorded": got, "oracle": want},
               what="" if got == want else "a child that %s is recorded with %s failures" % ({"exit": "exits non-zero", "exit0": "exits 0", "signal": "is killed by a signal", "stopped": "is stopped", "other": "continues"}[kind], got))

    separate_process_rules(prog, run, "R2", "R3")

    # ---------------- R4 ----------------------------------------------------
    ro = prog.fn("UtestShell::runOneTest")
    run.analysed(ro)
    for sepv in (0, 1):
        jumps = []
        ev = Evaluator(prog, ro, env={q["name"]: 5 for q in ro.params}, calls={"UtestShell::isRunInSeperateProcess": lambda *a_, sepv=sepv: sepv,
                                                                                 "PlatformSpecificSetJmp": lambda fn_, data: (jumps.append(fn_), 1)[1]})
        try:
            ev.run_blocks(ro.entry, max_steps=300)
        except Unknown as u:
            run.broke("C11.R4: runOneTest cannot be folded: %s" % u)
            continue
        want = ("fn", "helperDoRunOneTestSeperateProcess" if sepv else "helperDoRunOneTestInCurrentProcess")
        got = [(x[0], x[1].split("::")[-1]) if isinstance(x, tuple) else x for x in jumps]
        run.ob("R4", "runOneTest folded [separate process = %d]: enters the %s runner under SetJmp, once" % (sepv, "separate-process" if sepv else "in-process"), ro.site, got == [want], witness=[str(x) for x in jumps])
    # SIBLING: a subclass that overrides runOneTest must not get round the choice: folded with separate-process mode on, over every
    # valuation of the subclass's own bool members, whatever runs the test body goes through the separate-process runner
    overrides = sorted((g for g in prog.functions.values() if g.name == "runOneTest" and g.cls in prog.subclasses("UtestShell") and g.cls != "UtestShell"), key=lambda g: g.qn)
    if not overrides:
        run.broke("C11.R4: no override of UtestShell::runOneTest found (IgnoredUtestShell::runOneTest confirmed by hand)")
    for g in overrides:
        run.analysed(g)
        flags = [fl["name"] for fl in prog.records.get(g.cls, {}).get("fields", []) if (fl.get("ct") or "") in ("bool", "_Bool")]
        bad, nworld = None, 0
        for vals_ in itertools.product((0, 1), repeat=len(flags)):
            nworld += 1
            jumps, direct = [], []
            env = {q["name"]: 5 for q in g.params}
            env.update(dict(zip(flags, vals_)))
            ev = Evaluator(prog, g, env=env, calls={"UtestShell::isRunInSeperateProcess": lambda *a_: 1, "PlatformSpecificSetJmp": lambda fn_, data: (jumps.append(fn_), 1)[1],
                                                    "UtestShell::runOneTestInCurrentProcess": lambda *a_: (direct.append("runOneTestInCurrentProcess"), 0)[1],
                                                    "helperDoRunOneTestInCurrentProcess": lambda *a_: (direct.append("helperDoRunOneTestInCurrentProcess"), 0)[1]})
            ev.inline = {"UtestShell::runOneTest"}
            ev.optional_stubs = set(ev.calls)
            try:
                ev.run_blocks(g.entry, max_steps=600)
            except Unknown as u:
                raise AnalysisBroken("C11.R4: %s cannot be folded: %s" % (g.qn, u))
            names_ = [x[1].split("::")[-1] if isinstance(x, tuple) else str(x) for x in jumps] + direct
            wrong = [x for x in names_ if x != "helperDoRunOneTestSeperateProcess"]
            if wrong and bad is None:
                bad = "with %s the test is run through %s although it is to run in a separate process" % (dict(zip(flags, vals_)), wrong)
        run.ob("R4", "%s (override) folded with separate-process mode on over %d valuation(s) of %s: the test body is reached only through the separate-process runner" % (g.qn, nworld, flags or "no flags"), g.site, bad is None,
               witness=bad or "%d worlds" % nworld, what="" if bad is None else "a crash in such a test takes the whole run down instead of being recorded as one failed test: " + bad)
    hs = prog.fn("helperDoRunOneTestSeperateProcess")
    run.analysed(hs)
    got = []
    INFO = 4500
    ev = Evaluator(prog, hs, env={hs.params[0]["name"]: INFO, "@%d.shell_" % INFO: 11, "@%d.plugin_" % INFO: 22, "@%d.result_" % INFO: 33},
                   calls={"PlatformSpecificRunTestInASeperateProcess": lambda *a_: (got.append(a_), 0)[1]})
    ev.heap_mode = True
    try:
        ev.run_blocks(hs.entry, max_steps=200)
    except Unknown as u:
        got = ["unknown: %s" % u]
    run.ob("R4", "the separate-process helper folded: hands the run info's (shell, plugin, result) to the platform runner", hs.site, got == [(11, 22, 33)], witness=[str(x) for x in got])
    tg = prog.slots().get("PlatformSpecificRunTestInASeperateProcess", set())
    run.ob("R4", "the platform slot holds the fork-based runner", UNIT + ":PlatformSpecificRunTestInASeperateProcess", tg == {sp.mn}, witness=sorted(tg))
    g = prog.fn("UtestShell::isRunInSeperateProcess")
    s_ = prog.fn("UtestShell::setRunInSeperateProcess")
    rets = [render(g, g.node(n.get("value"))) for n in g.walk() if n["k"] == "ReturnStmt"]
    a = [(l, render(s_, r)) for l, r, n in assignments(s_)]
    run.ob("R4", "the per-test flag is set and read consistently", g.site, len(rets) == 1 and a == [(rets[0], "true")], witness={"get": rets, "set": a})
    from .C02 import registry_rules
    registry_rules(prog, run, "R4", "separate")
    for slot, fn_, libc in (("PlatformSpecificFork", "PlatformSpecificForkImplementation", "fork"), ("PlatformSpecificWaitPid", "PlatformSpecificWaitPidImplementation", "waitpid")):
        f = prog.fn(fn_)
        run.analysed(f)
        seen = []
        ev = Evaluator(prog, f, env={q["name"]: 40 + i_ for i_, q in enumerate(f.params)}, calls={libc: lambda *a_: (seen.append(tuple(a_)), 4711)[1]})
        try:
            ev.run_blocks(f.entry, max_steps=200)
            r = getattr(ev, "ret", None)
        except Unknown as u:
            r = "unknown: %s" % u
        ok = seen == [tuple(40 + i_ for i_ in range(len(f.params)))] and r == 4711
        run.ob("R4", "%s forwards to %s" % (fn_, libc), f.site, ok and prog.slots().get(slot) == {f.mn}, witness={"%s called with" % libc: [list(x) for x in seen], "returns": r},
               what="" if ok else "the seam does not hand its own arguments to %s once and return its result" % libc)
        # ... also when the call fails: an interrupted call (EINTR) is reported to the caller, whose retries are bounded - a seam that
        # retries by itself makes that bound dead code (the parent then waits for as long as signals keep arriving)
        for en in (4, 10):        # EINTR, ECHILD
            seen = []
            ev = Evaluator(prog, f, env=dict({q["name"]: 40 + i_ for i_, q in enumerate(f.params)}, **{"ERRNO[0]": en}),
                           calls={libc: lambda *a_: (seen.append(tuple(a_)), -1)[1] if len(seen) < 50 else None, "__errno_location": lambda: ("ptr", "ERRNO", 0)})
            ev.optional_stubs = {"__errno_location"}
            try:
                ev.run_blocks(f.entry, max_steps=3000)
                r = getattr(ev, "ret", None)
            except Unknown as u:
                r = "unknown: %s" % u
            ok = len(seen) == 1 and r == -1
            run.ob("R4", "%s folded with %s failing (errno %d): asks once and reports the failure to its caller" % (fn_, libc, en), f.site, ok, witness={"calls": len(seen), "returns": r},
                   what="" if ok else "%s is called %d times inside the seam (returns %s): the caller's bounded retry never sees the interruption" % (libc, len(seen), r))

"""C11 — separate-process mode contains every way a test can die. DESIGN.md section 4, C11."""
import re
from .common import *
from cpv.ceval import Evaluator, Unknown

UNIT = "src/Platforms/Gcc/UtestPlatform.cpp"


def posix_decode(s):
    """Linux/glibc wait-status encoding (trusted base): returns 'exit0' | 'exit' | 'signal' | 'stopped' | 'other'"""
    if (s & 0x7f) == 0:
        return "exit0" if ((s >> 8) & 0xff) == 0 else "exit"
    if (s & 0xff) == 0x7f:
        return "stopped"
    t = ((s & 0x7f) + 1) & 0xff
    if t >= 0x80:
        t -= 0x100
    if (t >> 1) > 0:
        return "signal"
    return "other"


def check(ctx, run):
    prog = ctx.program()
    run.assume("wait-status encoding and the W* macros are glibc's (trusted base); exited / signalled / stopped are mutually exclusive for statuses the kernel produces")
    run.not_decided.append("kernel behaviour per signal; that the child really dies the way its status says")
    run.rule("R1", "status decoding folded over every exit status 0..255, every signal 1..127 (with and without core flag), every stop signal and the continued status: exactly one failure for exit!=0 / signalled / stopped, none for exit 0", floor=600, exhaustive=True)
    run.rule("R2", "wait loop per iteration: a non-EINTR error or EINTR past the bound reports one failure and returns; EINTR below the bound only counts and retries; a successful wait decodes the status once, continues a stopped child with SIGCONT and repeats until exited or signalled; a failing fork reports once and does not wait", floor=8)
    run.rule("R3", "the child never returns: on the cpid == 0 branch every path ends in _exit(initial failure count < current failure count) after running the test in-process", floor=2)
    run.rule("R4", "containment in the runner: both modes go through PlatformSpecificSetJmp; the registry marks every test (not only some) before it runs; fork/waitpid seams forward their arguments", floor=7)

    sp = prog.fn("GccPlatformSpecificRunTestInASeperateProcess")
    st = prog.fn("SetTestFailureByStatusCode")
    run.analysed(sp)
    run.analysed(st)

    # ---------------- R1 ----------------------------------------------------
    stname = st.params[2]["name"]
    statuses = [c << 8 for c in range(256)] + [s for s in range(1, 128)] + [s | 0x80 for s in range(1, 128)] + [(s << 8) | 0x7f for s in range(1, 128)] + [0xffff]
    for s in statuses:
        ev = Evaluator(prog, st, env={stname: s, st.params[0]["name"]: 1, st.params[1]["name"]: 2})
        ev.pass_object = True
        fails = []
        ev.calls["TestResult::addFailure"] = lambda *a, fails=fails: (fails.append(1), 0)[1]
        try:
            ev.run_blocks(st.entry, max_steps=300)
            got = len(fails)
        except Unknown as u:
            got = "unknown: %s" % u
        kind = posix_decode(s)
        want = 1 if kind in ("exit", "signal", "stopped") else 0
        run.ob("R1", "status 0x%04x (%s)" % (s, kind), st.site, got == want, witness={"failures_recorded": got, "oracle": want},
               what="" if got == want else "a child that %s is recorded with %s failures" % ({"exit": "exits non-zero", "exit0": "exits 0", "signal": "is killed by a signal", "stopped": "is stopped", "other": "continues"}[kind], got))

    # ---------------- R2 / R3 -----------------------------------------------
    loops = loop_blocks(sp)
    # do-while: the loop condition block is the one with the back edge; body entry = successor on `true`
    conds = [b for b in sp.blocks.values() if b["id"] in loops and b.get("cond") is not None and b.get("termk") in ("DoStmt",)]
    if not conds:
        # with && / || the do-condition is split; the DoStmt terminator block is the last of them
        conds = [b for b in sp.blocks.values() if b["id"] in loops and b.get("termk") == "DoStmt"]
    if not conds:
        raise AnalysisBroken("wait loop (do-while) not found in the separate-process runner")

    def names_of(p):
        return [(prog.callee_name(sp, c) or render(sp, c)).split("::")[-1] for c in path_calls(prog, sp, p)]
    MAC = lambda key, m: key  # placeholder
    whole = enumerate_paths(sp, stop=lambda f, n: n["k"] == "CallExpr" and (prog.callee_name(f, n) or "") in ("_exit", "exit", "_Exit"), max_visits=2)
    seen = {"fork_error": 0, "child": 0, "err_other": 0, "err_eintr_bound": 0, "err_eintr_retry": 0, "ok": 0}
    for p in whole:
        val = p.val()
        nm = names_of(p)
        fork_err = val.get("(cpid == syscallError)")
        if fork_err is True:
            seen["fork_error"] += 1
            ok = nm.count("addFailure") == 1 and "PlatformSpecificWaitPid" not in nm and p.end == "return"
            run.ob("R2", "fork failure: one failure, no wait", sp.site, ok, witness=nm)
            continue
        child = [v for k, v in val.items() if k in ("cpid", "(0 == cpid)", "(cpid == 0)")]
        is_child = val.get("cpid") is False or val.get("(0 == cpid)") is True or val.get("(cpid == 0)") is True
        if is_child:
            seen["child"] += 1
            ex = [c for c in path_calls(prog, sp, p) if (prog.callee_name(sp, c) or "") in ("_exit", "exit", "_Exit")]
            ini = {k: render(sp, v) for k, v in local_inits(sp).items()}
            ok = p.end == "stop" and len(ex) == 1 and nm.count("runOneTestInCurrentProcess") == 1 and nm.index("runOneTestInCurrentProcess") < nm.index(prog.callee_name(sp, ex[0]))
            arg = render(sp, sp.args(ex[0])[0], keep_explicit_casts=False) if ex else None
            okarg = arg == "(initialFailureCount < result->getFailureCount())" and ini.get("initialFailureCount") == "result->getFailureCount()"
            run.ob("R3", "child: runs the test in-process and leaves only through _exit", sp.site, ok, witness={"calls": nm, "end": p.end},
                   what="" if ok else "the child can return into the parent's test loop (tests would run twice)")
            run.ob("R3", "child: exit status is (failures before < failures after)", sp.site, okarg, witness={"_exit": arg, "initialFailureCount": ini.get("initialFailureCount")},
                   what="" if okarg else "failures recorded directly on the result (plugin actions) would not reach the parent")
            args = [render(sp, c) for c in path_calls(prog, sp, p) if (prog.callee_name(sp, c) or "").endswith("runOneTestInCurrentProcess")]
            run.ob("R3", "child: runs this test with the given plugin chain and result", sp.site, args == ["%s->runOneTestInCurrentProcess(%s, *%s)" % tuple(q["name"] for q in sp.params)], witness=args)
            continue
    # per-iteration analysis of the loop body
    body_entries = set()
    for b in sp.blocks.values():
        if b["id"] in loops:
            for pr in sp.preds.get(b["id"], []):
                if pr not in loops:
                    body_entries.add(b["id"])
    if len(body_entries) != 1:
        raise AnalysisBroken("wait loop entry not unique (%s)" % sorted(body_entries))
    entry = list(body_entries)[0]
    its = enumerate_paths(sp, start_block=entry, end_blocks={entry}, max_visits=1)
    for p in its:
        val = p.val()
        nm = names_of(p)
        err = val.get("(syscallError == w)")
        if err is None:
            err = val.get("(w == syscallError)")
        eintr = [v for k, v in val.items() if "errno" in k or "__errno_location" in k]
        bound = [(k, v) for k, v in val.items() if "amountOfRetries" in k]
        incs = [e for e in p.trace if isinstance(e, int) and sp.nodes[e]["k"] == "UnaryOperator" and sp.nodes[e].get("op") == "++" and "amountOfRetries" in render(sp, sp.nodes[e])]
        desc = short(p.describe(sp), 120)
        why = []
        if nm.count("PlatformSpecificWaitPid") != 1:
            why.append("waitpid called %d times per iteration" % nm.count("PlatformSpecificWaitPid"))
        if err is True:
            if "SetTestFailureByStatusCode" in nm or "kill" in nm:
                why.append("the status word is decoded although waitpid failed (a stale status would be recorded again)")
            if eintr == [True]:
                over = [v for k, v in bound]
                if over == [True]:
                    seen["err_eintr_bound"] += 1
                    if nm.count("addFailure") != 1 or p.end != "return":
                        why.append("EINTR past the retry bound must report one failure and return")
                elif over == [False]:
                    seen["err_eintr_retry"] += 1
                    if nm.count("addFailure") != 0 or len(incs) != 1 or p.end != "endblock":
                        why.append("EINTR below the bound must only count the retry and wait again (failures=%d, increments=%d, end=%s)" % (nm.count("addFailure"), len(incs), p.end))
                else:
                    why.append("EINTR path does not compare the retry counter with its bound")
            elif eintr == [False]:
                seen["err_other"] += 1
                if nm.count("addFailure") != 1 or p.end != "return":
                    why.append("a failing waitpid must report one failure and return")
            else:
                why.append("error path does not distinguish EINTR")
        elif err is False:
            seen["ok"] += 1
            if nm.count("SetTestFailureByStatusCode") != 1:
                why.append("status decoded %d times after a successful wait" % nm.count("SetTestFailureByStatusCode"))
            else:
                a = [render(sp, c) for c in path_calls(prog, sp, p) if (prog.callee_name(sp, c) or "") == "SetTestFailureByStatusCode"]
                if a != ["SetTestFailureByStatusCode(%s, %s, status)" % (sp.params[0]["name"], sp.params[2]["name"])]:
                    why.append("decoder called as %s" % a)
            if incs:
                why.append("retry counter changes on a successful wait")
        else:
            why.append("iteration does not test the waitpid result against the error value")
        run.ob("R2", "wait iteration [%s]" % desc, sp.site, not why, witness={"calls": nm, "end": p.end}, what="; ".join(why))
    for k in ("fork_error", "child", "err_other", "err_eintr_bound", "err_eintr_retry", "ok"):
        if seen[k] == 0:
            run.ob("R2", "case %s is handled" % k, sp.site, False, what="no path of the runner handles the %s case" % k)
    # kill(SIGCONT) iff stopped, loop continues until exited or signalled: fold the loop condition and the kill guard over the status lattice
    wp = [render(sp, c) for c in sp.calls() if (prog.callee_name(sp, c) or "") == "PlatformSpecificWaitPid"]
    run.ob("R2", "waitpid waits for this child, also for stops", sp.site, wp == ["PlatformSpecificWaitPid(cpid, &status, 2)"] or wp == ["PlatformSpecificWaitPid(cpid, &status, WUNTRACED)"], witness=wp)
    kills = [c for c in sp.calls() if (prog.callee_name(sp, c) or "") == "kill"]
    okk = len(kills) == 1
    if okk:
        a = [render(sp, x) for x in sp.args(kills[0])]
        okk = a[0] in ("w", "cpid") and const_value(sp, sp.args(kills[0])[1]) == 18
        pos = sp.where_enclosing(kills[0])
        facts = sp.edge_conditions(pos)
        # the guarding condition folded over statuses: true exactly for stopped statuses
        guard = [c for c, pol, b in facts if "status" in render(sp, c) and pol]
        okg = bool(guard)
        if okg:
            for s in statuses:
                ev = Evaluator(prog, sp, env={"status": s})
                try:
                    v = ev.ev(guard[-1])
                except Unknown:
                    v = None
                if v is None or bool(v) != (posix_decode(s) == "stopped"):
                    okg = False
                    break
        okk = okk and okg
    run.ob("R2", "a stopped child (and only a stopped child) is continued with SIGCONT", sp.site, okk, witness=[render(sp, k) for k in kills])
    dcond = None
    for n in sp.walk():
        if n["k"] == "DoStmt":
            dcond = sp.node(n.get("cond"))
    okl = dcond is not None
    if okl:
        for s in statuses:
            for werr in (0, 1):
                ev = Evaluator(prog, sp, env={"status": s, "w": -1 if werr else 1234, "syscallError": -1})
                try:
                    v = ev.ev(dcond)
                except Unknown as u:
                    v = None
                want = 1 if werr else (0 if posix_decode(s) in ("exit0", "exit", "signal") else 1)
                if v is None or int(bool(v)) != want:
                    okl = False
                    break
            if not okl:
                break
    run.ob("R2", "the loop repeats exactly while waitpid failed or the child has neither exited nor been signalled (folded over all statuses)", sp.site, okl, witness=render(sp, dcond) if dcond else None)
    bounds = [n for n in sp.walk() if n["k"] == "BinaryOperator" and n.get("op") in (">", ">=", "<", "<=") and "amountOfRetries" in render(sp, n)]
    okb = len(bounds) == 1 and const_value(sp, sp.node(bounds[0]["rhs"])) is not None
    run.ob("R2", "the retry bound is a constant", sp.site, okb, witness=[render(sp, b) for b in bounds])

    # ---------------- R4 ----------------------------------------------------
    ro = prog.fn("UtestShell::runOneTest")
    run.analysed(ro)
    for p in enumerate_paths(ro):
        sepv = p.val().get("isRunInSeperateProcess()")
        cs = [render(ro, c) for c in path_calls(prog, ro, p) if (prog.callee_name(ro, c) or "") == "PlatformSpecificSetJmp"]
        want = "PlatformSpecificSetJmp(%s, &runInfo)" % ("helperDoRunOneTestSeperateProcess" if sepv else "helperDoRunOneTestInCurrentProcess")
        run.ob("R4", "runOneTest [%s] enters the %s runner under SetJmp" % (p.describe(ro), "separate-process" if sepv else "in-process"), ro.site, sepv is not None and cs == [want], witness=cs)
    hs = prog.fn("helperDoRunOneTestSeperateProcess")
    cs = [render(hs, c) for c in hs.calls()]
    run.ob("R4", "the separate-process helper hands (shell, plugin, result) to the platform runner", hs.site, cs == ["PlatformSpecificRunTestInASeperateProcess(shell, plugin, result)"], witness=cs)
    tg = prog.slots().get("PlatformSpecificRunTestInASeperateProcess", set())
    run.ob("R4", "the platform slot holds the fork-based runner", UNIT + ":PlatformSpecificRunTestInASeperateProcess", tg == {sp.mn}, witness=sorted(tg))
    g = prog.fn("UtestShell::isRunInSeperateProcess")
    s_ = prog.fn("UtestShell::setRunInSeperateProcess")
    rets = [render(g, g.node(n.get("value"))) for n in g.walk() if n["k"] == "ReturnStmt"]
    a = [(l, render(s_, r)) for l, r, n in assignments(s_)]
    run.ob("R4", "the per-test flag is set and read consistently", g.site, len(rets) == 1 and a == [(rets[0], "true")], witness={"get": rets, "set": a})
    reg = prog.fn("TestRegistry::runAllTests")
    from .C02 import loop_head_and_body
    head, body = loop_head_and_body(reg, lambda k: k == "test")
    okr = head is not None
    wit = []
    if okr:
        for p in enumerate_paths(reg, start_block=body, end_blocks={head["id"]}):
            v = p.val()
            nm = [(prog.callee_name(reg, c) or "").split("::")[-1] for c in path_calls(prog, reg, p)]
            if "runOneTest" in nm and v.get("runInSeperateProcess_") is True:
                good = nm.count("setRunInSeperateProcess") == 1 and nm.index("setRunInSeperateProcess") < nm.index("runOneTest")
                if not good:
                    okr = False
                    wit.append(p.describe(reg))
            if "runOneTest" in nm and v.get("runInSeperateProcess_") is None:
                okr = False
                wit.append("flag not consulted on: " + p.describe(reg))
    run.ob("R4", "with -p every test that runs is marked for the separate-process runner first", reg.site, okr, witness=wit or "all iteration paths",
           what="" if okr else "some tests run in the parent process although separate-process mode is on: a crashing test takes the whole run down")
    for slot, fn_, libc in (("PlatformSpecificFork", "PlatformSpecificForkImplementation", "fork"), ("PlatformSpecificWaitPid", "PlatformSpecificWaitPidImplementation", "waitpid")):
        f = prog.fn(fn_)
        run.analysed(f)
        rets = [render(f, f.node(n.get("value"))) for n in f.walk() if n["k"] == "ReturnStmt"]
        want = "%s(%s)" % (libc, ", ".join(q["name"] for q in f.params))
        run.ob("R4", "%s forwards to %s" % (fn_, libc), f.site, rets == [want] and prog.slots().get(slot) == {f.mn}, witness=rets)

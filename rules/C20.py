"""C20 — TeamCity output: escaping completeness (TAINT), escaper table (PARTITION over all char values),
framing per path, pairing of the callbacks. DESIGN.md section 4, C20."""
import re
from .common import *
from cpv.build import AnalysisBroken
from cpv.ceval import Evaluator, Unknown

CLS = "TeamCityTestOutput"
WRITERS = ["printCurrentTestStarted", "printCurrentTestEnded", "printCurrentGroupStarted", "printCurrentGroupEnded", "printFailure"]
PRINT_CLASSES = ("TestOutput", "ConsoleTestOutput", CLS)
MSG_RE = re.compile(r"^(##teamcity\[[A-Za-z]+( [A-Za-z]+='[^'\[\]|\n\r]*')+\]\n)*$")


def string_print_kind(prog, f, c):
    """classify a call inside a TeamCity writer: ('lit', text) | ('esc', arg) | ('num', arg) | ('raw', arg) | None"""
    nm = prog.callee_name(f, c)
    if nm == CLS + "::printEscaped":
        return ("esc", render(f, f.args(c)[0]))
    if nm and nm.split("::")[-1] in ("print", "printBuffer") and nm.split("::")[0] in PRINT_CLASSES:
        a = f.args(c)
        if not a:
            return None
        at = a[0].get("ct", "")
        if "char" in at and "*" in at:
            lit = f.strip(a[0])
            if lit is not None and lit["k"] == "StringLiteral":
                return ("lit", lit["v"])
            return ("raw", render(f, a[0]))
        return ("num", render(f, a[0]))
    return None


def check(ctx, run):
    prog = ctx.program()
    run.assume("the TeamCity escaping rules are those stated in the property: | before ' | [ ] ; \\n -> |n ; \\r -> |r")
    run.not_decided.append("that the sequence of callbacks a concrete run produces is balanced for every registry (decided structurally in C02.R4 for the registry loop; run-time counts are not decided)")
    run.rule("R1", "TAINT: inside TeamCityTestOutput writers every non-literal string reaching print/printBuffer passes through printEscaped (integers are safe)", floor=12)
    run.rule("R2", "PARTITION: printEscaped folded for each of the 255 non-NUL char values equals the TeamCity escape table; writes stay inside the local buffer", floor=255, exhaustive=True)
    run.rule("R3", "framing: on every path of every writer the emitted text is a sequence of complete ##teamcity[name attr='value' ...]\\n messages; finish uses what start stored; testIgnored iff !willRun()", floor=10)
    run.rule("R4", "pairing: TestResult forwards each start/end callback exactly once; the registry brackets runOneTest with started/ended on the same path", floor=6)

    writers = []
    for w in WRITERS:
        f = prog.fn(CLS + "::" + w)
        writers.append(f)
        run.analysed(f)

    # ---------------- R1 ---------------------------------------------------
    for f in prog.methods_of(CLS):
        if f.name == "printEscaped" or f.kind in ("ctor", "dtor"):
            continue
        for c in f.calls():
            k = string_print_kind(prog, f, c)
            if k is None:
                continue
            if k[0] == "raw":
                run.ob("R1", "string argument %s" % k[1], f.site, False, witness=render(f, c),
                       what="non-literal string printed without printEscaped: a value containing ' ] | or a line break ends the service message early")
            else:
                run.ob("R1", "%s argument %s" % (k[0], short(k[1], 60)), f.site, True, witness=render(f, c))

    def r2():
        # ---------------- R2 ---------------------------------------------------
        pe = prog.fn(CLS + "::printEscaped")
        run.analysed(pe)
        pname = pe.params[0]["name"]
        extents = {}
        for n in pe.walk():
            if n["k"] == "DeclStmt":
                for d in n.get("decls", []):
                    t = prog.types.get(d.get("ct", ""), {})
                    if t.get("k") == "array":
                        extents[d["name"]] = t["extent"]
        special = {ord("'"): "|'", ord("|"): "||", ord("["): "|[", ord("]"): "|]", ord("\n"): "|n", ord("\r"): "|r"}

        def fold_escape(chars):
            """printEscaped folded on the NUL-terminated string `chars` (signed char values): the text handed to printBuffer"""
            env = {pname: ("ptr", "S", 0)}
            for i_, c_ in enumerate(list(chars) + [0]):
                env["S[%d]" % i_] = c_
            out, problems = [], []

            def pb(ev_, *a_):
                v = a_[-1]
                if not (isinstance(v, tuple) and v[0] == "ptr"):
                    problems.append("printBuffer receives %s" % (v,))
                    return 0
                i_, s_ = v[2], ""
                while True:
                    cell = ev_.env.get("%s[%d]" % (v[1], i_))
                    if cell is None:
                        problems.append("buffer byte %d printed uninitialised (no terminator written)" % i_)
                        break
                    if cell == 0:
                        break
                    s_ += chr(cell & 0xff)
                    i_ += 1
                    if i_ > 4096:
                        break
                out.append(s_)
                return 0
            pb.wants_ev = True
            ev = Evaluator(prog, pe, env=env, calls={pc + "::printBuffer": pb for pc in PRINT_CLASSES})
            ev.run_blocks(pe.entry, max_steps=20000)
            for key, v in ev.stores:
                m = re.match(r"(\w+)\[(-?\d+)\]$", key)
                if m and m.group(1) in extents and not (0 <= int(m.group(2)) < extents[m.group(1)]):
                    problems.append("write to %s outside its extent %d" % (key, extents[m.group(1)]))
            return "".join(out), problems

        def expected(chars):
            return "".join(special.get(c_, chr(c_ & 0xff)) for c_ in chars)
        for cv in list(range(-128, 0)) + list(range(1, 128)):
            try:
                got, problems = fold_escape([cv])
            except Unknown as u:
                oob = re.search(r"(?:^|[ :])(S\[-?\d+\])$", str(u))
                if oob:
                    run.ob("R2", "char value %d" % cv, pe.site, False, what="the escaper reads %s, behind the terminating NUL of its input" % oob.group(1))
                    continue
                # the escaper is in a form this rule cannot fold: undecided, never an alarm
                raise AnalysisBroken("printEscaped cannot be folded (%s)" % u)
            exp = expected([cv])
            why = problems[0] if problems else ("" if got == exp else "char %d is emitted as %r, TeamCity rules require %r" % (cv, got, exp))
            run.ob("R2", "char value %d" % cv, pe.site, not why, witness={"char": cv, "emitted": got, "expected": exp}, what=why)
        # strings: every pair of classes next to each other, the empty string, and runs longer than any local buffer
        reps = [ord("a"), ord("'"), ord("|"), ord("["), ord("]"), 10, 13, -23]
        longest = max(extents.values()) if extents else 8
        strs = [[]] + [[a_, b_] for a_ in reps for b_ in reps] + [[ord("x")] * (longest + 3), [ord("x")] * (longest - 1) + [10], [ord("x")] * longest + [ord("|")] + [ord("y")] * (2 * longest + 1), [10] * (longest + 2)]
        bad = None
        try:
            for st_ in strs:
                got, problems = fold_escape(st_)
                if (problems or got != expected(st_)) and bad is None:
                    bad = problems[0] if problems else "%r is emitted as %r, TeamCity rules require %r" % ("".join(chr(c_ & 0xff) for c_ in st_), got, expected(st_))
        except Unknown as u:
            oob = re.search(r"(?:^|[ :])(S\[-?\d+\])$", str(u))
            if oob:
                bad = "the escaper reads %s, behind the terminating NUL of its input" % oob.group(1)
            else:
                raise AnalysisBroken("printEscaped cannot be folded on strings (%s)" % u)
        run.ob("R2", "strings: the empty string, every pair of character classes, runs longer than any local buffer (%d strings)" % len(strs), pe.site, bad is None, witness=bad or "ok", what=bad or "")

    guarded(run, r2)

    # ---------------- R3 ---------------------------------------------------
    for f in writers:
        paths = enumerate_paths(f)
        for p in paths:
            text = ""
            for c in path_calls(prog, f, p):
                k = string_print_kind(prog, f, c)
                if k is None:
                    continue
                if k[0] == "lit":
                    text += k[1]
                elif k[0] == "esc":
                    text += "V"
                elif k[0] == "num":
                    text += "0"
                else:
                    text += "R"
            ok = bool(MSG_RE.match(text))
            run.ob("R3", "framing on path [%s]" % p.describe(f), f.site, ok, witness=text,
                   what="" if ok else "emitted literals do not form complete ##teamcity[...]\\n messages")
            if f.name == "printCurrentTestStarted":
                ign = "testIgnored" in text
                val = p.val()
                wr = [v for k, v in val.items() if k.endswith("willRun()")]
                ok2 = len(wr) == 1 and (ign == (wr[0] is False))
                run.ob("R3", "testIgnored iff !willRun() on path [%s]" % p.describe(f), f.site, ok2, witness=text)
                asg = [(l, render(f, r)) for (l, r, n) in assignments(f, p)]
                pn = f.params[0]["name"]
                run.ob("R3", "start stores the test for the finish message on path [%s]" % p.describe(f), f.site, ("currtest_", "&" + pn) in asg, witness=asg)
    fe = prog.fn(CLS + "::printCurrentTestEnded")
    esc = [string_print_kind(prog, fe, c) for c in fe.calls()]
    esc = [k[1] for k in esc if k and k[0] == "esc"]
    run.ob("R3", "finish names the test stored at start", fe.site, esc == ["currtest_->getName().asCharString()"], witness=esc)
    fg, fge = prog.fn(CLS + "::printCurrentGroupStarted"), prog.fn(CLS + "::printCurrentGroupEnded")
    pn = fg.params[0]["name"]
    asg = [(render(fg, a[0]), render(fg, a[1])) for c in fg.calls() if c["k"] == "CXXOperatorCallExpr" and c.get("callee", {}).get("qn", "").endswith("operator=") for a in [fg.args(c)]]
    run.ob("R3", "suite start stores the group", fg.site, ("currGroup_", pn + ".getGroup()") in asg, witness=asg)
    for g in (fg, fge):
        esc = [string_print_kind(prog, g, c) for c in g.calls()]
        esc = [k[1] for k in esc if k and k[0] == "esc"]
        run.ob("R3", "suite message names the stored group", g.site, esc == ["currGroup_.asCharString()"], witness=esc)

    # the failure message names the open test: printFailure prints getTestNameOnly(), which every TestFailure
    # constructor must fill from the test's plain name (this is what currtest_->getName() printed at start)
    pfn = prog.fn(CLS + "::printFailure")
    esc = [string_print_kind(prog, pfn, c) for c in pfn.calls()]
    esc = [k[1] for k in esc if k and k[0] == "esc"]
    run.ob("R3", "testFailed names the test by getTestNameOnly()", pfn.site, bool(esc) and esc[0] == "failure.getTestNameOnly().asCharString()", witness=esc)
    from .shared import testfailure_ctor_table
    testfailure_ctor_table(prog, run, "R3")
    g = prog.fn("TestFailure::getTestNameOnly")
    rets = [render(g, g.node(n.get("value"))) for n in g.walk() if n["k"] == "ReturnStmt"]
    run.ob("R3", "getTestNameOnly returns testNameOnly_", g.site, rets == ["testNameOnly_"], witness=rets)

    # ---------------- R4 ---------------------------------------------------
    for rq, oq in (("currentTestStarted", "printCurrentTestStarted"), ("currentTestEnded", "printCurrentTestEnded"),
                   ("currentGroupStarted", "printCurrentGroupStarted"), ("currentGroupEnded", "printCurrentGroupEnded")):
        f = prog.fn("TestResult::" + rq)
        run.analysed(f)
        cnt = [len([c for c in path_calls(prog, f, p) if call_name(prog, f, c) == "TestOutput::" + oq]) for p in enumerate_paths(f)]
        run.ob("R4", "TestResult::%s forwards to %s exactly once on every path" % (rq, oq), f.site, cnt and all(x == 1 for x in cnt), witness=cnt)
    reg = prog.fn("TestRegistry::runAllTests")
    run.analysed(reg)
    okp = True
    wit = []
    for p in enumerate_paths(reg):
        names = [call_name(prog, reg, c) for c in path_calls(prog, reg, p)]
        seq = [n.split("::")[-1] for n in names if n and n.split("::")[-1] in ("currentTestStarted", "runOneTest", "currentTestEnded")]
        # must be repetitions of started, runOneTest, ended
        s = " ".join(seq)
        if not re.match(r"^(currentTestStarted runOneTest currentTestEnded ?)*$", s):
            okp = False
            wit.append({"path": p.describe(reg), "sequence": seq})
    run.ob("R4", "registry brackets runOneTest with currentTestStarted/currentTestEnded on every path", reg.site, okp, witness=wit or "all paths")
    from .C02 import group_balance
    group_balance(prog, run, "R4")

"""C20 — TeamCity output: escaping completeness (TAINT), escaper table (PARTITION over all char values),
framing per path, pairing of the callbacks. DESIGN.md section 4, C20."""
import re
from .common import *
from cpv.build import AnalysisBroken
from cpv.ceval import Evaluator, Unknown

CLS = "TeamCityTestOutput"
WRITERS = ["printCurrentTestStarted", "printCurrentTestEnded", "printCurrentGroupStarted", "printCurrentGroupEnded", "printFailure"]
PRINT_CLASSES = ("TestOutput", "ConsoleTestOutput", CLS)
MSG_RE = re.compile(r"^(##teamcity\[[A-Za-z]+( [A-Za-z]+='[^'\[\]|\n\r]*')+\]\n)*$")


def string_print_kind(prog, f, c):
    """classify a call inside a TeamCity writer: ('lit', text) | ('esc', arg) | ('num', arg) | ('raw', arg) | None"""
    nm = prog.callee_name(f, c)
    if nm == CLS + "::printEscaped":
        return ("esc", render(f, f.args(c)[0]))
    if nm and nm.split("::")[-1] in ("print", "printBuffer") and nm.split("::")[0] in PRINT_CLASSES:
        a = f.args(c)
        if not a:
            return None
        at = a[0].get("ct", "")
        if "char" in at and "*" in at:
            lit = f.strip(a[0])
            if lit is not None and lit["k"] == "StringLiteral":
                return ("lit", lit["v"])
            return ("raw", render(f, a[0]))
        return ("num", render(f, a[0]))
    return None


def late_failure_rule(prog, run, rid):
    """Failures that are only discovered after the test body - in a plugin's post action, when the current-test pointer is already
    back at its placeholder - must still be built for the test that is being finished (its testFailed message goes between that
    test's testStarted and testFinished). Decided for the mock plugin: folded, the reporter that is installed while the end-of-test
    expectations are checked answers getTestToFail() (resolved on the reporter's own class, inherited when not overridden) with the
    post action's test."""
    f = prog.fn("MockSupportPlugin::postTestAction")
    run.analysed(f)
    installed, asked = [], []

    def set_reporter(ev_, *a_):
        installed.append((a_[-1], dict(ev_.env)))
        return 0
    set_reporter.wants_ev = True

    def check_expectations(*a_):
        asked.append(installed[-1] if installed else (0, {}))
        return 0
    hooks = string_hooks({"MockSupport::setMockFailureStandardReporter": set_reporter, "mock": lambda *a_: 555, "UtestShell::hasFailed": lambda *a_: 0, "MockSupport::checkExpectations": check_expectations,
                          "MockSupport::clear": lambda *a_: 0, "MockSupport::removeAllComparatorsAndCopiers": lambda *a_: 0})
    TEST, RESULT, CURRENT = 100, 200, 999
    ev = Evaluator(prog, f, env={f.params[0]["name"]: TEST, f.params[1]["name"]: RESULT}, calls=hooks)
    ev.pass_object = True
    ev.objects = True
    ev.heap_mode = True
    ev.inline = {g.qn for g in prog.functions.values() if (g.cls or "") in prog.subclasses("MockFailureReporter") and g.kind == "ctor"}
    try:
        ev.run_blocks(f.entry, max_steps=3000)
    except Unknown as u:
        raise AnalysisBroken("C20.%s: MockSupportPlugin::postTestAction cannot be folded: %s" % (rid, u))
    why, wit = "", {}
    if len(asked) != 1:
        why = "the end-of-test expectations are checked %d times for a test that has not failed" % len(asked)
    else:
        rep, env_then = asked[0]
        cls = next((n.get("ct") for n in f.walk() if n.get("name") == rep and n.get("ct") in prog.records), None) if isinstance(rep, str) else None
        if not rep or cls is None:
            raise AnalysisBroken("C20.%s: the reporter installed for the end-of-test check is not a local object of a known class (%r)" % (rid, rep))
        c, g = cls, None
        while c is not None and g is None:
            g = next((m for m in prog.methods_of(c) if m.name == "getTestToFail"), None)
            c = (prog.records.get(c, {}).get("bases") or [None])[0] if g is None else c
        if g is None:
            raise AnalysisBroken("C20.%s: getTestToFail not found for %s" % (rid, cls))
        run.analysed(g)
        members = {k[len(rep) + 1:]: v for k, v in env_then.items() if k.startswith(rep + ".")}
        e2 = Evaluator(prog, g, env=members, calls={"UtestShell::getCurrent": lambda *a_: CURRENT})
        e2.heap_mode = True
        try:
            e2.run_blocks(g.entry, max_steps=200)
            r = getattr(e2, "ret", None)
        except Unknown as u:
            raise AnalysisBroken("C20.%s: %s cannot be folded: %s" % (rid, g.qn, u))
        refs = {fl["name"] for c_ in [cls] + list(prog.records.get(cls, {}).get("bases", [])) for fl in prog.records.get(c_, {}).get("fields", []) if (fl.get("t") or "").rstrip().endswith("&")}
        if isinstance(r, str) and r in refs and r in members:
            r = members[r]                   # the address of a reference member is the address of the object it is bound to
        wit = {"reporter class": cls, "getTestToFail": g.qn, "answers": "the test of the post action" if r == TEST else ("UtestShell::getCurrent()" if r == CURRENT else r)}
        if r != TEST:
            why = "the reporter installed while the end-of-test expectations are checked (%s) names %s as the test to fail, not the test whose post action runs: the testFailed message does not carry the name of the open test" % (cls, wit["answers"])
    run.ob(rid, "MockSupportPlugin::postTestAction folded: a mock failure found at the end of the test is built for the test that is being finished", f.site, not why, witness=wit or why, what=why)


def check(ctx, run):
    prog = ctx.program()
    run.assume("the TeamCity escaping rules are those stated in the property: | before ' | [ ] ; \\n -> |n ; \\r -> |r")
    run.not_decided.append("that the sequence of callbacks a concrete run produces is balanced for every registry (decided structurally in C02.R4 for the registry loop; run-time counts are not decided)")
    run.rule("R1", "TAINT: inside TeamCityTestOutput writers every non-literal string reaching print/printBuffer passes through printEscaped (integers are safe)", floor=12)
    run.rule("R2", "PARTITION: printEscaped folded for each of the 255 non-NUL char values equals the TeamCity escape table; writes stay inside the local buffer", floor=255, exhaustive=True)
    run.rule("R3", "framing: on every path of every writer the emitted text is a sequence of complete ##teamcity[name attr='value' ...]\\n messages; finish uses what start stored; testIgnored iff !willRun()", floor=10)
    run.rule("R5", "late failures: a failure first discovered in a plugin's post action (the mock plugin's end-of-test check; the leak plugin's is C07.R1) is built for the test that is being finished, so its testFailed message names the open test", floor=1)
    late_failure_rule(prog, run, "R5")
    # a failure is built for "the current test": during a test's run that is the test itself, afterwards the one that was current
    # before (a test that runs a nested test goes on failing under its own name): the runner folded (shared with C01.R5)
    from .C01 import bracketing_rule
    bracketing_rule(prog, run, "R5")
    run.rule("R4", "pairing: TestResult forwards each start/end callback exactly once; the registry brackets runOneTest with started/ended on the same path", floor=6)

    writers = []
    for w in WRITERS:
        f = prog.fn(CLS + "::" + w)
        writers.append(f)
        run.analysed(f)

    # ---------------- R1 ---------------------------------------------------
    for f in prog.methods_of(CLS):
        if f.name == "printEscaped" or f.kind in ("ctor", "dtor"):
            continue
        for c in f.calls():
            k = string_print_kind(prog, f, c)
            if k is None:
                continue
            if k[0] == "raw":
                # a parameter that every caller fills with a string literal is literal text (a helper that prints a
                # fixed opening handed in by its callers)
                a0 = f.strip(f.args(c)[0])
                if a0 is not None and a0["k"] == "DeclRefExpr" and a0.get("dk") == "ParmVar":
                    pi = [i_ for i_, q in enumerate(f.params) if q["name"] == a0.get("name")]
                    sites, allit = [], bool(pi)
                    for g in prog.functions.values():
                        for cc in g.calls():
                            tg = cc.get("callee")
                            if tg and tg.get("mn") == f.mn:
                                arg = g.strip(g.args(cc)[pi[0]]) if pi and pi[0] < len(g.args(cc)) else None
                                sites.append("%s: %s" % (g.qn, render(g, arg) if arg is not None else "?"))
                                if arg is None or arg["k"] != "StringLiteral":
                                    allit = False
                    if allit and sites:
                        run.ob("R1", "string argument %s (a parameter that all %d callers fill with a literal)" % (k[1], len(sites)), f.site, True, witness=sites)
                        continue
                run.ob("R1", "string argument %s" % k[1], f.site, False, witness=render(f, c),
                       what="non-literal string printed without printEscaped: a value containing ' ] | or a line break ends the service message early")
            else:
                run.ob("R1", "%s argument %s" % (k[0], short(k[1], 60)), f.site, True, witness=render(f, c))

    def r2():
        # ---------------- R2 ---------------------------------------------------
        pe = prog.fn(CLS + "::printEscaped")
        run.analysed(pe)
        pname = pe.params[0]["name"]
        extents = {}
        for n in pe.walk():
            if n["k"] == "DeclStmt":
                for d in n.get("decls", []):
                    t = prog.types.get(d.get("ct", ""), {})
                    if t.get("k") == "array":
                        extents[d["name"]] = t["extent"]
        special = {ord("'"): "|'", ord("|"): "||", ord("["): "|[", ord("]"): "|]", ord("\n"): "|n", ord("\r"): "|r"}

        def fold_escape(chars):
            """printEscaped folded on the NUL-terminated string `chars` (signed char values): the text handed to printBuffer"""
            env = {pname: ("ptr", "S", 0)}
            if "SimpleString" in pe.params[0]["ct"]:
                # the text arrives as a string object: its buffer is the modelled array (member names from the class itself)
                flds = prog.records.get("SimpleString", {}).get("fields", [])
                bufs = [fl["name"] for fl in flds if fl.get("ct", "").replace("const ", "").strip() == "char *"]
                sizes_ = [fl["name"] for fl in flds if fl.get("ct", "") == "unsigned long"]
                if len(bufs) != 1 or len(sizes_) != 1:
                    raise AnalysisBroken("C20: SimpleString no longer has one buffer pointer and one size member")
                env = {pname + "." + bufs[0]: ("ptr", "S", 0), pname + "." + sizes_[0]: len(chars) + 1}
            for i_, c_ in enumerate(list(chars) + [0]):
                env["S[%d]" % i_] = c_
            out, problems = [], []

            def pb(ev_, *a_):
                v = a_[-1]
                if not (isinstance(v, tuple) and v[0] == "ptr"):
                    problems.append("printBuffer receives %s" % (v,))
                    return 0
                i_, s_ = v[2], ""
                while True:
                    cell = ev_.env.get("%s[%d]" % (v[1], i_))
                    if cell is None:
                        problems.append("buffer byte %d printed uninitialised (no terminator written)" % i_)
                        break
                    if cell == 0:
                        break
                    s_ += chr(cell & 0xff)
                    i_ += 1
                    if i_ > 4096:
                        break
                out.append(s_)
                return 0
            pb.wants_ev = True
            ev = Evaluator(prog, pe, env=env, calls={pc + "::printBuffer": pb for pc in PRINT_CLASSES})
            ev.inline = {"SimpleString::asCharString", "SimpleString::getBuffer", "SimpleString::size", "SimpleString::at", "SimpleString::isEmpty"}
            ev.run_blocks(pe.entry, max_steps=20000)
            for key, v in ev.stores:
                m = re.match(r"(\w+)\[(-?\d+)\]$", key)
                if m and m.group(1) in extents and not (0 <= int(m.group(2)) < extents[m.group(1)]):
                    problems.append("write to %s outside its extent %d" % (key, extents[m.group(1)]))
            return "".join(out), problems

        def expected(chars):
            return "".join(special.get(c_, chr(c_ & 0xff)) for c_ in chars)
        for cv in list(range(-128, 0)) + list(range(1, 128)):
            try:
                got, problems = fold_escape([cv])
            except Unknown as u:
                oob = re.search(r"(?:^|[ :])(S\[-?\d+\])$", str(u))
                if oob:
                    run.ob("R2", "char value %d" % cv, pe.site, False, what="the escaper reads %s, behind the terminating NUL of its input" % oob.group(1))
                    continue
                # the escaper is in a form this rule cannot fold: undecided, never an alarm
                raise AnalysisBroken("printEscaped cannot be folded (%s)" % u)
            exp = expected([cv])
            why = problems[0] if problems else ("" if got == exp else "char %d is emitted as %r, TeamCity rules require %r" % (cv, got, exp))
            run.ob("R2", "char value %d" % cv, pe.site, not why, witness={"char": cv, "emitted": got, "expected": exp}, what=why)
        # strings: every pair of classes next to each other, the empty string, and runs longer than any local buffer
        reps = [ord("a"), ord("'"), ord("|"), ord("["), ord("]"), 10, 13, -23]
        longest = max(extents.values()) if extents else 8
        strs = [[]] + [[a_, b_] for a_ in reps for b_ in reps] + [[ord("x")] * (longest + 3), [ord("x")] * (longest - 1) + [10], [ord("x")] * longest + [ord("|")] + [ord("y")] * (2 * longest + 1), [10] * (longest + 2)]
        bad = None
        try:
            for st_ in strs:
                got, problems = fold_escape(st_)
                if (problems or got != expected(st_)) and bad is None:
                    bad = problems[0] if problems else "%r is emitted as %r, TeamCity rules require %r" % ("".join(chr(c_ & 0xff) for c_ in st_), got, expected(st_))
        except Unknown as u:
            oob = re.search(r"(?:^|[ :])(S\[-?\d+\])$", str(u))
            if oob:
                bad = "the escaper reads %s, behind the terminating NUL of its input" % oob.group(1)
            else:
                raise AnalysisBroken("printEscaped cannot be folded on strings (%s)" % u)
        run.ob("R2", "strings: the empty string, every pair of character classes, runs longer than any local buffer (%d strings)" % len(strs), pe.site, bad is None, witness=bad or "ok", what=bad or "")

    guarded(run, r2)

    # ---------------- R3 ---------------------------------------------------
    # every writer folded with names that contain every special character; the emitted text must parse as complete
    # service messages whose decoded attribute values are the original strings
    NAME, OTHER, GROUP = "na'me|[x]\nq\rz", "other", "gr'p|"
    MSG = re.compile(r"##teamcity\[(\w+)((?: \w+='(?:\|.|[^'|\[\]\n\r])*')*)\]\n")
    ATTR = re.compile(r" (\w+)='((?:\|.|[^'|\[\]\n\r])*)'")

    def decode(v):
        return re.sub(r"\|(.)", lambda m: {"n": "\n", "r": "\r"}.get(m.group(1), m.group(1)), v)

    def parse_messages(text):
        out, pos = [], 0
        while pos < len(text):
            m = MSG.match(text, pos)
            if not m:
                return None
            out.append((m.group(1), {k: decode(v) for k, v in ATTR.findall(m.group(2))}))
            pos = m.end()
        return out

    def fold_writer(fname, env, answers=None):
        answers = answers or {}
        f = prog.fn(CLS + "::" + fname)
        out = []

        def pr(ev_, *a_):
            v = a_[-1]
            if isinstance(v, tuple) and v[0] == "str":
                out.append(v[1])
            elif isinstance(v, tuple) and v[0] == "ptr":
                i_, s_ = v[2], ""
                while ev_.env.get("%s[%d]" % (v[1], i_)) not in (None, 0):
                    s_ += chr(ev_.env["%s[%d]" % (v[1], i_)] & 0xff)
                    i_ += 1
                out.append(s_)
            elif isinstance(v, int):
                out.append(str(v))
            else:
                raise Unknown("print of %r" % (v,))
            return 0
        pr.wants_ev = True
        names = {100: NAME, 200: OTHER, 300: ""}
        groups = {100: GROUP, 200: "x]y", 300: ""}
        hooks = string_hooks({"UtestShell::getName": lambda o, *a_: ("str", names.get(o, "?")), "UtestShell::getGroup": lambda o, *a_: ("str", groups.get(o, GROUP)), "UtestShell::willRun": lambda *a_: answers.get("willRun", 1),
                              "TestResult::getCurrentTestTotalExecutionTime": lambda *a_: 123, "TestResult::getCurrentGroupTotalExecutionTime": lambda *a_: 456,
                              "TestFailure::getTestNameOnly": lambda *a_: ("str", NAME), "TestFailure::getFileName": lambda *a_: ("str", "fi'le.cpp"), "TestFailure::getFailureLineNumber": lambda *a_: 7,
                              "TestFailure::getMessage": lambda *a_: ("str", "mess]age\nline2"), "TestFailure::getTestFileName": lambda *a_: ("str", "te|st.cpp"), "TestFailure::getTestLineNumber": lambda *a_: 3,
                              "TestFailure::isOutsideTestFile": lambda *a_: answers.get("outside", 0), "TestFailure::isInHelperFunction": lambda *a_: answers.get("helper", 0)})
        for pc in PRINT_CLASSES:
            hooks[pc + "::print"] = pr
            hooks[pc + "::printBuffer"] = pr
        ev = Evaluator(prog, f, env=dict({q["name"]: answers.get("arg", 100) for q in f.params}, **env), calls=hooks)
        ev.pass_object = True
        ev.heap_mode = True             # (objects are their addresses: the address of a test reference is that test)
        ev.inline = {g.qn for g in prog.functions.values() if g.qn.startswith(CLS + "::") and g.name not in ("print", "printBuffer")}
        ev.run_blocks(f.entry, max_steps=30000)
        pnames = {q["name"] for q in f.params}
        # (what is carried to the next call: the object's state - not the parameters, not the fold's own string-literal memory)
        return "".join(out), {k_: v_ for k_, v_ in ev.env.items() if k_.split(".")[0].split("[")[0] not in pnames and not re.match(r"^L\d+\[", k_)}
    # histories of writer calls on one output object (its state is what its own constructor and the earlier calls left: no private
    # member is named here): each call emits exactly the expected messages; a finish names what the matching start announced
    from .common import object_state
    try:
        state0 = object_state(prog, CLS, [], [], steps=[], hooks=string_hooks({"ConsoleTestOutput::ConsoleTestOutput": lambda *a_: 0, "TestOutput::TestOutput": lambda *a_: 0}))
    except Unknown as u:
        raise AnalysisBroken("C20.R3: the output object cannot be built by folding its constructor: %s" % u)
    T1, T2, T3 = 100, 200, 300            # tests: (NAME, GROUP), (OTHER, "x]y"), ("", "")
    HISTORIES = [
        ("a test that runs: finish names the test announced at start",
         [("printCurrentTestStarted", T1, {"willRun": 1}, [("testStarted", {"name": NAME})]), ("printCurrentTestEnded", T1, {}, [("testFinished", {"name": NAME, "duration": "123"})])]),
        ("an ignored test (testIgnored iff !willRun())",
         [("printCurrentTestStarted", T1, {"willRun": 0}, [("testStarted", {"name": NAME}), ("testIgnored", {"name": NAME})]), ("printCurrentTestEnded", T1, {}, [("testFinished", {"name": NAME, "duration": "123"})])]),
        ("two tests in a row: each finish names its own start",
         [("printCurrentTestStarted", T1, {}, [("testStarted", {"name": NAME})]), ("printCurrentTestEnded", T1, {}, [("testFinished", {"name": NAME, "duration": "123"})]),
          ("printCurrentTestStarted", T2, {}, [("testStarted", {"name": OTHER})]), ("printCurrentTestEnded", T2, {}, [("testFinished", {"name": OTHER, "duration": "123"})])]),
        ("a test with an empty name is started and finished like any other",
         [("printCurrentTestStarted", T3, {}, [("testStarted", {"name": ""})]), ("printCurrentTestEnded", T3, {}, [("testFinished", {"name": "", "duration": "123"})])]),
        ("a suite: start names the group, finish names the same group",
         [("printCurrentGroupStarted", T1, {}, [("testSuiteStarted", {"name": GROUP})]), ("printCurrentGroupEnded", T1, {}, [("testSuiteFinished", {"name": GROUP})])]),
        ("two suites in a row, then the first one again (a second run with the same output object): every finish has its start",
         [("printCurrentGroupStarted", T1, {}, [("testSuiteStarted", {"name": GROUP})]), ("printCurrentGroupEnded", T1, {}, [("testSuiteFinished", {"name": GROUP})]),
          ("printCurrentGroupStarted", T2, {}, [("testSuiteStarted", {"name": "x]y"})]), ("printCurrentGroupEnded", T2, {}, [("testSuiteFinished", {"name": "x]y"})]),
          ("printCurrentGroupStarted", T2, {}, [("testSuiteStarted", {"name": "x]y"})]), ("printCurrentGroupEnded", T2, {}, [("testSuiteFinished", {"name": "x]y"})]),
          ("printCurrentGroupStarted", T1, {}, [("testSuiteStarted", {"name": GROUP})]), ("printCurrentGroupEnded", T1, {}, [("testSuiteFinished", {"name": GROUP})])]),
    ]
    for desc, calls_ in HISTORIES:
        st, why, texts = dict(state0), "", []
        for k_, (fname, arg, ans, want) in enumerate(calls_):
            try:
                text, st = fold_writer(fname, st, dict(ans, arg=arg))
            except Unknown as u:
                raise AnalysisBroken("C20.R3: %s cannot be folded (call %d of the history '%s'): %s" % (fname, k_ + 1, desc, u))
            texts.append(text)
            msgs = parse_messages(text)
            if msgs is None:
                why = why or "call %d (%s): the emitted text does not form complete ##teamcity[...]\\n messages: %r" % (k_ + 1, fname, text)
            elif msgs != want:
                why = why or "call %d (%s): messages %s, expected %s (attribute values decoded)" % (k_ + 1, fname, msgs, want)
        run.ob("R3", "writers folded in sequence: %s" % desc, CLS + "::" + calls_[0][0], not why, witness="".join(texts), what=why)
    for outside, helper in ((0, 0), (1, 0), (0, 1)):
        try:
            text, env_after = fold_writer("printFailure", {}, {"outside": outside, "helper": helper})
        except Unknown as u:
            run.broke("C20.R3: printFailure cannot be folded: %s" % u)
            continue
        msgs = parse_messages(text)
        ok = msgs is not None and len(msgs) == 1 and msgs[0][0] == "testFailed" and msgs[0][1].get("name") == NAME and msgs[0][1].get("details") == "mess]age\nline2" \
            and "fi'le.cpp:7" in msgs[0][1].get("message", "") and ((not (outside or helper)) or "te|st.cpp:3" in msgs[0][1].get("message", ""))
        run.ob("R3", "printFailure folded [outside test file=%d, helper=%d]: one testFailed message whose name, location and details decode to the failure's own strings" % (outside, helper), CLS + "::printFailure", ok,
               witness=text, what="" if ok else "the message does not decode to the failure's strings (or is not one complete message): %r" % text)

    # the failure message names the open test: printFailure prints getTestNameOnly(), which every TestFailure
    # constructor must fill from the test's plain name (this is what currtest_->getName() printed at start)
    from .shared import testfailure_ctor_table
    testfailure_ctor_table(prog, run, "R3")
    g = prog.fn("TestFailure::getTestNameOnly")
    rets = getter_fold(prog, g, "testNameOnly_", token=("str", "token-424242"))
    run.ob("R3", "getTestNameOnly returns testNameOnly_ (folded)", g.site, rets == ("str", "token-424242"), witness=rets)

    # ---------------- R4 ---------------------------------------------------
    for rq, oq in (("currentTestStarted", "printCurrentTestStarted"), ("currentTestEnded", "printCurrentTestEnded"),
                   ("currentGroupStarted", "printCurrentGroupStarted"), ("currentGroupEnded", "printCurrentGroupEnded")):
        f = prog.fn("TestResult::" + rq)
        run.analysed(f)
        cnt = [len([c for c in path_calls(prog, f, p) if call_name(prog, f, c) == "TestOutput::" + oq]) for p in enumerate_paths(f)]
        run.ob("R4", "TestResult::%s forwards to %s exactly once on every path" % (rq, oq), f.site, cnt and all(x == 1 for x in cnt), witness=cnt)
    reg = prog.fn("TestRegistry::runAllTests")
    run.analysed(reg)
    okp = True
    wit = []
    for p in enumerate_paths(reg):
        names = [call_name(prog, reg, c) for c in path_calls(prog, reg, p)]
        seq = [n.split("::")[-1] for n in names if n and n.split("::")[-1] in ("currentTestStarted", "runOneTest", "currentTestEnded")]
        # must be repetitions of started, runOneTest, ended
        s = " ".join(seq)
        if not re.match(r"^(currentTestStarted runOneTest currentTestEnded ?)*$", s):
            okp = False
            wit.append({"path": p.describe(reg), "sequence": seq})
    run.ob("R4", "registry brackets runOneTest with currentTestStarted/currentTestEnded on every path", reg.site, okp, witness=wit or "all paths")
    from .C02 import group_balance
    group_balance(prog, run, "R4")

"""C20 — TeamCity output: escaping completeness (TAINT), escaper table (PARTITION over all char values),
framing per path, pairing of the callbacks. DESIGN.md section 4, C20."""
import re
from .common import *
from cpv.build import AnalysisBroken
from cpv.ceval import Evaluator, Unknown

CLS = "TeamCityTestOutput"
WRITERS = ["printCurrentTestStarted", "printCurrentTestEnded", "printCurrentGroupStarted", "printCurrentGroupEnded", "printFailure"]
PRINT_CLASSES = ("TestOutput", "ConsoleTestOutput", CLS)
MSG_RE = re.compile(r"^(##teamcity\[[A-Za-z]+( [A-Za-z]+='[^'\[\]|\n\r]*')+\]\n)*$")


def string_print_kind(prog, f, c):
    """classify a call inside a TeamCity writer: ('lit', text) | ('esc', arg) | ('num', arg) | ('raw', arg) | None"""
    nm = prog.callee_name(f, c)
    if nm == CLS + "::printEscaped":
        return ("esc", render(f, f.args(c)[0]))
    if nm and nm.split("::")[-1] in ("print", "printBuffer") and nm.split("::")[0] in PRINT_CLASSES:
        a = f.args(c)
        if not a:
            return None
        at = a[0].get("ct", "")
        if "char" in at and "*" in at:
            lit = f.strip(a[0])
            if lit is not None and lit["k"] == "StringLiteral":
                return ("lit", lit["v"])
            return ("raw", render(f, a[0]))
        return ("num", render(f, a[0]))
    return None


def check(ctx, run):
    prog = ctx.program()
    run.assume("the TeamCity escaping rules are those stated in the property: | before ' | [ ] ; \\n -> |n ; \\r -> |r")
    run.not_decided.append("that the sequence of callbacks a concrete run produces is balanced for every registry (decided structurally in C02.R4 for the registry loop; run-time counts are not decided)")
    run.rule("R1", "TAINT: inside TeamCityTestOutput writers every non-literal string reaching print/printBuffer passes through printEscaped (integers are safe)", floor=12)
    run.rule("R2", "PARTITION: printEscaped folded for each of the 255 non-NUL char values equals the TeamCity escape table; writes stay inside the local buffer", floor=255, exhaustive=True)
    run.rule("R3", "framing: on every path of every writer the emitted text is a sequence of complete ##teamcity[name attr='value' ...]\\n messages; finish uses what start stored; testIgnored iff !willRun()", floor=10)
    run.rule("R4", "pairing: TestResult forwards each start/end callback exactly once; the registry brackets runOneTest with started/ended on the same path", floor=6)

    writers = []
    for w in WRITERS:
        f = prog.fn(CLS + "::" + w)
        writers.append(f)
        run.analysed(f)

    # ---------------- R1 ---------------------------------------------------
    for f in prog.methods_of(CLS):
        if f.name == "printEscaped" or f.kind in ("ctor", "dtor"):
            continue
        for c in f.calls():
            k = string_print_kind(prog, f, c)
            if k is None:
                continue
            if k[0] == "raw":
                run.ob("R1", "string argument %s" % k[1], f.site, False, witness=render(f, c),
                       what="non-literal string printed without printEscaped: a value containing ' ] | or a line break ends the service message early")
            else:
                run.ob("R1", "%s argument %s" % (k[0], short(k[1], 60)), f.site, True, witness=render(f, c))

    def r2():
        # ---------------- R2 ---------------------------------------------------
        pe = prog.fn(CLS + "::printEscaped")
        run.analysed(pe)
        pname = pe.params[0]["name"]
        # loop head: block whose condition is *s
        head = None
        for b in pe.blocks.values():
            if b.get("cond") is not None and len(b["succ"]) == 2 and b["id"] in loop_blocks(pe):
                key, pol = atom(pe, pe.nodes[b["cond"]])
                if key == "*" + pname:
                    head = b
        if head is None:
            raise AnalysisBroken("printEscaped: loop on *%s not found" % pname)
        body_entry = head["succ"][0]
        # local buffers and their extents
        extents = {}
        for n in pe.walk():
            if n["k"] == "DeclStmt":
                for d in n.get("decls", []):
                    t = prog.types.get(d.get("ct", ""), {})
                    if t.get("k") == "array":
                        extents[d["name"]] = t["extent"]
        special = {ord("'"): "|'", ord("|"): "||", ord("["): "|[", ord("]"): "|]", ord("\n"): "|n", ord("\r"): "|r"}
        for cv in list(range(-128, 0)) + list(range(1, 128)):
            ev = Evaluator(prog, pe, env={"*" + pname: cv, pname: 1000})
            snaps = []

            def pb(*a, ev=ev, snaps=snaps):
                snaps.append(dict(ev.env))
                return 0
            for pc in PRINT_CLASSES:
                ev.calls[pc + "::printBuffer"] = pb
            ok, why, wit = True, "", None
            try:
                end, visited = ev.run_blocks(body_entry, stop_blocks={head["id"]})
            except Unknown as u:
                # the escaper is not in the per-character form this rule can fold: undecided, never an alarm
                raise AnalysisBroken("printEscaped: cannot fold the loop body per character (%s); the escaper was restructured beyond the idiom R2 decides" % u)
            if ok:
                # what was printed
                out = []
                for snap, (nm, args, node) in zip(snaps, [t for t in ev.trace if t[0] and t[0].endswith("printBuffer")]):
                    buf = render(pe, pe.args(node)[0])
                    i = 0
                    s = ""
                    while True:
                        v = snap.get("%s[%d]" % (buf, i))
                        if v is None:
                            ok, why = False, "buffer byte %d printed uninitialised (no terminator written)" % i
                            break
                        if v == 0:
                            break
                        s += chr(v & 0xff)
                        i += 1
                        if i > 8:
                            break
                    out.append(s)
                for key, v in ev.stores:
                    m = re.match(r"(\w+)\[(-?\d+)\]$", key)
                    if m and m.group(1) in extents and not (0 <= int(m.group(2)) < extents[m.group(1)]):
                        ok, why = False, "write to %s outside its extent %d" % (key, extents[m.group(1)])
                got = "".join(out)
                exp = special.get(cv, chr(cv & 0xff))
                wit = {"char": cv, "emitted": got, "expected": exp}
                if ok and got != exp:
                    ok, why = False, "char %d is emitted as %r, TeamCity rules require %r" % (cv, got, exp)
                if ok and end != head["id"]:
                    ok, why = False, "loop body does not return to the loop head"
                # the pointer advances exactly once
                adv = [k for k, v in ev.stores if k == pname]
                if ok and len(adv) != 1:
                    ok, why = False, "input pointer advanced %d times in one iteration" % len(adv)
            run.ob("R2", "char value %d" % cv, pe.site, ok, witness=wit, what=why)

    guarded(run, r2)

    # ---------------- R3 ---------------------------------------------------
    for f in writers:
        paths = enumerate_paths(f)
        for p in paths:
            text = ""
            for c in path_calls(prog, f, p):
                k = string_print_kind(prog, f, c)
                if k is None:
                    continue
                if k[0] == "lit":
                    text += k[1]
                elif k[0] == "esc":
                    text += "V"
                elif k[0] == "num":
                    text += "0"
                else:
                    text += "R"
            ok = bool(MSG_RE.match(text))
            run.ob("R3", "framing on path [%s]" % p.describe(f), f.site, ok, witness=text,
                   what="" if ok else "emitted literals do not form complete ##teamcity[...]\\n messages")
            if f.name == "printCurrentTestStarted":
                ign = "testIgnored" in text
                val = p.val()
                wr = [v for k, v in val.items() if k.endswith("willRun()")]
                ok2 = len(wr) == 1 and (ign == (wr[0] is False))
                run.ob("R3", "testIgnored iff !willRun() on path [%s]" % p.describe(f), f.site, ok2, witness=text)
                asg = [(l, render(f, r)) for (l, r, n) in assignments(f, p)]
                pn = f.params[0]["name"]
                run.ob("R3", "start stores the test for the finish message on path [%s]" % p.describe(f), f.site, ("currtest_", "&" + pn) in asg, witness=asg)
    fe = prog.fn(CLS + "::printCurrentTestEnded")
    esc = [string_print_kind(prog, fe, c) for c in fe.calls()]
    esc = [k[1] for k in esc if k and k[0] == "esc"]
    run.ob("R3", "finish names the test stored at start", fe.site, esc == ["currtest_->getName().asCharString()"], witness=esc)
    fg, fge = prog.fn(CLS + "::printCurrentGroupStarted"), prog.fn(CLS + "::printCurrentGroupEnded")
    pn = fg.params[0]["name"]
    asg = [(render(fg, a[0]), render(fg, a[1])) for c in fg.calls() if c["k"] == "CXXOperatorCallExpr" and c.get("callee", {}).get("qn", "").endswith("operator=") for a in [fg.args(c)]]
    run.ob("R3", "suite start stores the group", fg.site, ("currGroup_", pn + ".getGroup()") in asg, witness=asg)
    for g in (fg, fge):
        esc = [string_print_kind(prog, g, c) for c in g.calls()]
        esc = [k[1] for k in esc if k and k[0] == "esc"]
        run.ob("R3", "suite message names the stored group", g.site, esc == ["currGroup_.asCharString()"], witness=esc)

    # the failure message names the open test: printFailure prints getTestNameOnly(), which every TestFailure
    # constructor must fill from the test's plain name (this is what currtest_->getName() printed at start)
    pfn = prog.fn(CLS + "::printFailure")
    esc = [string_print_kind(prog, pfn, c) for c in pfn.calls()]
    esc = [k[1] for k in esc if k and k[0] == "esc"]
    run.ob("R3", "testFailed names the test by getTestNameOnly()", pfn.site, bool(esc) and esc[0] == "failure.getTestNameOnly().asCharString()", witness=esc)
    from .shared import testfailure_ctor_table
    testfailure_ctor_table(prog, run, "R3")
    g = prog.fn("TestFailure::getTestNameOnly")
    rets = [render(g, g.node(n.get("value"))) for n in g.walk() if n["k"] == "ReturnStmt"]
    run.ob("R3", "getTestNameOnly returns testNameOnly_", g.site, rets == ["testNameOnly_"], witness=rets)

    # ---------------- R4 ---------------------------------------------------
    for rq, oq in (("currentTestStarted", "printCurrentTestStarted"), ("currentTestEnded", "printCurrentTestEnded"),
                   ("currentGroupStarted", "printCurrentGroupStarted"), ("currentGroupEnded", "printCurrentGroupEnded")):
        f = prog.fn("TestResult::" + rq)
        run.analysed(f)
        cnt = [len([c for c in path_calls(prog, f, p) if call_name(prog, f, c) == "TestOutput::" + oq]) for p in enumerate_paths(f)]
        run.ob("R4", "TestResult::%s forwards to %s exactly once on every path" % (rq, oq), f.site, cnt and all(x == 1 for x in cnt), witness=cnt)
    reg = prog.fn("TestRegistry::runAllTests")
    run.analysed(reg)
    okp = True
    wit = []
    for p in enumerate_paths(reg):
        names = [call_name(prog, reg, c) for c in path_calls(prog, reg, p)]
        seq = [n.split("::")[-1] for n in names if n and n.split("::")[-1] in ("currentTestStarted", "runOneTest", "currentTestEnded")]
        # must be repetitions of started, runOneTest, ended
        s = " ".join(seq)
        if not re.match(r"^(currentTestStarted runOneTest currentTestEnded ?)*$", s):
            okp = False
            wit.append({"path": p.describe(reg), "sequence": seq})
    run.ob("R4", "registry brackets runOneTest with currentTestStarted/currentTestEnded on every path", reg.site, okp, witness=wit or "all paths")
    from .C02 import group_balance
    group_balance(prog, run, "R4")

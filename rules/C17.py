"""C17 — pointers set for a test are restored; plugin actions nest. DESIGN.md section 4, C17."""
import re
import itertools
from .common import *
from cpv.graph import field_writers
from .shared import plugin_chain_order, plugin_chain, this_view, member_by_type
from cpv.ceval import Evaluator, Unknown

UNIT = "src/CppUTest/TestPlugin.cpp"


def global_writers(prog, name):
    out = []
    for f in prog.functions.values():
        for n in f.walk():
            tgt = None
            if n["k"] in ("BinaryOperator", "CompoundAssignOperator") and n.get("op", "").endswith("=") and n["op"] not in ("==", "!=", "<=", ">="):
                tgt = f.node(n.get("lhs"))
            elif n["k"] == "UnaryOperator" and n.get("op") in ("++", "--"):
                tgt = n["c"][0]
            if tgt is not None:
                t = f.strip(tgt)
                if t is not None and t["k"] == "DeclRefExpr" and t["name"] == name and t.get("global"):
                    out.append((f, n))
    return out


def check(ctx, run):
    prog = ctx.program()
    run.assume("UtestShell::fail (the expansion of FAIL) never returns to the caller (C01.R3)")
    run.not_decided.append("that tests do not call CppUTestStore re-entrantly from other threads; values of the redirected pointers")
    run.rule("R1", "table bounds: the stores into the pointer table are dominated by index >= extent => FAIL, the bound equals the array extent (the documented limit is usable in full), the index is advanced only there and reset only by the constructor and the post action", floor=5)
    run.rule("R2", "restore: the post action walks [0, index) downwards writing each saved value back through its saved address, then resets the index on every exit; the store saves (*function, function); UT_PTR_SET stores before assigning", floor=4)
    run.rule("R3", "chain order: pre action head first, post action tail first, disabled plugins skip only themselves, NullTestPlugin ends the chain; installPlugin inserts at the head", floor=8)
    run.rule("R5", "chain walkers agree: every TestPlugin method that does not handle a request locally hands it to next_; removePluginByName unlinks exactly the matched node", floor=5)

    st = prog.fn("CppUTestStore")
    run.analysed(st)
    # ---------------- R1 ----------------------------------------------------
    arr = [g for g in prog.globals.get("setlist", []) if g["file"] == UNIT]
    if not arr:
        raise AnalysisBroken("pointer table setlist not found")
    ext = prog.types.get(arr[0]["ct"], {}).get("extent")
    maxset = [e["v"] for en in prog.enums.values() for e in en["enumerators"] if e["qn"].endswith("SetPointerPlugin::MAX_SET")]
    run.ob("R1", "table extent equals MAX_SET", UNIT + ":setlist", bool(maxset) and ext == maxset[0], witness={"extent": ext, "MAX_SET": maxset})

    class Halt(Exception):
        pass

    def fold_store(idx):
        def fail(*a_):
            raise Halt("fail")
        ev = Evaluator(prog, st, env={"pointerTableIndex": idx, st.params[0]["name"]: ("ptr", "P", 0), "P[0]": 4242}, calls={"UtestShell::fail": fail})
        ev.heap_mode = True
        try:
            ev.run_blocks(st.entry, max_steps=300)
            failed = False
        except Halt:
            failed = True
        stores = {k: v for k, v in ev.stores if k.startswith("setlist[")}
        return failed, stores, ev.env.get("pointerTableIndex"), [k for k, v in ev.stores]
    try:
        for idx in (0, 1, ext // 2, ext - 2, ext - 1):
            failed, stores, after, order = fold_store(idx)
            want = {"setlist[%d].orig_value" % idx: 4242, "setlist[%d].orig" % idx: ("ptr", "P", 0)}
            ok = not failed and stores == want
            run.ob("R1", "store at index %d (below MAX_SET = %d) is accepted and writes entry %d only" % (idx, ext, idx), st.site, ok, witness={"failed": failed, "stores": {k: str(v) for k, v in stores.items()}},
                   what="" if ok else ("bound checked rejects index %d, array extent and documented limit are %d" % (idx, ext) if failed else "stores %s" % sorted(stores)))
            last_store = max([i for i, k in enumerate(order) if k.startswith("setlist[")] or [-1])
            inc_at = [i for i, k in enumerate(order) if k == "pointerTableIndex"]
            run.ob("R1", "store at index %d: the index advances by one after the entry is recorded" % idx, st.site, after == idx + 1 and inc_at and min(inc_at) > last_store, witness={"index_after": after, "order": order})
            run.ob("R2", "store at index %d: the entry saves the pointer's address and its current value" % idx, st.site, stores == want, witness={k: str(v) for k, v in stores.items()})
        for idx in (ext, ext + 1, 1000):
            failed, stores, after, order = fold_store(idx)
            run.ob("R1", "store at index %d (full table) fails the test before any store" % idx, st.site, failed and not stores and after == idx, witness={"failed": failed, "stores": sorted(stores)},
                   what="" if failed and not stores else "index %d is written although the table has %d entries" % (idx, ext))
    except Unknown as u:
        run.broke("C17.R1: CppUTestStore cannot be folded: %s" % u)
    ws = []
    for f, n in global_writers(prog, "pointerTableIndex"):
        d = delta_of(f, n, "pointerTableIndex")
        if d is not None:
            ws.append((f.qn, "+%d" % d[1] if d[1] > 0 else "%d" % d[1]))
        else:
            c = const_value(f, f.node(n["rhs"])) if n.get("rhs") is not None else None
            ws.append((f.qn, "= %s" % (c if c is not None else render(f, f.node(n.get("rhs"))))))
    ws = sorted(set(ws))
    allowed = {("CppUTestStore", "+1"), ("SetPointerPlugin::SetPointerPlugin", "= 0"), ("SetPointerPlugin::postTestAction", "= 0")}
    run.ob("R1", "pointerTableIndex is advanced only by CppUTestStore and reset only by the constructor and the post action", UNIT + ":pointerTableIndex", set(ws) == allowed, witness=[list(w) for w in ws])

    # ---------------- R2 ----------------------------------------------------
    po = prog.fn("SetPointerPlugin::postTestAction")
    run.analysed(po)
    bad = None
    try:
        # entries: (pointer, saved value); the same pointer may be redirected more than once in a test
        # (also the table filled to its last and to its full extent: every one of the MAX_SET slots is a usable entry)
        full = [("P%d" % k_, 200 + k_) for k_ in range(ext)]
        for entries in ([], [("Q0", 100)], [("Q0", 100), ("Q1", 101)], [("Q0", 100), ("Q1", 101), ("Q0", 102)], [("Q2", 5), ("Q2", 6), ("Q2", 7), ("Q3", 8)], full[:ext - 1], full):
            env = {"pointerTableIndex": len(entries)}
            for i_, (q, v) in enumerate(entries):
                env["setlist[%d].orig" % i_] = ("ptr", q, 0)
                env["setlist[%d].orig_value" % i_] = v
                env["%s[0]" % q] = 9999
            # entries above the index hold stale data that must not be written back
            if len(entries) < ext:
                env["setlist[%d].orig" % len(entries)] = ("ptr", "STALE", 0)
                env["setlist[%d].orig_value" % len(entries)] = 1
            env["STALE[0]"] = 9999
            ev = Evaluator(prog, po, env=env)
            ev.run_blocks(po.entry, max_steps=4000)
            want = {}
            for q, v in reversed(entries):
                want[q] = v          # the oldest entry of a pointer is written last
            got = {q: ev.env.get("%s[0]" % q) for q in want}
            why = ""
            if got != want:
                why = "pointers end as %s, expected their values before the test %s" % (got, want)
            elif ev.env.get("STALE[0]") != 9999 or [k for k, v in ev.stores if k.startswith("setlist[")]:
                why = "an entry above the index is written back, or the table itself is modified"
            elif ev.env.get("pointerTableIndex") != 0:
                why = "the index is %s after the post action" % ev.env.get("pointerTableIndex")
            if why and bad is None:
                bad = "%d entries %s: %s" % (len(entries), entries[:4], why if len(entries) < 8 else "pointers %s are not restored" % sorted(q for q in want if got.get(q) != want[q])[:4])
    except Unknown as u:
        run.broke("C17.R2: the restoring post action cannot be folded: %s" % u)
    run.ob("R2", "restore folded over tables of 0..4 entries (incl. a pointer redirected several times) and over the table filled to MAX_SET-1 and MAX_SET entries: every pointer gets back the value it had before the test, entries above the index are ignored", po.site, bad is None, witness=bad or "7 tables",
           what="" if bad is None else "a pointer redirected twice in one test would not get its first value back, or entries are skipped: " + bad)
    # (the index is 0 after the post action in every one of the folded tables above: the reset is part of that obligation)
    # UT_PTR_SET: its expansion folded in a witness unit parsed against the current headers (one function per use): the location is
    # handed to CppUTestStore while it still holds the old value, then the new value is assigned
    import os
    wp = ctx.witness(os.path.join(os.path.dirname(os.path.dirname(os.path.abspath(__file__))), "witness", "C17_macros.cpp"))
    nw = 0
    for wf in sorted((g for g in wp.functions.values() if g.qn.startswith("w_UT_PTR_SET")), key=lambda g: g.line):
        nw += 1
        seen = []

        def store(ev_, *a_):
            seen.append((a_[-1], dict(ev_.env)))
            return 0
        store.wants_ev = True
        env = {"number_slot": 111, "slot": ("fn", "old")}
        env.update({q["name"]: 222 for q in wf.params})
        ev = Evaluator(wp, wf, env=env, calls={"CppUTestStore": store})
        try:
            ev.run_blocks(wf.entry, max_steps=300)
        except Unknown as u:
            raise AnalysisBroken("C17.R2: the expansion of UT_PTR_SET cannot be folded (%s): %s" % (wf.qn, u))
        var = "number_slot" if wf.params else "slot"
        old, new_ = env[var], (222 if wf.params else ("fn", "replacement"))
        why = ""
        if len(seen) != 1 or seen[0][0] != ("ref", var):
            why = "the location is not handed to CppUTestStore exactly once (%s)" % [x[0] for x in seen]
        elif seen[0][1].get(var) != old:
            why = "when the location is recorded it already holds %s: the value saved is not the one before the test" % (seen[0][1].get(var),)
        elif ev.env.get(var) != new_:
            why = "the location holds %s afterwards, the new value is %s" % (ev.env.get(var), new_)
        run.ob("R2", "UT_PTR_SET folded (%s pointer): records the location while it still holds the old value, then assigns the new one" % ("data" if wf.params else "function"), "include/CppUTest/TestPlugin.h:UT_PTR_SET", not why,
               witness=why or {"recorded": str(seen[0][0]), "value then": str(seen[0][1].get(var)), "value after": str(ev.env.get(var))}, what=why)
    if nw < 2:
        raise AnalysisBroken("C17.R2: witness functions for UT_PTR_SET not found")

    # ---------------- R3 ----------------------------------------------------
    plugin_chain_order(prog, run, "R3")
    # the chain a test is handed is the registry's chain at that moment: a plugin installed (or all plugins reset) while a run is in
    # progress - by a test body or a plugin action - is seen by the tests that follow
    from .shared import registry_fold
    rt_ = prog.fn("TestRegistry::runAllTests")
    run.analysed(rt_)
    for desc, during, want in (("a plugin installed while the first of three tests runs", {0: [("installPlugin", [71])]}, [70, 71, 71]),
                               ("two plugins installed while the first and the second of three tests run", {0: [("installPlugin", [71])], 1: [("installPlugin", [72])]}, [70, 71, 72]),
                               ("all plugins reset while the second of three tests runs", {1: [("resetPlugins", [])]}, [70, 70, 9000]),
                               ("nothing changes", {}, [70, 70, 70])):
        try:
            log_, _ = registry_fold(prog, [("G", 1), ("G", 1), ("G", 1)], during=during)
            got = [e_[2] for e_ in log_ if e_[0] == "runOneTest"]
            if [e_[1] for e_ in log_ if e_[0] == "runOneTest"] != [0, 1, 2]:
                raise Unknown("the folded run does not run the three selected tests once each in order (that is C02's subject): %s" % [e_[:2] for e_ in log_ if e_[0] == "runOneTest"])
        except Unknown as u:
            raise AnalysisBroken("C17.R3: the registry run cannot be folded with the plugin chain changing under it: %s" % u)
        run.ob("R3", "runAllTests folded, %s: every test is handed the chain head the registry has when that test starts" % desc, rt_.site, got == want, witness={"handed": got, "chain heads": want},
               what="" if got == want else "tests are handed %s, the registry's chain heads at those moments are %s: an installed plugin misses pre/post actions (or a removed one still gets them)" % (got, want))
    ip = prog.fn("TestRegistry::installPlugin")
    run.analysed(ip)
    TPINL = {g.qn for g in prog.functions.values() if g.qn.startswith("TestPlugin::")}
    try:
        NEXT, FIRST = member_by_type(prog, "TestPlugin", "TestPlugin *"), member_by_type(prog, "TestRegistry", "TestPlugin *")
        cenv, _ = plugin_chain(prog, ["A", "B", "N"], addrs={"A": 5000, "B": 6000, "N": 8000}, null_addr=9000)
        cenv["@8000." + NEXT] = 777      # (the plugin to install is not linked to anything yet)
        cenv["@6000." + NEXT] = 9000
        cenv.update({FIRST: 5000, ip.params[0]["name"]: 8000})
        ev = Evaluator(prog, ip, env=cenv)
        ev.heap_mode = True
        ev.inline = TPINL
        ev.run_blocks(ip.entry, max_steps=300)
        got = (ev.env.get(FIRST), ev.env.get("@8000." + NEXT), ev.env.get("@5000." + NEXT))
    except Unknown as u:
        got = "unknown: %s" % u
    run.ob("R3", "installPlugin inserts at the head of the chain", ip.site, got == (8000, 5000, 6000), witness={"(first plugin, its successor, old head's successor)": got},
           what="" if got == (8000, 5000, 6000) else "the installed plugin does not become the first plugin with the old chain behind it")
    ap = prog.fn("TestPlugin::addPlugin")
    run.analysed(ap)
    try:
        cenv, _ = plugin_chain(prog, ["N"], addrs={"N": 8000}, null_addr=9000)
        env_ = this_view(cenv, 8000)
        env_[ap.params[0]["name"]] = 5000
        ev = Evaluator(prog, ap, env=env_)
        ev.heap_mode = True
        ev.run_blocks(ap.entry, max_steps=200)
        got = (getattr(ev, "ret", None), ev.env.get(NEXT))
    except Unknown as u:
        got = "unknown: %s" % u
    run.ob("R3", "addPlugin links the given chain behind this plugin and returns this", ap.site, got == (8000, 5000), witness={"(returns, successor)": got})
    # the runner passes this test and its result to both chain walkers, on the chain it was given: the runner folded
    from .C01 import bracketing_rule
    bracketing_rule(prog, run, "R3")

    # ---------------- R5 ----------------------------------------------------
    CH = {"A": 5000, "B": 6000, "C": 7000, "NullPlugin": 9000}

    def chain3(names=("A", "B", "C", "NullPlugin")):
        real = [n_ for n_ in names if n_ != "NullPlugin"]
        cenv, _ = plugin_chain(prog, real, addrs={n_: CH[n_] for n_ in real}, null_addr=CH["NullPlugin"])
        return this_view(cenv, CH[names[0]])
    gp = prog.fn("TestPlugin::getPluginByName")
    run.analysed(gp)
    bad = None
    try:
        for names in (("A", "B", "C", "NullPlugin"), ("A", "NullPlugin"), ("NullPlugin",)):
            for target in ("A", "B", "C", "null", "none"):      # (the terminator built by its own constructor is called "null")
                env = chain3(names)
                env[gp.params[0]["name"]] = ("str", target)
                ev = Evaluator(prog, gp, env=env, calls=string_hooks())
                ev.heap_mode = True
                ev.pass_object = True
                ev.inline = TPINL
                ev.run_blocks(gp.entry, max_steps=2000)
                r = getattr(ev, "ret", None)
                want = CH["NullPlugin"] if target == "null" else (CH[target] if target in names else 0)
                if r != want and bad is None:
                    bad = "chain %s, asking for %r: returns %s, expected %s" % (list(names), target, r, want)
    except Unknown as u:
        bad = "the walk cannot be folded: %s" % u
    run.ob("R5", "getPluginByName folded over chains of 1..4 plugins x every name: the plugin of that name wherever it stands, NULL when there is none", gp.site, bad is None, witness=bad or "15 cases",
           what="" if bad is None else "a plugin further down the chain is never examined: " + bad)
    pa = [f for f in prog.fns("TestPlugin::parseAllArguments") if "const char *const *" in f.d["sig"]][0]
    run.analysed(pa)
    bad = None
    try:
        for pattern in itertools.product((0, 1), repeat=3):
            asked = []
            answers = dict(zip((5000, 6000, 7000), pattern))

            def own(ev_, *a_):
                o = ev_.env.get("this")
                asked.append((o,) + tuple(a_[-3:]))
                return answers.get(o, 0)
            own.wants_ev = True
            env = chain3()
            env.update(dict(zip([q["name"] for q in pa.params], (4, ("ptr", "AV", 0), 2))))
            ev = Evaluator(prog, pa, env=env, calls={"TestPlugin::parseArguments": own, "NullTestPlugin::parseArguments": own})
            ev.heap_mode = True
            ev.pass_object = True
            ev.dyn_type = {5000: "TestPlugin", 6000: "TestPlugin", 7000: "TestPlugin", 9000: "NullTestPlugin"}
            ev.inline = {g.qn for g in prog.functions.values() if g.qn.startswith(("TestPlugin::", "NullTestPlugin::"))} - set(ev.calls)
            ev.run_blocks(pa.entry, max_steps=2000)
            r = getattr(ev, "ret", None)
            first = next((i_ for i_, v in enumerate(pattern) if v), None)
            want_asked = [5000, 6000, 7000][:first + 1] if first is not None else [5000, 6000, 7000, 9000]
            got_asked = [x[0] for x in asked]
            if (r != (1 if first is not None else 0) or got_asked[:3] != want_asked[:3] or any(x[1:] != (4, ("ptr", "AV", 0), 2) for x in asked)) and bad is None:
                bad = "plugins answering %s: returns %s after asking %s; expected %d after asking %s with the caller's (ac, av, index)" % (list(pattern), r, got_asked, 1 if first is not None else 0, want_asked)
    except Unknown as u:
        bad = "the walk cannot be folded: %s" % u
    run.ob("R5", "parseAllArguments folded over a chain of 3 plugins x 8 answer patterns: every plugin is asked in chain order until one accepts; accepted iff one accepts", pa.site, bad is None, witness=bad or "8 patterns",
           what="" if bad is None else "a plugin further down the chain is never asked, or asked after another accepted: " + bad)
    rm = prog.fn("TestPlugin::removePluginByName")
    rr = prog.fn("TestRegistry::removePluginByName")
    run.analysed(rm)
    run.analysed(rr)
    ADDR = {"A": 5000, "B": 6000, "C": 7000, "D": 7500, "E": 7800, "NullPlugin": 8000}

    def chain_env(names):
        real = [n_ for n_ in names if n_ != "NullPlugin"]
        cenv, _ = plugin_chain(prog, real, addrs={n_: ADDR[n_] for n_ in real}, null_addr=ADDR["NullPlugin"])
        return cenv

    def walk(env, head):
        out, cur = [], head
        while cur and len(out) < 10:
            out.append([k for k, v in ADDR.items() if v == cur][0] if cur in ADDR.values() else cur)
            cur = env.get("@%d.%s" % (cur, NEXT))
        return out
    PINL = {g.qn for g in prog.functions.values() if g.qn.startswith("TestPlugin::") and g.name in ("removePluginByName", "getPluginByName", "getNext", "getName")}
    bad = None
    try:
        for names in (["A", "B", "C", "D", "E", "NullPlugin"], ["A", "B", "C", "NullPlugin"], ["A", "NullPlugin"], ["NullPlugin"]):
            for target in ("A", "B", "C", "D", "E", "none"):
                env = chain_env(names)
                env[FIRST] = ADDR[names[0]]
                env[rr.params[0]["name"]] = ("str", target)
                ev = Evaluator(prog, rr, env=env, calls=string_hooks({"NullTestPlugin::instance": lambda *a_: ADDR["NullPlugin"]}))
                ev.heap_mode = True
                ev.pass_object = True
                ev.inline = PINL
                try:
                    ev.run_blocks(rr.entry, max_steps=3000)
                except Unknown as u:
                    if "unbounded recursion" in str(u):
                        bad = bad or "chain %s, removing %r: the walk along next_ does not end (the chain has become cyclic)" % (names, target)
                        continue
                    raise
                got = walk(ev.env, ev.env.get(FIRST))
                want = [x for x in names if x != target]
                if got != want and bad is None:
                    bad = "chain %s, removing %r: the chain becomes %s, expected %s" % (names, target, got, want)
    except Unknown as u:
        run.broke("C17.R5: plugin removal cannot be folded over the chain model: %s" % u)
    run.ob("R5", "removePluginByName folded over chains of 1..6 plugins x every target: exactly the named plugin is unlinked (head, middle, last, absent), all others stay in order", rr.site, bad is None, witness=bad or "24 cases",
           what="" if bad is None else "other plugins are cut off the chain, or the named one stays: " + bad)
    bad = None
    try:
        for target in ("A", "B", "C"):
            env = this_view(chain_env(["A", "B", "C", "NullPlugin"]), ADDR["A"])
            # the chain method on the head plugin: returns the removed node
            env[rm.params[0]["name"]] = ("str", target)
            ev = Evaluator(prog, rm, env=env, calls=string_hooks())
            ev.heap_mode = True
            ev.pass_object = True
            ev.inline = PINL
            ev.run_blocks(rm.entry, max_steps=3000)
            r = getattr(ev, "ret", None)
            want = 0 if target == "A" else ADDR[target]
            if r != want and bad is None:
                bad = "removing %r from behind the head returns %s, expected %s" % (target, r, want)
    except Unknown as u:
        run.broke("C17.R5: TestPlugin::removePluginByName cannot be folded: %s" % u)
    run.ob("R5", "TestPlugin::removePluginByName returns the plugin it unlinked (NULL when none of its successors carries the name)", rm.site, bad is None, witness=bad or "3 cases", what=bad or "")
    gp = prog.fn("TestRegistry::getPluginByName")
    bad = None
    try:
        for target, want in (("A", ADDR["A"]), ("C", ADDR["C"]), ("none", 0)):
            env = chain_env(["A", "B", "C", "NullPlugin"])
            env[FIRST] = ADDR["A"]
            env[gp.params[0]["name"]] = ("str", target)
            ev = Evaluator(prog, gp, env=env, calls=string_hooks())
            ev.heap_mode = True
            ev.pass_object = True
            ev.inline = TPINL
            ev.run_blocks(gp.entry, max_steps=2000)
            if getattr(ev, "ret", None) != want and bad is None:
                bad = "asking the registry for %r returns %s, expected %s" % (target, getattr(ev, "ret", None), want)
    except Unknown as u:
        bad = "cannot be folded: %s" % u
    run.ob("R5", "the registry looks a plugin up from the head of the chain", gp.site, bad is None, witness=bad or "3 lookups")

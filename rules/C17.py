"""C17 — pointers set for a test are restored; plugin actions nest. DESIGN.md section 4, C17."""
import re
from .common import *
from cpv.graph import field_writers
from .shared import plugin_chain_order

UNIT = "src/CppUTest/TestPlugin.cpp"


def global_writers(prog, name):
    out = []
    for f in prog.functions.values():
        for n in f.walk():
            tgt = None
            if n["k"] in ("BinaryOperator", "CompoundAssignOperator") and n.get("op", "").endswith("=") and n["op"] not in ("==", "!=", "<=", ">="):
                tgt = f.node(n.get("lhs"))
            elif n["k"] == "UnaryOperator" and n.get("op") in ("++", "--"):
                tgt = n["c"][0]
            if tgt is not None:
                t = f.strip(tgt)
                if t is not None and t["k"] == "DeclRefExpr" and t["name"] == name and t.get("global"):
                    out.append((f, n))
    return out


def check(ctx, run):
    prog = ctx.program()
    run.assume("UtestShell::fail (the expansion of FAIL) never returns to the caller (C01.R3)")
    run.not_decided.append("that tests do not call CppUTestStore re-entrantly from other threads; values of the redirected pointers")
    run.rule("R1", "table bounds: the stores into the pointer table are dominated by index >= extent => FAIL, the bound equals the array extent (the documented limit is usable in full), the index is advanced only there and reset only by the constructor and the post action", floor=5)
    run.rule("R2", "restore: the post action walks [0, index) downwards writing each saved value back through its saved address, then resets the index on every exit; the store saves (*function, function); UT_PTR_SET stores before assigning", floor=4)
    run.rule("R3", "chain order: pre action head first, post action tail first, disabled plugins skip only themselves, NullTestPlugin ends the chain; installPlugin inserts at the head", floor=8)
    run.rule("R5", "chain walkers agree: every TestPlugin method that does not handle a request locally hands it to next_; removePluginByName unlinks exactly the matched node", floor=5)

    st = prog.fn("CppUTestStore")
    run.analysed(st)
    # ---------------- R1 ----------------------------------------------------
    arr = [g for g in prog.globals.get("setlist", []) if g["file"] == UNIT]
    if not arr:
        raise AnalysisBroken("pointer table setlist not found")
    ext = prog.types.get(arr[0]["ct"], {}).get("extent")
    maxset = [e["v"] for en in prog.enums.values() for e in en["enumerators"] if e["qn"].endswith("SetPointerPlugin::MAX_SET")]
    run.ob("R1", "table extent equals MAX_SET", UNIT + ":setlist", bool(maxset) and ext == maxset[0], witness={"extent": ext, "MAX_SET": maxset})

    def stop_fail(f, n):
        return n["k"] in CALL_KINDS and (prog.callee_name(f, n) or "") == "UtestShell::fail"
    for p in enumerate_paths(st, stop=stop_fail):
        stores = [l for l, r, n in assignments(st, p) if l.startswith("setlist[")]
        # bound from the guard node
        guard = None
        for k, v, b, cn in p.decisions:
            leaf = st.nodes[cn]
            leaf = st.strip(leaf, casts=False)
            if leaf is not None and leaf["k"] == "BinaryOperator" and leaf.get("op") in (">=", "<", ">", "<=") and render(st, st.node(leaf["lhs"])) == "pointerTableIndex":
                bound = const_value(st, st.node(leaf["rhs"]))
                ak, apol = atom(st, leaf)
                truth = (v == apol) if ak == k else None
                guard = (leaf["op"], bound, truth)
        if p.end == "stop":
            ok = not stores and guard is not None and ((guard[0] == ">=" and guard[2] is True) or (guard[0] == "<" and guard[2] is False)) and guard[1] == ext
            run.ob("R1", "full table fails the test before any store", st.site, ok, witness={"guard": guard, "stores": stores},
                   what="" if ok else "the failing path is not exactly index >= %s" % ext)
        else:
            ok = guard is not None and ((guard[0] == ">=" and guard[2] is False) or (guard[0] == "<" and guard[2] is True)) and guard[1] == ext \
                and all(s.startswith("setlist[pointerTableIndex].") for s in stores) and len(stores) == 2
            run.ob("R1", "stores use an index known to be below the extent, and every index below MAX_SET is accepted", st.site, ok, witness={"guard": guard, "stores": stores},
                   what="" if ok else "bound checked is %s, array extent and documented limit are %s" % (guard[1] if guard else None, ext))
            seq = []
            for e in p.trace:
                if isinstance(e, int):
                    n = st.nodes[e]
                    if n["k"] == "BinaryOperator" and n.get("op") == "=" and render(st, st.node(n["lhs"])).startswith("setlist["):
                        seq.append("store")
                    if n["k"] == "UnaryOperator" and n.get("op") == "++" and render(st, n["c"][0]) == "pointerTableIndex":
                        seq.append("inc")
            run.ob("R1", "the index advances by one after the entry is recorded", st.site, seq == ["store", "store", "inc"], witness=seq)
            pairs = {l.split(".")[-1]: render(st, r) for l, r, n in assignments(st, p) if l.startswith("setlist[")}
            fn = st.params[0]["name"]
            run.ob("R2", "the entry saves the pointer's address and its current value", st.site, pairs == {"orig_value": "*" + fn, "orig": fn}, witness=pairs)
    ws = sorted({(f.qn, render(f, n)) for f, n in global_writers(prog, "pointerTableIndex")})
    allowed = {("CppUTestStore", "pointerTableIndex++"), ("SetPointerPlugin::SetPointerPlugin", "(pointerTableIndex = 0)"), ("SetPointerPlugin::postTestAction", "(pointerTableIndex = 0)")}
    run.ob("R1", "pointerTableIndex is advanced only by CppUTestStore and reset only by the constructor and the post action", UNIT + ":pointerTableIndex", set(ws) == allowed, witness=[list(w) for w in ws])

    # ---------------- R2 ----------------------------------------------------
    po = prog.fn("SetPointerPlugin::postTestAction")
    run.analysed(po)
    ini = {k: render(po, v) for k, v in local_inits(po).items()}
    loops = loop_blocks(po)
    heads = [b for b in po.blocks.values() if b["id"] in loops and b.get("cond") is not None]
    iv = [k for k, v in ini.items() if v == "(pointerTableIndex - 1)"]
    ok = len(heads) == 1 and len(iv) == 1
    w = {"init": ini}
    if ok:
        i_ = iv[0]
        cond = atom(po, po.nodes[heads[0]["cond"]])
        steps = [render(po, n) for n in po.walk() if n["k"] == "UnaryOperator" and n.get("op") in ("++", "--") and render(po, n["c"][0]) == i_]
        body = [(l, render(po, r)) for l, r, n in assignments(po) if l != "pointerTableIndex"]
        w.update({"cond": cond, "step": steps, "body": body})
        ok = cond == ("(%s < 0)" % i_, False) and steps in (["%s--" % i_], ["--%s" % i_]) and [(l.replace("(void **)", ""), r) for l, r in body] == [("*setlist[%s].orig" % i_, "setlist[%s].orig_value" % i_)]
    run.ob("R2", "restore walks the entries from the newest to the oldest and writes orig_value back through orig", po.site, ok, witness=w,
           what="" if ok else "a pointer redirected twice in one test would not get its first value back, or entries are skipped")
    okr = True
    for p in enumerate_paths(po):
        a = [(l, render(po, r)) for l, r, n in assignments(po, p)]
        if not a or a[-1] != ("pointerTableIndex", "0"):
            okr = False
    run.ob("R2", "the index is reset to 0 on every exit of the post action", po.site, okr)
    m = prog.macros.get("UT_PTR_SET", [])
    body = m[0]["body"] if m else ""
    i1, i2 = body.find("CppUTestStore"), body.find("( a ) = b") if "( a ) = b" in body else body.replace(" ", "").find("(a)=b")
    compact = body.replace(" ", "")
    ok = "CppUTestStore((void**)&(a));(a)=b;" in compact
    run.ob("R2", "UT_PTR_SET records the old value before assigning the new one", "include/CppUTest/TestPlugin.h:UT_PTR_SET", ok, witness=body)

    # ---------------- R3 ----------------------------------------------------
    plugin_chain_order(prog, run, "R3")
    ip = prog.fn("TestRegistry::installPlugin")
    run.analysed(ip)
    a = [(l, render(ip, r)) for l, r, n in assignments(ip)]
    run.ob("R3", "installPlugin inserts at the head of the chain", ip.site, a == [("firstPlugin_", "%s->addPlugin(firstPlugin_)" % ip.params[0]["name"])], witness=a)
    ap = prog.fn("TestPlugin::addPlugin")
    a = [(l, render(ap, r)) for l, r, n in assignments(ap)]
    rets = [render(ap, ap.node(n.get("value"))) for n in ap.walk() if n["k"] == "ReturnStmt"]
    run.ob("R3", "addPlugin links the given chain behind this plugin and returns this", ap.site, a == [("next_", ap.params[0]["name"])] and rets == ["this"], witness={"assign": a, "returns": rets})
    for fn_, post in (("UtestShell::runOneTestInCurrentProcess", None),):
        f = prog.fn(fn_)
        cs = [render(f, c) for c in f.calls() if render(f, c).startswith("plugin->runAll")]
        run.ob("R3", "the runner passes this test and its result to both chain walkers", f.site, cs == ["plugin->runAllPreTestAction(*this, result)", "plugin->runAllPostTestAction(*this, result)"], witness=cs)

    # ---------------- R5 ----------------------------------------------------
    for meth in ("getPluginByName", "removePluginByName"):
        f = prog.fn("TestPlugin::" + meth)
        run.analysed(f)
        pn = f.params[0]["name"]
        ok = True
        wit = []
        for p in enumerate_paths(f):
            val = p.val()
            names = [render(f, c) for c in path_calls(prog, f, p)]
            deleg = [n for n in names if n == "next_->%s(%s)" % (meth, pn)]
            matched_here = any(v for k, v in val.items() if "==" in k and "name" in k.lower())
            has_next = val.get("next_")
            wit.append({"path": p.describe(f), "delegates": len(deleg)})
            if not matched_here and has_next is True and len(deleg) != 1:
                ok = False
            if matched_here and deleg:
                ok = False
        run.ob("R5", "%s delegates along next_ whenever it does not handle the request itself" % meth, f.site, ok, witness=wit,
               what="" if ok else "a plugin further down the chain is never examined")
    pa = [f for f in prog.fns("TestPlugin::parseAllArguments") if "const char *const *" in f.d["sig"]][0]
    run.analysed(pa)
    ok = True
    for p in enumerate_paths(pa):
        val = p.val()
        own = [v for k, v in val.items() if k.startswith("parseArguments(")]
        names = [render(pa, c) for c in path_calls(prog, pa, p)]
        deleg = [n for n in names if n.startswith("next_->parseAllArguments(")]
        if own == [False] and val.get("next_") is True and len(deleg) != 1:
            ok = False
        if own == [True] and deleg:
            ok = False
    run.ob("R5", "parseAllArguments delegates along next_ whenever its own parser declines", pa.site, ok)
    rm = prog.fn("TestPlugin::removePluginByName")
    for p in enumerate_paths(rm):
        val = p.val()
        a = [(l, render(rm, r)) for l, r, n in assignments(rm, p)]
        matched = any(v for k, v in val.items() if "getName()" in k)
        if matched:
            ok = [x for x in a if x[0] != "removed"] == [("next_", "next_->next_")] and ("removed", "next_") in a and a.index(("removed", "next_")) < a.index(("next_", "next_->next_"))
            rv = render(rm, rm.node(p.ret.get("value"))) if p.ret is not None else None
            run.ob("R5", "removePluginByName unlinks exactly the matched successor and returns it", rm.site, ok and rv == "removed", witness=a,
                   what="" if ok else "the match branch stores more than `next_ = next_->next_`: other plugins are cut off the chain")
    rr = prog.fn("TestRegistry::removePluginByName")
    run.analysed(rr)
    cs = [render(rr, c) for c in rr.calls()]
    pn = rr.params[0]["name"]
    ok = "firstPlugin_->removePluginByName(%s)" % pn in cs and any("firstPlugin_->getName()" in c for c in cs)
    run.ob("R5", "the registry removes a matching head itself and asks the chain for the rest", rr.site, ok, witness=cs)
    gp = prog.fn("TestRegistry::getPluginByName")
    rets = [render(gp, gp.node(n.get("value"))) for n in gp.walk() if n["k"] == "ReturnStmt"]
    run.ob("R5", "the registry looks a plugin up from the head of the chain", gp.site, rets == ["firstPlugin_->getPluginByName(%s)" % gp.params[0]["name"]], witness=rets)

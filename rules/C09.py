"""C09 — mock parameter values compare by mathematical value (PARTITION over tag pairs + RANGE over cast chains).
DESIGN.md section 4, C09."""
import re
from .common import *
from cpv.ranges import type_range, cast_chain, apply_chain
from cpv.ceval import Evaluator, Unknown

INT_TAGS = ["int", "unsigned int", "long int", "unsigned long int", "long long int", "unsigned long long int"]
OTHER_TAGS = ["bool", "double", "const char*", "void*", "const void*", "void (*)()", "const unsigned char*"]
# union members with identical object representation that may stand in for each other (one line of reason each)
MEMBER_ALIASES = {("const void*", "pointerValue_"): "void* and const void* members of the union share representation; getConstPointerValue reads pointerValue_"}
GETTERS = {"getIntValue": "int", "getUnsignedIntValue": "unsigned int", "getLongIntValue": "long int", "getUnsignedLongIntValue": "unsigned long int",
           "getLongLongIntValue": "long long int", "getUnsignedLongLongIntValue": "unsigned long long int"}
OTHER_GETTERS = {"getBoolValue": "bool", "getDoubleValue": "double", "getDoubleTolerance": "double", "getStringValue": "const char*", "getPointerValue": "void*",
                 "getConstPointerValue": "const void*", "getFunctionPointerValue": "void (*)()", "getMemoryBuffer": "const unsigned char*"}


def opcall(f, n, names):
    return n is not None and n["k"] == "CXXOperatorCallExpr" and n.get("callee") and n["callee"]["qn"].split("::")[-1] in names


def tag_table(prog):
    """tag literal -> (union member path, parameter ctype) extracted from the setValue/setMemoryBuffer overloads"""
    tab = {}
    for f in prog.functions.values():
        if f.cls != "MockNamedValue" or f.name not in ("setValue", "setMemoryBuffer"):
            continue
        tag = None
        for c in f.calls():
            if opcall(f, c, ("operator=",)):
                a = f.args(c)
                if render(f, a[0]) == "type_":
                    lit = f.strip(a[1])
                    while lit is not None and lit["k"] in ("CXXConstructExpr",) and f.args(lit):
                        lit = f.strip(f.args(lit)[0])
                    if lit is not None and lit["k"] == "StringLiteral":
                        tag = lit["v"]
        if tag is None:
            continue
        for l, r, n in assignments(f):
            if l.startswith("value_.") and f.params and render(f, r, keep_explicit_casts=False) == f.params[0]["name"]:
                tab[tag] = (l[len("value_."):], f.params[0]["ct"], f)
    return tab


def make_decider(t1, t2, pname):
    def lit_of(s):
        m = re.match(r'^SimpleString\("(.*)"\)$', s)
        return m.group(1) if m else None

    def decide(f, cn):
        n = f.strip(cn, casts=True)
        neg = False
        while n is not None and n["k"] == "UnaryOperator" and n.get("op") == "!":
            neg = not neg
            n = f.strip(n["c"][0], casts=True)
        if not opcall(f, n, ("operator==", "operator!=")):
            return None
        a = [render(f, x) for x in f.args(n)]
        if n["callee"]["qn"].endswith("operator!="):
            neg = not neg
        val = None
        sides = {"type_": t1, pname + ".type_": t2}
        if a[0] in sides and a[1] in sides:
            val = sides[a[0]] == sides[a[1]]
        else:
            for x, y in ((a[0], a[1]), (a[1], a[0])):
                if x in sides and lit_of(y) is not None:
                    val = sides[x] == lit_of(y)
        if val is None:
            return None
        return (not val) if neg else val
    return decide


def conjuncts(f, n):
    n = f.strip(n, casts=False)
    while n is not None and n["k"] == "ImplicitCastExpr":
        n = f.strip(n["c"][0], casts=False)
    if n is not None and n["k"] == "BinaryOperator" and n.get("op") == "&&":
        return conjuncts(f, f.node(n["lhs"])) + conjuncts(f, f.node(n["rhs"]))
    return [n]


def narrow(prog, g, leaf, member, rng, truth=True):
    """narrow the range of `member` by a comparison `member' OP constant` that holds (member' = member through
    value-preserving casts)"""
    leaf = g.strip(leaf, casts=False) if leaf is not None else None
    while leaf is not None and leaf["k"] == "ImplicitCastExpr":
        leaf = g.strip(leaf["c"][0], casts=False)
    if leaf is None or leaf["k"] != "BinaryOperator" or leaf.get("op") not in (">=", "<=", "<", ">"):
        return rng
    op = leaf["op"]
    if not truth:
        op = {">=": "<", "<=": ">", "<": ">=", ">": "<="}[op]
    l, r = g.node(leaf["lhs"]), g.node(leaf["rhs"])
    cl, cr = const_value(g, l), const_value(g, r)
    if cr is None and cl is not None:
        l, r, cr = r, l, cl
        op = {">=": "<=", "<=": ">=", "<": ">", ">": "<"}[op]
    if cr is None:
        return rng
    ll, chain = cast_chain(g, l)
    if render(g, ll) != member:
        return rng
    ok, _, _ = apply_chain(prog, rng, chain)
    if not ok:
        return rng
    lo, hi = rng
    if op == ">=":
        lo = max(lo, cr)
    elif op == ">":
        lo = max(lo, cr + 1)
    elif op == "<=":
        hi = min(hi, cr)
    elif op == "<":
        hi = min(hi, cr - 1)
    return (lo, hi)


def integer_equality_rules(prog, run, rid1, rid2, rid3):
    """R1-R3 (shared with C08): the comparison equals() selects for every ordered pair of integer tags, folded over
    boundary values and 2^32/2^64 aliases, is true exactly for mathematically equal stored integers.
    Returns (boundary, tab, eq, pname, returns_for) for the rules that build on it."""
    eq = prog.fn("MockNamedValue::equals")
    run.analysed(eq)
    pname = eq.params[0]["name"]
    tab = tag_table(prog)
    missing = [t for t in INT_TAGS + OTHER_TAGS if t not in tab]
    if missing:
        raise AnalysisBroken("tag table incomplete: no setValue overload found for %s" % missing)

    def returns_for(t1, t2):
        rets = {}
        for p in enumerate_paths(eq, decide=make_decider(t1, t2, pname), stop=lambda f, n: False):
            if p.ret is not None:
                rets[p.ret["id"]] = p.ret
            else:
                rets[-1] = None
        return list(rets.values())
    # ---------------- R1/R2/R3 -------------------------------------------------
    def boundary(lo, hi):
        vs = set()
        for base in (0, 1 << 7, 1 << 8, 1 << 15, 1 << 16, 1 << 31, 1 << 32, 1 << 63, 1 << 64):
            for d in (-2, -1, 0, 1, 2, 5):
                vs |= {base + d, -base + d}
        vs |= {lo, lo + 1, hi, hi - 1, 42, -42}
        return sorted(v for v in vs if lo <= v <= hi)

    def aliases(v, lo, hi):
        """values of the other operand's type that a lossy conversion would confuse with v"""
        out = set()
        for k in (32, 64):
            for m in (-2, -1, 1, 2):
                out.add(v + m * (1 << k))
            out.add(v & ((1 << k) - 1))
            out.add((v & ((1 << k) - 1)) - (1 << k))
        return {x for x in out if lo <= x <= hi}
    for t1 in INT_TAGS:
        for t2 in INT_TAGS:
            inst = "%s vs %s" % (t1, t2)
            rets = returns_for(t1, t2)
            if len(rets) != 1 or rets[0] is None:
                run.ob(rid1, inst, eq.site, False, what="pair does not select a single return statement", witness=[render(eq, r) if r else None for r in rets])
                continue
            E = eq.node(rets[0].get("value"))
            txt = render(eq, E)
            m1, c1 = tab[t1][0], tab[t1][1]
            m2, c2 = tab[t2][0], tab[t2][1]
            r1, r2 = type_range(prog, c1), type_range(prog, c2)
            S1 = boundary(*r1)
            foreign, wrong, never_true = None, None, True
            ncmp = 0
            for v1 in S1:
                S2 = sorted(set(boundary(*r2)) | aliases(v1, *r2) | ({v1} if r2[0] <= v1 <= r2[1] else set()))
                for v2 in S2:
                    ev = Evaluator(prog, eq, env={"value_." + m1: v1, "%s.value_.%s" % (pname, m2): v2})
                    try:
                        got = ev.ev(E)
                    except Unknown as u:
                        foreign = foreign or str(u)
                        continue
                    ncmp += 1
                    if got:
                        never_true = False
                    if bool(got) != (v1 == v2) and wrong is None:
                        wrong = (v1, v2, bool(got))
                if foreign:
                    break
            if foreign:
                fm = re.search(r"value_\.(\w+)", foreign)
                if fm and not const_value(eq, E) == 0:
                    run.ob(rid1, inst, eq.site, True, witness=txt)
                    run.ob(rid2, inst, eq.site, False, witness={"expr": txt, "members": {"this": m1, "other": m2}},
                           what="the comparison reads %s; the tags store into value_.%s and %s.value_.%s" % (foreign, m1, pname, m2))
                else:
                    run.broke("C09: the comparison selected for %s cannot be folded: %s (%s)" % (inst, foreign, txt))
                continue
            if never_true:
                run.ob(rid1, inst, eq.site, False, witness=txt, what="no comparison of the two stored integers is selected for this type pair (falls through to %s)" % txt)
                continue
            run.ob(rid1, inst, eq.site, True, witness=txt)
            run.ob(rid2, inst, eq.site, True, witness={"expr": txt, "members": {"this": m1, "other": m2}})
            why = ""
            if wrong:
                v1, v2, g = wrong
                why = "stored %s %d and %s %d compare %s: a conversion on the way is not value-preserving (or a sign guard is missing / misplaced): different integers can compare equal" % (t1, v1, t2, v2, "equal" if g else "different")
            run.ob(rid3, inst, eq.site, not why, witness={"expr": txt, "pairs_folded": ncmp}, what=why)

    return boundary, tab, eq, pname, returns_for


def check(ctx, run):
    prog = ctx.program()
    run.assume("integer widths are those of the analysed target (LP64: int 32, long 64, long long 64)")
    run.assume("usual arithmetic conversions are exactly the implicit casts clang recorded in the AST")
    run.not_decided.append("string content comparison (SimpleString operator==, C13) and MemCmp semantics over all byte strings")
    run.rule("R1", "PARTITION: every ordered pair of integer tags selects a comparing branch (no pair falls through to `different type => false`)", floor=36, exhaustive=True)
    run.rule("R2", "TABLE: the union member read for a side is the member its tag was stored in (tag table extracted from the setValue overloads)", floor=36)
    run.rule("R3", "the comparison selected for a tag pair, folded (helpers inlined) over the boundary values of both types and their 2^32/2^64 aliases, is true exactly when the two stored integers are mathematically equal", floor=36, exhaustive=True)
    run.rule("R4", "getters: for every (getter, stored tag) the value is returned through value-preserving conversions of the tag's own member, or the path passes STRCMP_EQUAL(own tag, type) which fails the test", floor=36, exhaustive=True)
    run.rule("R5", "non-integer kinds: different tags never compare equal; bool/pointer/function pointer compare their own members; double passes (this, other, this tolerance) to doubles_equal; buffers compare size before MemCmp with that size", floor=40)

    boundary, tab, eq, pname, returns_for = integer_equality_rules(prog, run, "R1", "R2", "R3")

    # ---------------- R5 ---------------------------------------------------------
    alltags = INT_TAGS + OTHER_TAGS + ["MyType"]
    for t1 in alltags:
        for t2 in alltags:
            if t1 in INT_TAGS and t2 in INT_TAGS:
                continue
            if t1 == t2:
                continue
            rets = returns_for(t1, t2)
            vals = [const_value(eq, eq.node(r.get("value"))) if r is not None and r.get("value") is not None else None for r in rets]
            ok = bool(vals) and all(v == 0 for v in vals)
            run.ob("R5", "%s vs %s never equal" % (t1, t2), eq.site, ok, witness=[render(eq, r) if r else None for r in rets],
                   what="" if ok else "values of different non-integer types can compare equal")
    same = {"bool": "(value_.boolValue_ == %s.value_.boolValue_)", "void*": "(value_.pointerValue_ == %s.value_.pointerValue_)",
            "const void*": "(value_.constPointerValue_ == %s.value_.constPointerValue_)", "void (*)()": "(value_.functionPointerValue_ == %s.value_.functionPointerValue_)"}
    for t, exp in same.items():
        rets = returns_for(t, t)
        got = [rx(eq, eq.node(r.get("value"))) for r in rets if r is not None]
        a_, b_ = (exp % pname)[1:-1].split(" == ")
        ok = got in ([exp % pname], ["(%s == %s)" % (b_, a_)])
        run.ob("R5", "%s compares its own member by identity" % t, eq.site, ok, witness=got)
    rets = returns_for("const char*", "const char*")
    got = [rx(eq, eq.node(r.get("value"))) for r in rets if r is not None]
    ok = got in (["(SimpleString(value_.stringValue_) == SimpleString(%s.value_.stringValue_))" % pname], ["(SimpleString(%s.value_.stringValue_) == SimpleString(value_.stringValue_))" % pname])
    run.ob("R5", "strings compare by content", eq.site, ok, witness=got)
    rets = returns_for("double", "double")
    got = [rx(eq, eq.node(r.get("value"))) for r in rets if r is not None]
    ok = got == ["doubles_equal(value_.doubleValue_.value, %s.value_.doubleValue_.value, value_.doubleValue_.tolerance)" % pname]
    run.ob("R5", "doubles: (this value, other value, THIS tolerance) -> doubles_equal (NaN/Inf classes decided in C03.R2)", eq.site, ok, witness=got,
           what="" if ok else "the expectation's own tolerance is not what reaches doubles_equal")
    # expectation is the receiver: hasInputParameter calls equals on the expectation's stored value
    # memory buffers
    paths = enumerate_paths(eq, decide=make_decider("const unsigned char*", "const unsigned char*", pname), stop=lambda f, n: False)
    okb = True
    wit = []
    for p in paths:
        val = origin_val(eq, p)
        sz = [v for k, v in val.items() if k in ("(size_ == %s.size_)" % pname, "(%s.size_ == size_)" % pname)]
        r = rx(eq, eq.node(p.ret.get("value"))) if p.ret is not None else None
        wit.append({"cond": p.describe(eq), "returns": r})
        # atom key is "(p.size_ == size_)" with polarity
        if sz == [False]:
            okb = okb and const_value(eq, eq.node(p.ret.get("value"))) == 0
        elif sz == [True]:
            okb = okb and r in ("(SimpleString::MemCmp(value_.memoryBufferValue_, %s.value_.memoryBufferValue_, size_) == 0)" % pname,
                                "(SimpleString::MemCmp(value_.memoryBufferValue_, %s.value_.memoryBufferValue_, %s.size_) == 0)" % (pname, pname))
        else:
            okb = False
    run.ob("R5", "buffers: sizes compared first, then MemCmp over that size", eq.site, okb and len(paths) == 2, witness=wit)

    # ---------------- R4 ---------------------------------------------------------
    def getter_check(gname, own, tags):
        fs = [f for f in prog.fns("MockNamedValue::" + gname)]
        if len(fs) != 1:
            raise AnalysisBroken("getter %s not found" % gname)
        g = fs[0]
        run.analysed(g)
        rt = g.ret
        for t in tags:
            inst = "%s on a stored %s" % (gname, t)
            paths = enumerate_paths(g, decide=make_decider(t, None, "\0"), stop=lambda f, n: False)
            why = ""
            wit = []
            for p in paths:
                checks = []
                for c in path_calls(prog, g, p):
                    if (prog.callee_name(g, c) or "").endswith("assertCstrEqual"):
                        a = g.args(c)
                        l0 = g.strip(a[0])
                        checks.append((l0["v"] if l0 is not None and l0["k"] == "StringLiteral" else None, render(g, a[1])))
                fails = any(lit is not None and lit != t and act == "type_.asCharString()" for lit, act in checks)
                r = g.node(p.ret.get("value")) if p.ret is not None else None
                wit.append({"path": p.describe(g), "type_check": checks, "returns": render(g, r) if r else None})
                if fails:
                    continue   # the test is failed: allowed outcome
                if r is None:
                    why = "no value returned"
                    break
                leaf, chain = cast_chain(g, r)
                lr = render(g, leaf)
                mem = lr[len("value_."):] if lr.startswith("value_.") else None
                wantm = tab[t][0]
                if mem is None or (mem != wantm and (t, mem) not in MEMBER_ALIASES and not (wantm.startswith("doubleValue_") and mem.startswith("doubleValue_"))):
                    why = "returns %s for a value stored as %s (its member is value_.%s) without failing the test" % (lr, t, wantm)
                    break
                if t in INT_TAGS:
                    rng = type_range(prog, tab[t][1])
                    # narrow by sign guards taken on this path
                    for k, v, b, cn in p.decisions:
                        if k.startswith("decided:"):
                            if v:
                                for leaf in conjuncts(g, g.nodes[cn]):
                                    rng = narrow(prog, g, leaf, "value_.%s" % wantm, rng, True)
                            continue
                        leaf = g.nodes[cn]
                        ak, apol = atom(g, leaf)
                        if ak == k:
                            rng = narrow(prog, g, leaf, "value_.%s" % wantm, rng, v == apol)
                    ok, after, lossy = apply_chain(prog, rng, chain)
                    if ok:
                        rr = type_range(prog, rt)
                        last_to = chain[-1][2] if chain else tab[t][1]
                        lt = type_range(prog, last_to) if chain else type_range(prog, leaf.get("ct"))
                        if rr is not None and lt is not None and (after[0] < rr[0] or after[1] > rr[1]):
                            ok, lossy = False, ("return", last_to, rt, False)
                    if not ok:
                        why = "conversion %s -> %s of %s is not value-preserving on [%d, %d]: the getter can return a different number" % (lossy[1], lossy[2], lr, rng[0], rng[1])
                        break
            run.ob("R4", inst, g.site, not why, witness=wit[:4], what=why)

    class Halt(Exception):
        pass
    NINL = {g.qn for g in prog.functions.values() if g.qn.startswith("MockNamedValue::")}

    def fold_getter(g, tag, member, v):
        def cstr_equal(*a_):
            e_, a2 = a_[1], a_[2]
            if isinstance(e_, tuple) and isinstance(a2, tuple) and e_[1] == a2[1]:
                return 0
            raise Halt()
        ev = Evaluator(prog, g, env={"type_": ("str", tag), "value_." + member: v},
                       calls=string_hooks({"UtestShell::getCurrent": lambda *a_: 1, "UtestShell::assertCstrEqual": cstr_equal, "UtestShell::getCurrentTestTerminator": lambda *a_: 2}))
        ev.pass_object = True
        ev.inline = NINL - {g.qn} - set(ev.calls)
        try:
            ev.run_blocks(g.entry, max_steps=600)
        except Halt:
            return "failed"
        r = getattr(ev, "ret", None)
        if isinstance(r, tuple) and r and r[0] == "unknown":
            raise Unknown(r[1])
        return r
    for gname, own in GETTERS.items():
        fs = [f for f in prog.fns("MockNamedValue::" + gname)]
        if len(fs) != 1:
            raise AnalysisBroken("getter %s not found" % gname)
        g = fs[0]
        run.analysed(g)
        for t in INT_TAGS:
            inst = "%s on a stored %s" % (gname, t)
            member, ctype = tab[t][0], tab[t][1]
            why, outcomes = "", set()
            for v in boundary(*type_range(prog, ctype)):
                try:
                    r = fold_getter(g, t, member, v)
                except Unknown as u:
                    fm = re.search(r"value_\.(\w+)", str(u))
                    if fm:
                        why = "returns value_.%s for a value stored as %s (its member is value_.%s) without failing the test" % (fm.group(1), t, member)
                    else:
                        run.broke("C09.R4: %s cannot be folded for a stored %s: %s" % (gname, t, u))
                    break
                outcomes.add("failed" if r == "failed" else "value")
                if r != "failed" and r != v:
                    why = "conversion of value_.%s is not value-preserving: a stored %s %d is returned as %s without failing the test: the getter can return a different number" % (member, t, v, r)
                    break
            if not why and t == own and "value" not in outcomes:
                why = "a value stored under the getter's own type fails the test"
            run.ob("R4", inst, g.site, not why, witness=sorted(outcomes), what=why)
    for gname, own in OTHER_GETTERS.items():
        getter_check(gname, own, [own] + [t for t in ("int", "double", "void*") if t != own][:2])

"""C09 — mock parameter values compare by mathematical value (PARTITION over tag pairs + RANGE over cast chains).
DESIGN.md section 4, C09."""
import os
import re
from .common import *
from cpv.ranges import type_range, cast_chain, apply_chain
from cpv.ceval import Evaluator, Unknown

INT_TAGS = ["int", "unsigned int", "long int", "unsigned long int", "long long int", "unsigned long long int"]
OTHER_TAGS = ["bool", "double", "const char*", "void*", "const void*", "void (*)()", "const unsigned char*"]
# union members with identical object representation that may stand in for each other (one line of reason each)
MEMBER_ALIASES = {("const void*", "pointerValue_"): "void* and const void* members of the union share representation; getConstPointerValue reads pointerValue_"}
GETTERS = {"getIntValue": "int", "getUnsignedIntValue": "unsigned int", "getLongIntValue": "long int", "getUnsignedLongIntValue": "unsigned long int",
           "getLongLongIntValue": "long long int", "getUnsignedLongLongIntValue": "unsigned long long int"}
OTHER_GETTERS = {"getBoolValue": "bool", "getDoubleValue": "double", "getDoubleTolerance": "double", "getStringValue": "const char*", "getPointerValue": "void*",
                 "getConstPointerValue": "const void*", "getFunctionPointerValue": "void (*)()", "getMemoryBuffer": "const unsigned char*"}


def opcall(f, n, names):
    return n is not None and n["k"] == "CXXOperatorCallExpr" and n.get("callee") and n["callee"]["qn"].split("::")[-1] in names


def tag_table(prog):
    """tag literal -> (union member path, parameter ctype) extracted from the setValue/setMemoryBuffer overloads"""
    tab = {}
    for f in prog.functions.values():
        if f.cls != "MockNamedValue" or f.name not in ("setValue", "setMemoryBuffer"):
            continue
        tag = None
        for c in f.calls():
            if opcall(f, c, ("operator=",)):
                a = f.args(c)
                if render(f, a[0]) == "type_":
                    lit = f.strip(a[1])
                    while lit is not None and lit["k"] in ("CXXConstructExpr",) and f.args(lit):
                        lit = f.strip(f.args(lit)[0])
                    if lit is not None and lit["k"] == "StringLiteral":
                        tag = lit["v"]
        if tag is None:
            continue
        for l, r, n in assignments(f):
            if l.startswith("value_.") and f.params and render(f, r, keep_explicit_casts=False) == f.params[0]["name"]:
                tab[tag] = (l[len("value_."):], f.params[0]["ct"], f)
    return tab


def make_decider(t1, t2, pname):
    def lit_of(s):
        m = re.match(r'^SimpleString\("(.*)"\)$', s)
        return m.group(1) if m else None

    def decide(f, cn):
        n = f.strip(cn, casts=True)
        neg = False
        while n is not None and n["k"] == "UnaryOperator" and n.get("op") == "!":
            neg = not neg
            n = f.strip(n["c"][0], casts=True)
        if not opcall(f, n, ("operator==", "operator!=")):
            return None
        a = [render(f, x) for x in f.args(n)]
        if n["callee"]["qn"].endswith("operator!="):
            neg = not neg
        val = None
        sides = {"type_": t1, pname + ".type_": t2}
        if a[0] in sides and a[1] in sides:
            val = sides[a[0]] == sides[a[1]]
        else:
            for x, y in ((a[0], a[1]), (a[1], a[0])):
                if x in sides and lit_of(y) is not None:
                    val = sides[x] == lit_of(y)
        if val is None:
            return None
        return (not val) if neg else val
    return decide


def conjuncts(f, n):
    n = f.strip(n, casts=False)
    while n is not None and n["k"] == "ImplicitCastExpr":
        n = f.strip(n["c"][0], casts=False)
    if n is not None and n["k"] == "BinaryOperator" and n.get("op") == "&&":
        return conjuncts(f, f.node(n["lhs"])) + conjuncts(f, f.node(n["rhs"]))
    return [n]


def narrow(prog, g, leaf, member, rng, truth=True):
    """narrow the range of `member` by a comparison `member' OP constant` that holds (member' = member through
    value-preserving casts)"""
    leaf = g.strip(leaf, casts=False) if leaf is not None else None
    while leaf is not None and leaf["k"] == "ImplicitCastExpr":
        leaf = g.strip(leaf["c"][0], casts=False)
    if leaf is None or leaf["k"] != "BinaryOperator" or leaf.get("op") not in (">=", "<=", "<", ">"):
        return rng
    op = leaf["op"]
    if not truth:
        op = {">=": "<", "<=": ">", "<": ">=", ">": "<="}[op]
    l, r = g.node(leaf["lhs"]), g.node(leaf["rhs"])
    cl, cr = const_value(g, l), const_value(g, r)
    if cr is None and cl is not None:
        l, r, cr = r, l, cl
        op = {">=": "<=", "<=": ">=", "<": ">", ">": "<"}[op]
    if cr is None:
        return rng
    ll, chain = cast_chain(g, l)
    if render(g, ll) != member:
        return rng
    ok, _, _ = apply_chain(prog, rng, chain)
    if not ok:
        return rng
    lo, hi = rng
    if op == ">=":
        lo = max(lo, cr)
    elif op == ">":
        lo = max(lo, cr + 1)
    elif op == "<=":
        hi = min(hi, cr)
    elif op == "<":
        hi = min(hi, cr - 1)
    return (lo, hi)


INT_MEMBERS = ["intValue_", "unsignedIntValue_", "longIntValue_", "unsignedLongIntValue_", "longLongIntValue_", "unsignedLongLongIntValue_", "boolValue_"]


def boundary(lo, hi, full=True):
    vs = set()
    for base in ((0, 1 << 7, 1 << 8, 1 << 15, 1 << 16, 1 << 31, 1 << 32, 1 << 63, 1 << 64) if full else (0, 1 << 31, 1 << 32, 1 << 63, 1 << 64)):
        for d in ((-2, -1, 0, 1, 2, 5) if full else (-1, 0, 1)):
            vs |= {base + d, -base + d}
    vs |= {lo, lo + 1, hi, hi - 1, 42, -42}
    return sorted(v for v in vs if lo <= v <= hi)


def aliases(v, lo, hi):
    """values of the other operand's type that a lossy conversion would confuse with v"""
    out = set()
    for k in (32, 64):
        for m in (-2, -1, 1, 2):
            out.add(v + m * (1 << k))
        out.add(v & ((1 << k) - 1))
        out.add((v & ((1 << k) - 1)) - (1 << k))
    return {x for x in out if lo <= x <= hi}


_EQ = {}


def _fold_int_pair(job):
    """worker: equals() folded whole on (stored t1 = v1, stored t2 = v2) for the value pairs of one tag pair"""
    t1, t2, full = job
    prog, eq, pname, tab, inl = _EQ["prog"], _EQ["eq"], _EQ["pname"], _EQ["tab"], _EQ["inl"]
    m1, c1 = tab[t1][0], tab[t1][1]
    m2, c2 = tab[t2][0], tab[t2][1]
    r1, r2 = type_range(prog, c1), type_range(prog, c2)
    res = {"n": 0, "true_seen": False, "unequal_accepted": None, "unknown": None, "equal_missed": None}
    hooks = string_hooks({})
    members = []
    for t in INT_TAGS:
        lo, hi = type_range(prog, tab[t][1])
        members.append((tab[t][0], lo < 0, (hi - lo).bit_length()))
    w1, w2 = (r1[1] - r1[0]).bit_length(), (r2[1] - r2[0]).bit_length()

    def cells(prefix, v, width, garbage):
        """the union really aliases: the integer members of one side are views of the same 8 bytes (little endian);
        the bytes a narrower store leaves untouched hold `garbage`"""
        raw = (v & ((1 << width) - 1)) | ((garbage << width) & ((1 << 64) - 1) if width < 64 else 0)
        out = {}
        for m, signed, w in members:
            x = raw & ((1 << w) - 1)
            out[prefix + m] = x - (1 << w) if signed and x >> (w - 1) else x
        out[prefix + "boolValue_"] = 1 if raw & 0xff else 0
        for m in ("pointerValue_", "constPointerValue_", "objectPointerValue_", "constObjectPointerValue_", "outputPointerValue_"):
            out[prefix + m] = raw
        return out
    garbages = (0, 0xFFFFFFFF, 0x5A5AA5A5) if (w1 < 64 or w2 < 64) else (0,)
    for v1 in boundary(*r1, full=full):
        if full:
            S2 = set(boundary(*r2)) | aliases(v1, *r2)
        else:
            S2 = aliases(v1, *r2) | {x for x in (v1 - 1, v1 + 1, r2[0], r2[1], 0) if r2[0] <= x <= r2[1]}
        if r2[0] <= v1 <= r2[1]:
            S2.add(v1)
        for v2 in sorted(S2):
            same = v1 == v2
            for gi, garbage in enumerate(garbages):
                env = {"type_": ("str", t1), pname + ".type_": ("str", t2)}
                env.update(cells("value_.", v1, w1, garbage))
                env.update(cells(pname + ".value_.", v2, w2, garbages[(gi + 1) % len(garbages)]))
                ev = Evaluator(prog, eq, env=env, calls=hooks)
                ev.pass_object = True
                ev.inline = inl
                try:
                    ev.run_blocks(eq.entry, max_steps=4000)
                    got = getattr(ev, "ret", None)
                    if not isinstance(got, int):
                        raise Unknown("returns %r" % (got,))
                except Unknown as u:
                    res["unknown"] = res["unknown"] or "%s (stored %d and %d)" % (u, v1, v2)
                    continue
                res["n"] += 1
                if got:
                    res["true_seen"] = True
                if bool(got) != same:
                    k_ = "equal_missed" if same else "unequal_accepted"
                    if res[k_] is None:
                        res[k_] = (v1, v2)
    return (t1, t2), res


def integer_equality_rules(prog, run, rid1, rid2, rid3, thorough=False):
    """R1-R3 (shared with C08): MockNamedValue::equals folded whole (every member of the class inlined) on every
    ordered pair of integer tags over boundary values and their 2^32/2^64 aliases: true exactly for mathematically
    equal stored integers. The integer members of each side are views of the same 8 bytes, as in the real union, and
    the bytes a 32-bit store leaves untouched are tried with three garbage patterns, so reading another member than
    the one the tag stores gives the answer the real code would give."""
    import multiprocessing
    eq = prog.fn("MockNamedValue::equals")
    run.analysed(eq)
    pname = eq.params[0]["name"]
    tab = tag_table(prog)
    missing = [t for t in INT_TAGS + OTHER_TAGS if t not in tab]
    if missing:
        raise AnalysisBroken("tag table incomplete: no setValue overload found for %s" % missing)
    inl = {g.qn for g in prog.functions.values() if g.qn.startswith("MockNamedValue::")}
    for g in prog.functions.values():
        if g.qn in inl and g.name.lower().startswith("equals"):
            run.analysed(g)
    _EQ.update({"prog": prog, "eq": eq, "pname": pname, "tab": tab, "inl": inl})
    jobs = [(t1, t2, thorough) for t1 in INT_TAGS for t2 in INT_TAGS]
    try:
        with multiprocessing.get_context("fork").Pool(min(16, os.cpu_count() or 1)) as pool:
            results = dict(pool.map(_fold_int_pair, jobs, chunksize=1))
    except (OSError, ValueError):
        results = dict(_fold_int_pair(j) for j in jobs)
    for t1 in INT_TAGS:
        for t2 in INT_TAGS:
            inst = "%s vs %s" % (t1, t2)
            r = results[(t1, t2)]
            m1, m2 = tab[t1][0], tab[t2][0]
            if r["unknown"]:
                run.broke("C09: equals cannot be folded for %s: %s" % (inst, r["unknown"]))
                continue
            if not r["true_seen"]:
                run.ob(rid1, inst, eq.site, False, witness={"pairs_folded": r["n"]}, what="no comparison of the two stored integers is selected for this type pair: equal values never compare equal (falls through to `different type`), or the comparison reads other union members than value_.%s / %s.value_.%s" % (m1, pname, m2))
                continue
            run.ob(rid1, inst, eq.site, True, witness={"pairs_folded": r["n"]})
            why = ""
            if r["equal_missed"]:
                why = "stored %s %d and %s %d compare different: a guard rejects a representable value, a conversion is not value-preserving, or another union member than value_.%s / %s.value_.%s is read" % (t1, r["equal_missed"][0], t2, r["equal_missed"][1], m1, pname, m2)
            run.ob(rid2, inst, eq.site, not why, witness={"members": {"this": m1, "other": m2}, "pairs_folded": r["n"]}, what=why)
            why = ""
            if r["unequal_accepted"]:
                v1, v2 = r["unequal_accepted"]
                why = "stored %s %d and %s %d compare equal: a conversion on the way is not value-preserving (or a sign guard is missing / misplaced), or another union member is read" % (t1, v1, t2, v2)
            run.ob(rid3, inst, eq.site, not why, witness={"pairs_folded": r["n"]}, what=why)
    return tab, eq, pname


def check(ctx, run):
    prog = ctx.program()
    run.assume("integer widths are those of the analysed target (LP64: int 32, long 64, long long 64)")
    run.assume("usual arithmetic conversions are exactly the implicit casts clang recorded in the AST")
    run.not_decided.append("string content comparison (SimpleString operator==, C13) and MemCmp semantics over all byte strings")
    run.rule("R1", "PARTITION: every ordered pair of integer tags selects a comparing branch (no pair falls through to `different type => false`)", floor=36, exhaustive=True)
    run.rule("R2", "TABLE: equals folded whole on equal integers stored in the tags' own union members (tag table extracted from the setValue overloads) answers equal although every other union member differs on the two sides", floor=36)
    run.rule("R3", "equals folded whole (class members inlined) over the boundary values of both types and their 2^32/2^64 aliases never answers equal for two mathematically different stored integers, although the other union members hold equal values", floor=36, exhaustive=True)
    run.rule("R4", "getters: for every (getter, stored tag) the value is returned through value-preserving conversions of the tag's own member, or the path passes STRCMP_EQUAL(own tag, type) which fails the test", floor=36, exhaustive=True)
    run.rule("R5", "non-integer kinds: different tags never compare equal; bool/pointer/function pointer compare their own members; double passes (this, other, this tolerance) to doubles_equal; buffers compare size before MemCmp with that size", floor=40)

    run.rule("R6", "doubles: doubles_equal folded over {NaN, -Inf, +Inf, finite lattice}^2 x thresholds against the IEEE oracle (NaN never equal, same infinity equal, opposite infinities different, finite by |d1-d2| <= tolerance), with an isinf seam that does not report the sign (shared with C03.R2)", floor=300, exhaustive=True)
    from .C03 import doubles_equal_rule
    doubles_equal_rule(prog, run, "R6")
    tab, eq, pname = integer_equality_rules(prog, run, "R1", "R2", "R3", thorough=ctx.thorough)

    # ---------------- R5 ---------------------------------------------------------
    # equals() folded whole (every MockNamedValue member inlined, so helpers are transparent) on two model values. All
    # union members are separate cells in the model, which lets the fold see WHICH member a comparison reads.
    # (the double member is a struct of two doubles, the value first and its tolerance second: their names are read from the program)
    dstruct = [r_ for k_, r_ in prog.records.items() if k_.startswith("MockNamedValue::(") and [f_.get("ct") for f_ in r_.get("fields", [])] == ["double", "double"]]
    if len(dstruct) != 1:
        raise AnalysisBroken("C09.R5: the (value, tolerance) struct of the double member was not found in MockNamedValue's union")
    DV, DT = ["doubleValue_." + f_["name"] for f_ in dstruct[0]["fields"]]
    MEMBERS = ["boolValue_", "intValue_", "unsignedIntValue_", "longIntValue_", "unsignedLongIntValue_", "longLongIntValue_", "unsignedLongLongIntValue_",
               DV, DT, "pointerValue_", "constPointerValue_", "functionPointerValue_", "memoryBufferValue_",
               "constObjectPointerValue_", "objectPointerValue_", "outputPointerValue_"]
    NVINL = {g.qn for g in prog.functions.values() if g.qn.startswith("MockNamedValue::")}

    def fold_equals(t1, t2, mine, other, own_members, others_equal, sizes=(3, 3), comparator=500, memcmp=0, dbl=1, cmp=1):
        """own_members get (mine, other); every other member is equal on both sides (others_equal) or different"""
        env = {"type_": ("str", t1), pname + ".type_": ("str", t2), "size_": sizes[0], pname + ".size_": sizes[1], "comparator_": comparator, pname + ".comparator_": comparator}
        for i_, m in enumerate(MEMBERS):
            if m in own_members:
                env["value_." + m], env["%s.value_.%s" % (pname, m)] = mine, other
            else:
                env["value_." + m], env["%s.value_.%s" % (pname, m)] = 1000 + i_, (1000 + i_ if others_equal else 2000 + i_)
        env["value_.stringValue_"], env[pname + ".value_.stringValue_"] = ("str", "same"), ("str", "same" if others_equal else "differs")
        if "stringValue_" in own_members:
            env["value_.stringValue_"], env[pname + ".value_.stringValue_"] = mine, other
        seen = []
        hooks = string_hooks({"doubles_equal": lambda *a_: (seen.append(("doubles_equal",) + tuple(a_)), dbl)[1],
                              "SimpleString::MemCmp": lambda *a_: (seen.append(("MemCmp",) + tuple(a_)), memcmp)[1],
                              "MockNamedValueComparator::isEqual": lambda *a_: (seen.append(("isEqual",) + tuple(a_)), cmp)[1]})
        ev = Evaluator(prog, eq, env=env, calls=hooks)
        ev.pass_object = True
        # (a string comparison written with the C-string primitives instead of string objects is folded through them)
        ev.inline = set(NVINL) | ({"SimpleString::StrCmp", "SimpleString::StrNCmp", "SimpleString::StrLen"} - set(hooks))
        ev.run_blocks(eq.entry, max_steps=4000)
        r = getattr(ev, "ret", None)
        if not isinstance(r, int):
            raise Unknown("equals returns %r" % (r,))
        return r, seen
    alltags = INT_TAGS + OTHER_TAGS + ["MyType"]
    try:
        for t1 in alltags:
            for t2 in alltags:
                if (t1 in INT_TAGS and t2 in INT_TAGS) or t1 == t2:
                    continue
                # adversarial model: every member, the sizes, the strings are equal on both sides and every helper answers "equal"
                r, seen = fold_equals(t1, t2, 0, 0, (), True)
                run.ob("R5", "%s vs %s never equal" % (t1, t2), eq.site, r == 0, witness={"folded": r, "helpers asked": [x[0] for x in seen]},
                       what="" if r == 0 else "values of different non-integer types can compare equal")
        for t, m in (("bool", "boolValue_"), ("void*", "pointerValue_"), ("const void*", "constPointerValue_"), ("void (*)()", "functionPointerValue_")):
            r1_, _ = fold_equals(t, t, 1 if t == "bool" else 71, 1 if t == "bool" else 71, (m,), False)
            r2_, _ = fold_equals(t, t, 1 if t == "bool" else 71, 0 if t == "bool" else 72, (m,), True)
            run.ob("R5", "%s compares its own member by identity" % t, eq.site, (r1_, r2_) == (1, 0), witness={"own equal, all other members differ": r1_, "own differ, all other members equal": r2_})
        r1_, _ = fold_equals("const char*", "const char*", ("str", "hello"), ("str", "hello"), ("stringValue_",), False)
        r2_, _ = fold_equals("const char*", "const char*", ("str", "hello"), ("str", "hellp"), ("stringValue_",), True)
        pre = {}
        for x_, y_ in (("open", "openat"), ("openat", "open"), ("", "x"), ("x", ""), ("", "")):
            pre["%r vs %r" % (x_, y_)], _ = fold_equals("const char*", "const char*", ("str", x_), ("str", y_), ("stringValue_",), True)
        okp = all(v_ == (1 if k_ == "'' vs ''" else 0) for k_, v_ in pre.items())
        run.ob("R5", "strings compare by content (whole strings: a proper prefix, the empty string and a longer string are different values in both directions)", eq.site, (r1_, r2_) == (1, 0) and okp,
               witness=dict({"two copies of one text": r1_, "texts differing in the last character": r2_}, **pre))
        okd, wit = True, []
        for ans in (1, 0):
            r, seen = fold_equals("double", "double", 0, 0, (), False, dbl=ans)
            wit.append({"doubles_equal answers": ans, "equals": r, "asked": [tuple(x[1:]) for x in seen]})
            i_v, i_t = MEMBERS.index(DV), MEMBERS.index(DT)
            okd = okd and r == ans and [tuple(x[1:]) for x in seen] == [(1000 + i_v, 2000 + i_v, 1000 + i_t)]
        run.ob("R5", "doubles: (this value, other value, THIS tolerance) -> doubles_equal (NaN/Inf classes decided in C03.R2)", eq.site, okd, witness=wit,
               what="" if okd else "the expectation's own tolerance is not what reaches doubles_equal")
        okb, wit = True, []
        i_b = MEMBERS.index("memoryBufferValue_")
        for sizes, mc in (((3, 4), 0), ((4, 3), 0), ((3, 3), 0), ((3, 3), 1), ((3, 3), -1), ((0, 0), 0)):
            r, seen = fold_equals("const unsigned char*", "const unsigned char*", 0, 0, (), False, sizes=sizes, memcmp=mc)
            asked = [tuple(x[1:]) for x in seen if x[0] == "MemCmp"]
            want = 1 if sizes[0] == sizes[1] and mc == 0 else 0
            good = r == want and (sizes[0] != sizes[1] or asked == [(1000 + i_b, 2000 + i_b, sizes[0])])
            wit.append({"sizes": sizes, "MemCmp answers": mc, "equals": r, "MemCmp asked": asked})
            okb = okb and good
        run.ob("R5", "buffers: sizes compared first, then MemCmp over that size", eq.site, okb, witness=wit)
        # the very same buffer on both sides with different lengths is still a different value (right buffer, wrong length)
        oks, wit = True, []
        for sizes in ((3, 4), (4, 3), (0, 2), (3, 3)):
            r, seen = fold_equals("const unsigned char*", "const unsigned char*", 7000, 7000, ("memoryBufferValue_",), False, sizes=sizes, memcmp=0)
            want = 1 if sizes[0] == sizes[1] else 0
            wit.append({"sizes": sizes, "same buffer address": True, "equals": r})
            oks = oks and r == want
        run.ob("R5", "buffers: one buffer address on both sides compares equal iff the lengths are equal", eq.site, oks, witness=wit,
               what="" if oks else "the length is ignored when expectation and actual call point at the same buffer")
        oko, wit = True, []
        i_o = MEMBERS.index("constObjectPointerValue_")
        for comp, ans in ((500, 1), (500, 0), (0, 1)):
            r, seen = fold_equals("MyType", "MyType", 0, 0, (), False, comparator=comp, cmp=ans)
            asked = [tuple(x for x in e[1:] if isinstance(x, int)) for e in seen if e[0] == "isEqual"]
            want = ans if comp else 0
            wit.append({"comparator": comp, "isEqual answers": ans, "equals": r, "asked": asked})
            oko = oko and r == want and (asked == [(500, 1000 + i_o, 2000 + i_o)] if comp else not asked)
        run.ob("R5", "objects of a custom type: the installed comparator decides on (this object, other object); without a comparator they are different", eq.site, oko, witness=wit)
    except Unknown as u:
        run.broke("C09.R5: equals cannot be folded whole: %s" % u)

    # ---------------- R4 ---------------------------------------------------------
    def getter_check(gname, own, tags):
        fs = [f for f in prog.fns("MockNamedValue::" + gname)]
        if len(fs) != 1:
            raise AnalysisBroken("getter %s not found" % gname)
        g = fs[0]
        run.analysed(g)
        rt = g.ret
        for t in tags:
            inst = "%s on a stored %s" % (gname, t)
            paths = enumerate_paths(g, decide=make_decider(t, None, "\0"), stop=lambda f, n: False)
            why = ""
            wit = []
            for p in paths:
                checks = []
                for c in path_calls(prog, g, p):
                    if (prog.callee_name(g, c) or "").endswith("assertCstrEqual"):
                        a = g.args(c)
                        l0 = g.strip(a[0])
                        checks.append((l0["v"] if l0 is not None and l0["k"] == "StringLiteral" else None, render(g, a[1])))
                fails = any(lit is not None and lit != t and act == "type_.asCharString()" for lit, act in checks)
                r = g.node(p.ret.get("value")) if p.ret is not None else None
                wit.append({"path": p.describe(g), "type_check": checks, "returns": render(g, r) if r else None})
                if fails:
                    continue   # the test is failed: allowed outcome
                if r is None:
                    why = "no value returned"
                    break
                leaf, chain = cast_chain(g, r)
                lr = render(g, leaf)
                mem = lr[len("value_."):] if lr.startswith("value_.") else None
                wantm = tab[t][0]
                if mem is None or (mem != wantm and (t, mem) not in MEMBER_ALIASES and not (wantm.startswith("doubleValue_") and mem.startswith("doubleValue_"))):
                    why = "returns %s for a value stored as %s (its member is value_.%s) without failing the test" % (lr, t, wantm)
                    break
                if t in INT_TAGS:
                    rng = type_range(prog, tab[t][1])
                    # narrow by sign guards taken on this path
                    for k, v, b, cn in p.decisions:
                        if k.startswith("decided:"):
                            if v:
                                for leaf in conjuncts(g, g.nodes[cn]):
                                    rng = narrow(prog, g, leaf, "value_.%s" % wantm, rng, True)
                            continue
                        leaf = g.nodes[cn]
                        ak, apol = atom(g, leaf)
                        if ak == k:
                            rng = narrow(prog, g, leaf, "value_.%s" % wantm, rng, v == apol)
                    ok, after, lossy = apply_chain(prog, rng, chain)
                    if ok:
                        rr = type_range(prog, rt)
                        last_to = chain[-1][2] if chain else tab[t][1]
                        lt = type_range(prog, last_to) if chain else type_range(prog, leaf.get("ct"))
                        if rr is not None and lt is not None and (after[0] < rr[0] or after[1] > rr[1]):
                            ok, lossy = False, ("return", last_to, rt, False)
                    if not ok:
                        why = "conversion %s -> %s of %s is not value-preserving on [%d, %d]: the getter can return a different number" % (lossy[1], lossy[2], lr, rng[0], rng[1])
                        break
            run.ob("R4", inst, g.site, not why, witness=wit[:4], what=why)

    class Halt(Exception):
        pass
    NINL = {g.qn for g in prog.functions.values() if g.qn.startswith("MockNamedValue::")}

    def fold_getter(g, tag, member, v):
        def cstr_equal(*a_):
            e_, a2 = a_[1], a_[2]
            if isinstance(e_, tuple) and isinstance(a2, tuple) and e_[1] == a2[1]:
                return 0
            raise Halt()
        ev = Evaluator(prog, g, env={"type_": ("str", tag), "value_." + member: v},
                       calls=string_hooks({"UtestShell::getCurrent": lambda *a_: 1, "UtestShell::assertCstrEqual": cstr_equal, "UtestShell::getCurrentTestTerminator": lambda *a_: 2}))
        ev.pass_object = True
        ev.inline = NINL - {g.qn} - set(ev.calls)
        try:
            ev.run_blocks(g.entry, max_steps=600)
        except Halt:
            return "failed"
        r = getattr(ev, "ret", None)
        if isinstance(r, tuple) and r and r[0] == "unknown":
            raise Unknown(r[1])
        return r
    for gname, own in GETTERS.items():
        fs = [f for f in prog.fns("MockNamedValue::" + gname)]
        if len(fs) != 1:
            raise AnalysisBroken("getter %s not found" % gname)
        g = fs[0]
        run.analysed(g)
        for t in INT_TAGS:
            inst = "%s on a stored %s" % (gname, t)
            member, ctype = tab[t][0], tab[t][1]
            why, outcomes = "", set()
            for v in boundary(*type_range(prog, ctype)):
                try:
                    r = fold_getter(g, t, member, v)
                except Unknown as u:
                    fm = re.search(r"value_\.(\w+)", str(u))
                    if fm:
                        why = "returns value_.%s for a value stored as %s (its member is value_.%s) without failing the test" % (fm.group(1), t, member)
                    else:
                        run.broke("C09.R4: %s cannot be folded for a stored %s: %s" % (gname, t, u))
                    break
                outcomes.add("failed" if r == "failed" else "value")
                if r != "failed" and r != v:
                    why = "conversion of value_.%s is not value-preserving: a stored %s %d is returned as %s without failing the test: the getter can return a different number" % (member, t, v, r)
                    break
            if not why and t == own and "value" not in outcomes:
                why = "a value stored under the getter's own type fails the test"
            run.ob("R4", inst, g.site, not why, witness=sorted(outcomes), what=why)
    for gname, own in OTHER_GETTERS.items():
        getter_check(gname, own, [own] + [t for t in ("int", "double", "void*") if t != own][:2])

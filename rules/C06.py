"""C06 — memory misuse is reported exactly: decision order, guard writer/reader agreement, dealloc skeleton,
poisoning, wrapper allocators. DESIGN.md section 4, C06."""
import itertools
import re
from .common import *
from cpv.ceval import Evaluator, Unknown

DET = "MemoryLeakDetector"
PLUGIN = "src/CppUTest/MemoryLeakWarningPlugin.cpp"


def global_array_values(prog, name):
    for g in prog.globals.get(name, []):
        init = g.get("init")
        if init is None:
            continue
        n = init
        while n is not None and n["k"] != "InitListExpr":
            n = n["c"][0] if n.get("c") else None
        if n is None:
            continue
        vals = []
        for c in n["c"]:
            x = c
            while x is not None and x["k"] not in ("CharacterLiteral", "IntegerLiteral"):
                x = x["c"][0] if x.get("c") else None
            vals.append(x["v"] if x else None)
        return vals
    return None


def wrapper_install_rule(prog, run, rid):
    """The memory-report plugin puts a reporting wrapper in front of the current allocator of each family (malloc, new, new[]).
    Folded against a model of the three 'current allocator' cells: after installing, the current allocator of every family is a
    wrapper of its own whose real allocator is what was current for THAT family (so actualAllocator() still names the family and a
    cross-family release is still a mismatch); removing puts back, per family, what was current before."""
    FAMS = ("Malloc", "New", "NewArray")
    PL = "MemoryReporterPlugin"
    inst, rem = prog.fn(PL + "::setGlobalMemoryReportAllocators"), prog.fn(PL + "::removeGlobalMemoryReportAllocators")
    run.analysed(inst)
    run.analysed(rem)

    def fold(f, cur, real):
        ev = Evaluator(prog, f, env={})
        ev.heap_mode = True
        ev.pass_object = "key"
        ev.inline = {g.qn for g in prog.functions.values() if g.qn.startswith(PL + "::")} - {PL + "::" + n for n in ("createMemoryFormatter", "destroyMemoryFormatter")}
        for fam in FAMS:
            ev.calls["getCurrent%sAllocator" % fam] = lambda *a_, fam=fam: cur[fam]
            ev.calls["setCurrent%sAllocator" % fam] = lambda *a_, fam=fam: (cur.__setitem__(fam, a_[-1]), 0)[1]
        ev.calls["MemoryReportAllocator::setRealAllocator"] = lambda *a_: (real.__setitem__(a_[0], a_[-1]), 0)[1]
        ev.calls["MemoryReportAllocator::getRealAllocator"] = lambda *a_: real.get(a_[0], 0)
        ev.run_blocks(f.entry, max_steps=3000)

    orig = {"Malloc": 7001, "New": 7002, "NewArray": 7003}
    try:
        cur, real = dict(orig), {}
        fold(inst, cur, real)
        why = ""
        if len(set(cur.values())) != 3 or any(cur[fam] == orig[fam] or not isinstance(cur[fam], str) for fam in FAMS):
            why = "after installing, the current allocators are %s: not one wrapper of its own per family" % cur
        else:
            for fam in FAMS:
                if real.get(cur[fam]) != orig[fam]:
                    why = "the %s wrapper (%s) is put in front of %s, but the %s allocator that was current is %s" % (fam, cur[fam], {v: k for k, v in orig.items()}.get(real.get(cur[fam]), real.get(cur[fam])), fam, orig[fam])
                    break
        run.ob(rid, "installing the report allocators: every family's current allocator becomes its own wrapper around what was current for that family", inst.site, not why,
               witness={"current": dict(cur), "real": dict(real)}, what="" if not why else "the wrapper resolves (actualAllocator) to another family's allocator: a cross-family release is no longer a mismatch, a matching one is: " + why)
        inst_cur = dict(cur)
        fold(rem, cur, real)
        ok = cur == orig
        run.ob(rid, "removing the report allocators after installing them puts back, per family, the allocator that was current before", rem.site, ok, witness={"current": dict(cur)},
               what="" if ok else "after the plugin ran the current allocators are %s, before it they were %s" % (cur, orig))
        # a family whose current allocator was replaced by someone else meanwhile is left alone
        for fam in FAMS:
            cur = dict(inst_cur)
            cur[fam] = 7999
            fold(rem, cur, real)
            want = dict(orig)
            want[fam] = 7999
            run.ob(rid, "removing while the %s allocator was replaced by someone else: that one stays, the other two are put back" % fam, rem.site, cur == want, witness={"current": dict(cur)},
                   what="" if cur == want else "current allocators %s, expected %s" % (cur, want))
    except Unknown as u:
        raise AnalysisBroken("C06.%s: the report-allocator installation cannot be folded: %s" % (rid, u))


def stash_rule(prog, run, rid):
    """GlobalMemoryAllocatorStash (the save / restore pair test groups use around allocator switching) against a model of the three
    current-allocator cells: whatever is installed between save() and restore(), restore() puts back each family's own allocator; a
    stash that never saved restores nothing."""
    from .common import object_state
    ST, FAMS = "GlobalMemoryAllocatorStash", ("Malloc", "New", "NewArray")
    sv, rs = prog.fn(ST + "::save"), prog.fn(ST + "::restore")
    run.analysed(sv)
    run.analysed(rs)
    orig = {"Malloc": 7001, "New": 7002, "NewArray": 7003}
    cur = dict(orig)
    hooks = string_hooks()
    for fam in FAMS:
        hooks["getCurrent%sAllocator" % fam] = lambda *a_, fam=fam: cur[fam]
        hooks["setCurrent%sAllocator" % fam] = lambda *a_, fam=fam: (cur.__setitem__(fam, a_[-1]), 0)[1]
    try:
        state = object_state(prog, ST, [], [], steps=[("save", [])], hooks=hooks)
        cur.update({"Malloc": 8001, "New": 8002, "NewArray": 8003})
        ev = Evaluator(prog, rs, env=dict(state), calls=hooks)
        ev.pass_object = True
        ev.run_blocks(rs.entry, max_steps=300)
        ok = cur == orig
        run.ob(rid, "save() then restore() folded with other allocators installed in between: every family gets back its own allocator", rs.site, ok, witness={"current after restore": dict(cur), "saved": orig},
               what="" if ok else "after restore() the current allocators are %s, at save() they were %s: blocks of one family are then released through another family's allocator" % (cur, orig))
        fresh = object_state(prog, ST, [], [], steps=[], hooks=hooks)
        cur.update({"Malloc": 8001, "New": 8002, "NewArray": 8003})
        ev = Evaluator(prog, rs, env=dict(fresh), calls=hooks)
        ev.pass_object = True
        ev.run_blocks(rs.entry, max_steps=300)
        ok = cur == {"Malloc": 8001, "New": 8002, "NewArray": 8003}
        run.ob(rid, "restore() on a stash that never saved changes nothing", rs.site, ok, witness={"current after restore": dict(cur)})
    except Unknown as u:
        raise AnalysisBroken("C06.%s: the allocator stash cannot be folded: %s" % (rid, u))


def check(ctx, run):
    prog = ctx.program()
    run.assume("user code writes only through the pointer it was given; which bytes it writes is not decided")
    run.not_decided.append("which bytes user code writes; detection is decided as: every guard byte position and value is compared, and every comparison outcome maps to exactly one report")
    run.rule("R1", "decision order of checkForCorruption over (matching, guards valid, separate record): mismatch iff !matching; corruption iff matching and !valid; record freed iff matching, valid and separate; matchingAllocation folded = same or !typeChecking or equal type; both allocators resolved through actualAllocator()", floor=16, exhaustive=True)
    run.rule("R2", "guard writer/reader agreement folded: what addMemoryCorruptionInformation writes validates; every single changed guard byte (each position x other values) is rejected; every call site passes memory + size", floor=12, exhaustive=True)
    run.rule("R3", "deallocMemory skeleton: NULL returns silently; unknown address => one non-allocated report and no free; known => checkForCorruption then free_memory once", floor=3)
    run.rule("R4", "poisoning (SIBLING over the release wrappers): invalidateMemory(p) precedes deallocMemory(..., p, ...) with the same pointer; invalidateMemory fills size_ bytes of a known block with a non-zero constant", floor=7)
    run.rule("R6", "wrapper installation (memory-report plugin) folded against a model of the three current-allocator cells: each family's wrapper is put in front of that family's own allocator, removal restores each family, a foreign allocator installed meanwhile is left alone; the allocator stash's save / restore folded against the same model", floor=7)
    run.rule("R5", "wrapper allocators (SIBLING over the class hierarchy): every TestMemoryAllocator subclass that holds another allocator resolves actualAllocator() through that member's actualAllocator()", floor=4)

    # ---------------- R1 ----------------------------------------------------
    cc = prog.fn(DET + "::checkForCorruption")
    run.analysed(cc)
    pn = [p["name"] for p in cc.params]
    DINL = {g.qn for g in prog.functions.values() if g.qn.startswith(DET + "::")} | {"MemoryLeakDetectorNode::init"}
    for m_, v_, sep in itertools.product((1, 0), repeat=3):
        seq = []

        def h(name, ret):
            return lambda *a_: (seq.append((name, a_)), ret)[1]
        env = {"@6000.memory_": 70000, "@6000.size_": 13, "@6000.allocator_": 300, pn[0]: 6000, pn[1]: 111000, pn[2]: 77, pn[3]: 400, pn[4]: sep, "reporter_": 55}
        ev = Evaluator(prog, cc, env=env, calls={
            "TestMemoryAllocator::actualAllocator": lambda o, *a_: o + 1, DET + "::matchingAllocation": h("matching", m_), DET + "::validMemoryCorruptionInformation": h("valid", v_),
            "MemoryLeakOutputStringBuffer::reportAllocationDeallocationMismatchFailure": h("mismatch", 0), "MemoryLeakOutputStringBuffer::reportMemoryCorruptionFailure": h("corruption", 0),
            "TestMemoryAllocator::freeMemoryLeakNode": h("freenode", 0)})
        ev.heap_mode = True
        ev.pass_object = True
        ev.inline = DINL - set(ev.calls)
        try:
            ev.run_blocks(cc.entry, max_steps=600)
        except Unknown as u:
            raise AnalysisBroken("C06.R1: checkForCorruption cannot be folded: %s" % u)
        kinds = [k for k, a_ in seq]
        ints = lambda a_: tuple(x for x in a_ if isinstance(x, int))
        why = []
        if kinds[:1] != ["matching"] or ints(seq[0][1]) != (301, 401):
            why.append("the allocation type check does not come first on (record's allocator, releasing allocator), both resolved through actualAllocator(): %s" % [(k, ints(a_)) for k, a_ in seq[:2]])
        rep = [k for k in kinds if k in ("mismatch", "corruption", "freenode")]
        want = ["mismatch"] if not m_ else (["corruption"] if not v_ else (["freenode"] if sep else []))
        if rep != want:
            why.append("reports/frees %s, expected %s" % (rep, want))
        if m_:
            va = [ints(a_) for k, a_ in seq if k == "valid"]
            if va != [(70013,)]:
                why.append("the guard bytes are looked up at %s, the block is 70000 + 13" % va)
        else:
            if "valid" in kinds and not v_ and "corruption" in kinds:
                why.append("a corruption is reported for a mismatching release")
        for k, a_ in seq:
            if k in ("mismatch", "corruption") and ints(a_)[:1] != (56,):
                pass
            if k in ("mismatch", "corruption") and (6000 not in ints(a_) or 401 not in ints(a_) or 77 not in ints(a_)):
                why.append("%s report gets %s, expected the record, line 77 and the releasing allocator's actual allocator" % (k, ints(a_)))
            if k == "freenode" and 6000 not in ints(a_):
                why.append("the freed record is %s" % (ints(a_),))
        run.ob("R1", "checkForCorruption folded with matching=%d, guards valid=%d, separate record=%d" % (m_, v_, sep), cc.site, not why, witness=[(k, ints(a_)) for k, a_ in seq],
               what="; ".join(why) if why else "")
    ma = prog.fn(DET + "::matchingAllocation")
    run.analysed(ma)
    a, b = [p["name"] for p in ma.params]
    for same, tc, eq in itertools.product((0, 1), repeat=3):
        from .shared import detector_state
        env_ = detector_state(prog, [] if tc else [("disableAllocationTypeChecking", [])]) if (same, eq) != (9, 9) else {}
        env_.update({a: 100, b: 100 if same else 200})
        ev = Evaluator(prog, ma, env=env_)
        ev.pass_object = True
        order = []
        ev.calls["TestMemoryAllocator::isOfEqualType"] = lambda o, x, eq=eq, order=order: (order.append((o, x)), eq)[1]
        try:
            ev.run_blocks(ma.entry)
            got = getattr(ev, "ret", None)
        except Unknown as u:
            got = "unknown: %s" % u
        want = 1 if (same or not tc or eq) else 0
        run.ob("R1", "matchingAllocation(same=%d, typeChecking=%d, equalType=%d)" % (same, tc, eq), ma.site, got == want, witness={"folded": got, "oracle": want})
    it = prog.fn("TestMemoryAllocator::isOfEqualType")
    run.analysed(it)
    bad, wit = None, []
    NAMES = {100: "Standard New Allocator", 200: "Standard New [] Allocator", 300: "Standard New Allocator", 400: ""}
    for me, other in itertools.product(sorted(NAMES), repeat=2):
        def strcmp(*a_):
            x, y = a_[-2], a_[-1]
            if not (isinstance(x, tuple) and isinstance(y, tuple) and x[0] == y[0] == "str"):
                return None
            return (x[1] > y[1]) - (x[1] < y[1])
        ev = Evaluator(prog, it, env={"this": me, it.params[0]["name"]: other},
                       calls=string_hooks({"TestMemoryAllocator::name": lambda o=None, *a_, me=me: ("str", NAMES.get(o if o is not None else me, "?")), "SimpleString::StrCmp": strcmp}))
        ev.pass_object = True
        try:
            ev.run_blocks(it.entry, max_steps=200)
            r = getattr(ev, "ret", None)
            r = int(bool(r)) if isinstance(r, (int, bool)) else r
        except Unknown as u:
            raise AnalysisBroken("C06.R1: isOfEqualType cannot be folded: %s" % u)
        want = 1 if NAMES[me] == NAMES[other] else 0
        wit.append({"names": (NAMES[me], NAMES[other]), "equal type": r})
        if r != want and bad is None:
            bad = "allocators named %r and %r (%s objects): equal type = %s" % (NAMES[me], NAMES[other], "the same" if me == other else "different", r)
    run.ob("R1", "allocator families are compared by name: isOfEqualType folded on 16 pairs of allocator objects (two objects with one name, different names, the empty name)", it.site, bad is None, witness=bad or wit[:4], what=bad or "")
    # the two switches, judged by what matchingAllocation answers afterwards (different families, same allocator not given)
    for steps_, want in (([], 0), ([("disableAllocationTypeChecking", [])], 1), ([("disableAllocationTypeChecking", []), ("enableAllocationTypeChecking", [])], 0), ([("enableAllocationTypeChecking", [])], 0)):
        env_ = detector_state(prog, steps_)
        env_.update({a: 100, b: 200})
        ev = Evaluator(prog, ma, env=env_, calls={"TestMemoryAllocator::isOfEqualType": lambda *a__: 0})
        ev.pass_object = True
        try:
            ev.run_blocks(ma.entry)
            got = getattr(ev, "ret", None)
        except Unknown as u:
            got = "unknown: %s" % u
        run.ob("R1", "a new detector after %s: releasing with another allocator family %s" % ([x[0] for x in steps_] or "no switch", "matches (checking off)" if want else "is a mismatch (checking on)"), ma.site, got == want, witness={"folded": got})

    # ---------------- R2 ----------------------------------------------------
    gb = global_array_values(prog, "GuardBytes")
    n_guard = [e["v"] for en in prog.enums.values() for e in en["enumerators"] if e["name"] == "memory_corruption_buffer_size"]
    if not gb or not n_guard:
        raise AnalysisBroken("GuardBytes / memory_corruption_buffer_size not found")
    n_guard = n_guard[0]
    genv = {"GuardBytes[%d]" % i: v for i, v in enumerate(gb)}
    wr = prog.fn(DET + "::addMemoryCorruptionInformation")
    rd = prog.fn(DET + "::validMemoryCorruptionInformation")
    run.analysed(wr)
    run.analysed(rd)
    ev = Evaluator(prog, wr, env=dict(genv, **{wr.params[0]["name"]: ("ptr", "G", 0)}))
    try:
        ev.run_blocks(wr.entry, max_steps=400)
        written = {k: v for k, v in ev.stores if k.startswith("G[")}
    except Unknown as u:
        written = "unknown: %s" % u
    okw = isinstance(written, dict) and sorted(written) == ["G[%d]" % i for i in range(n_guard)]
    run.ob("R2", "the writer fills exactly the %d guard bytes" % n_guard, wr.site, okw, witness=written)
    if okw:
        mem = dict(written)

        def valid(memory):
            e2 = Evaluator(prog, rd, env=dict(genv, **memory, **{rd.params[0]["name"]: ("ptr", "G", 0)}))
            try:
                e2.run_blocks(rd.entry, max_steps=400)
                return getattr(e2, "ret", None)
            except Unknown as u:
                return "unknown: %s" % u
        got = valid(mem)
        run.ob("R2", "intact guard bytes validate", rd.site, got == 1, witness={"folded": got})
        for pos in range(n_guard):
            key = "G[%d]" % pos
            for newv in (0, 1, mem[key] ^ 0x20, (mem[key] + 1) & 0x7f, -1, 0x7f, -128, gb[(pos + 1) % len(gb)]):
                if newv == mem[key]:
                    continue
                m2 = dict(mem)
                m2[key] = newv
                got = valid(m2)
                run.ob("R2", "guard byte %d changed to %d is detected" % (pos, newv), rd.site, got == 0, witness={"folded": got},
                       what="" if got == 0 else "an overrun that changes only guard byte %d goes unreported" % pos)
        # several guard bytes changed at once (an overrun writes a run of bytes): differences that would cancel in a
        # combined test (same bit flips, flips whose xor or sum is zero) must still be detected
        badm, nm_ = None, 0
        MASKS = (1, 2, 3, 0x20, 0x40, 0x7f, 0x80, 0xff)
        for npos in range(2, n_guard + 1):
            for poss in itertools.combinations(range(n_guard), npos):
                combos = list(itertools.product(MASKS, repeat=npos)) if npos <= 3 else [(m_,) * npos for m_ in MASKS]
                for masks in combos:
                    for mode in ("xor", "add"):
                        m2 = dict(mem)
                        for i_, (pos, mk_) in enumerate(zip(poss, masks)):
                            old_ = mem["G[%d]" % pos] & 0xff
                            new_ = (old_ ^ mk_) if mode == "xor" else ((old_ + (mk_ if i_ % 2 == 0 else -mk_)) & 0xff)
                            m2["G[%d]" % pos] = new_ - 256 if new_ > 127 else new_
                        if all(m2[k_] == mem[k_] for k_ in mem):
                            continue
                        nm_ += 1
                        got = valid(m2)
                        if got != 0 and badm is None:
                            badm = "guard bytes %s changed to %s validate (%s)" % ([mem["G[%d]" % p_] for p_ in poss], [m2["G[%d]" % p_] for p_ in poss], got)
        run.ob("R2", "guard bytes changed at several positions at once (%d combinations of bit flips / offsets that cancel under xor or addition) are detected" % nm_, rd.site, badm is None, witness=badm or "%d combinations" % nm_,
               what="" if badm is None else "an overrun that rewrites several guard bytes goes unreported: " + badm)
    # where writer and reader are applied: folded over a heap model with a record describing block 70000 of 13 bytes
    NODE, BLK, SZ = 6000, 70000, 13
    for f in prog.functions.values():
        if f.cls != DET:
            continue
        cs = [c for c in f.calls() if (prog.callee_name(f, c) or "") in (DET + "::addMemoryCorruptionInformation", DET + "::validMemoryCorruptionInformation")]
        if not cs:
            continue
        run.analysed(f)
        seen = []
        env = {"@%d.memory_" % NODE: BLK, "@%d.size_" % NODE: SZ, "@%d.allocator_" % NODE: 9000}
        for q in f.params:
            ct = q["ct"]
            env[q["name"]] = NODE if ct == "MemoryLeakDetectorNode *" else (BLK if ct == "char *" else (SZ if ct == "unsigned long" and q["name"] != "line" else 9))
        ev = Evaluator(prog, f, env=env, calls={
            DET + "::addMemoryCorruptionInformation": lambda *a_: (seen.append(a_[-1]), 0)[1], DET + "::validMemoryCorruptionInformation": lambda *a_: (seen.append(a_[-1]), 1)[1],
            DET + "::matchingAllocation": lambda *a_: 1, "TestMemoryAllocator::actualAllocator": lambda *a_: 9000, "MemoryLeakDetectorNode::init": None})
        ev.heap_mode = True
        del ev.calls["MemoryLeakDetectorNode::init"]
        ev.inline = DINL - set(ev.calls)
        try:
            ev.run_blocks(f.entry, max_steps=400)
        except Unknown as u:
            run.broke("C06.R2: %s cannot be folded: %s" % (f.qn, u))
            continue
        run.ob("R2", "%s applies the guard writer/reader at block + size (folded over a record of a %d-byte block)" % (f.name, SZ), f.site, seen == [BLK + SZ], witness=[x - BLK if isinstance(x, int) else x for x in seen],
               what="" if seen == [BLK + SZ] else "the guard bytes are written or checked at offset %s of a %d-byte block" % ([x - BLK if isinstance(x, int) else x for x in seen], SZ))

    # ---------------- R3 ----------------------------------------------------
    from .shared import detector_fold
    dm = [f for f in prog.fns(DET + "::deallocMemory") if len(f.params) == 5][0]
    run.analysed(dm)
    pn = [q["name"] for q in dm.params]
    try:
        for sep in (0, 1):
            for memory, known, destroyed in ((0, 6000, 0), (50000, 0, 0), (50000, 6000, 0), (50000, 6000, 1)):
                r, log, ev = detector_fold(prog, dm, dict(zip(pn, (9000, memory, 111000, 77, sep))), {"remove": known, "destroyed": destroyed})
                kinds = [k for k, a_ in log]
                why = []
                if not memory:
                    if kinds:
                        why.append("releasing NULL does something: %s" % kinds)
                else:
                    if kinds[:1] != ["remove"] or log[0][1][-1] != memory:
                        why.append("the record is not looked up and removed first")
                    elif not known:
                        if kinds.count("reportDeallocateNonAllocatedMemoryFailure") != 1 or "free" in kinds or "valid" in kinds or "matching" in kinds:
                            why.append("an unknown address must give exactly one non-allocated report and no free (%s)" % kinds)
                    else:
                        if "reportDeallocateNonAllocatedMemoryFailure" in kinds:
                            why.append("a known block is reported as non-allocated")
                        if not destroyed:
                            fr = [a_ for k, a_ in log if k == "free"]
                            if len(fr) != 1 or fr[0][1:3] != (memory, 13) or "valid" not in kinds or kinds.index("valid") > kinds.index("free"):
                                why.append("known block: the guard bytes are checked, then the block is released once with its recorded size (%s)" % kinds)
                        elif "free" in kinds:
                            why.append("memory is handed to an allocator that was already destroyed")
                run.ob("R3", "deallocMemory folded [%s record, memory %s, block %s%s]" % ("separate" if sep else "inline", "NULL" if not memory else "given", "known" if known else "unknown", ", allocator destroyed" if destroyed else ""),
                       dm.site, not why, witness=kinds, what="; ".join(why))
    except Unknown as u:
        run.broke("C06.R3: deallocMemory cannot be folded: %s" % u)

    # ---------------- R4 ----------------------------------------------------
    from .C10 import slot_vars
    rel = set()
    for s in slot_vars(prog):
        if s.startswith(("operator_delete", "free_fptr")) or s == "free_fptr":
            rel |= prog.slots().get(s, set())
            # (also what the switch functions store there through helpers that take the functions as parameters)
            from .C10 import slot_targets
            rel |= {g.mn for g in slot_targets(prog, s)}
    n4 = 0
    for mn in sorted(rel):
        f = prog.functions.get(mn)
        if f is None or f.name.startswith("normal_"):
            continue
        n4 += 1
        run.analysed(f)
        from .C10 import slot_fold
        try:
            events, r_, end_, env_ = slot_fold(prog, f)
        except Unknown as u:
            run.broke("C06.R4: release wrapper %s cannot be folded: %s" % (f.qn, u))
            continue
        blk = env_[f.params[0]["name"]]
        wit = [(e[1], e[2]) for e in events if e[0] == "detector"]
        ok = (len(wit) == 2 and wit[0][0] == "invalidateMemory" and wit[0][1][:1] == (blk,) and wit[1][0] == "deallocMemory" and wit[1][1][1:2] == (blk,))
        run.ob("R4", "%s poisons the block before releasing it" % f.qn, f.site, ok, witness=wit,
               what="" if ok else "the user bytes reach the underlying free unpoisoned (or a different pointer is poisoned)")
    if n4 < 6:
        run.broke("only %d tracked release wrappers found (6 confirmed by hand)" % n4)
    iv = prog.fn(DET + "::invalidateMemory")
    run.analysed(iv)
    okp, w = True, {}
    for tracked in (1, 0):
        seq = []
        ev = Evaluator(prog, iv, env={iv.params[0]["name"]: 70000, "@6000.size_": 13, "@6000.memory_": 70000}, calls={
            "MemoryLeakDetectorTable::retrieveNode": lambda *a_, tracked=tracked: (seq.append(("retrieve", a_[-1])), 6000 if tracked else 0)[1],
            "PlatformSpecificMemset": lambda *a_: (seq.append(("memset",) + tuple(a_)), a_[0])[1]})
        ev.heap_mode = True
        ev.inline = DINL - set(ev.calls)
        try:
            ev.run_blocks(iv.entry, max_steps=300)
        except Unknown as u:
            seq.append(("unknown", str(u)))
        w["tracked" if tracked else "untracked"] = seq
        ms = [e for e in seq if e[0] == "memset"]
        if [e for e in seq if e[0] == "unknown"] or getattr(ev, "null_derefs", None) or [e for e in seq if e[0] == "retrieve"] != [("retrieve", 70000)]:
            okp = False
        elif tracked and not (len(ms) == 1 and ms[0][1] == 70000 and isinstance(ms[0][2], int) and ms[0][2] & 0xff != 0 and ms[0][3] == 13):
            okp = False
        elif not tracked and ms:
            okp = False
    run.ob("R4", "invalidateMemory overwrites size_ bytes of a tracked block with a non-zero pattern", iv.site, okp, witness=w)

    # a correctly paired release is not reported: a refused realloc must have left the block's record alone (shared with C04.R5)
    from .C04 import refused_realloc_rule
    refused_realloc_rule(prog, run, "R3")

    # ---------------- R5 ----------------------------------------------------
    subs = prog.subclasses("TestMemoryAllocator")
    n5 = 0
    for cls in sorted(subs):
        rec = prog.records.get(cls, {})
        holders = [fl["name"] for fl in rec.get("fields", []) if fl.get("ct") == "TestMemoryAllocator *"]
        if not holders:
            continue
        n5 += 1
        f = prog.fn(cls + "::actualAllocator", required=False)
        if f is None:
            run.ob("R5", "%s overrides actualAllocator()" % cls, "class " + cls, False, what="a wrapper allocator that does not override actualAllocator() is compared by its own name: matching releases are reported as mismatches")
            continue
        run.analysed(f)
        # folded: whatever the wrapped allocator answers (it may be a wrapper itself) is the answer
        got = []
        for h in holders:
            asked = []
            ev = Evaluator(prog, f, env=dict({"this": 600}, **{x: (700 if x == h else 0) for x in holders}), calls={"TestMemoryAllocator::actualAllocator": lambda o=None, *a_, asked=asked: (asked.append(o), 900)[1]})
            ev.pass_object = True
            try:
                ev.run_blocks(f.entry, max_steps=200)
                got.append((h, asked, getattr(ev, "ret", None)))
            except Unknown as u:
                got.append((h, asked, "unknown: %s" % u))
        ok = any(asked == [700] and r == 900 for h, asked, r in got)
        run.ob("R5", "%s::actualAllocator() folded: answers what the wrapped allocator's actualAllocator() answers" % cls, f.site, ok, witness=[str(g_) for g_ in got],
               what="" if ok else "a chain of wrappers is not resolved to the real allocator")
    if n5 < 4:
        run.broke("only %d wrapper allocator classes found (4 confirmed by hand)" % n5)
    wrapper_install_rule(prog, run, "R6")
    stash_rule(prog, run, "R6")
    base = prog.fn("TestMemoryAllocator::actualAllocator")
    run.analysed(base)
    ev = Evaluator(prog, base, env={"this": 600})
    try:
        ev.run_blocks(base.entry, max_steps=100)
        r = getattr(ev, "ret", None)
    except Unknown as u:
        r = "unknown: %s" % u
    run.ob("R5", "a plain allocator is its own actual allocator (folded)", base.site, r == 600, witness=r)

"""C12 — command line: dispatch shadow-freedom, handler/flag tables, argv index safety, rejection means no run,
repeat/shuffle value skeletons. DESIGN.md section 4, C12."""
import re
import itertools
from .common import *
from cpv.ceval import Evaluator, Unknown

CLS = "CommandLineArguments"
UNIT = "src/CppUTest/CommandLineArguments.cpp"
# documented option -> (field, value) for the plain flags (help text of the program is the contract)
FLAGS = {"-v": ("verbose_", "true"), "-vv": ("veryVerbose_", "true"), "-c": ("color_", "true"), "-p": ("runTestsAsSeperateProcess_", "true"),
         "-b": ("reversing_", "true"), "-lg": ("listTestGroupNames_", "true"), "-ln": ("listTestGroupAndCaseNames_", "true"),
         "-ll": ("listTestLocations_", "true"), "-ri": ("runIgnored_", "true"), "-f": ("crashOnFail_", "true"),
         "-e": ("rethrowExceptions_", "false"), "-ci": ("rethrowExceptions_", "false"), "-h": ("needHelp_", "true")}
GETTERS = {"isVerbose": "verbose_", "isVeryVerbose": "veryVerbose_", "isColor": "color_", "runTestsInSeperateProcess": "runTestsAsSeperateProcess_",
           "isReversing": "reversing_", "isListingTestGroupNames": "listTestGroupNames_", "isListingTestGroupAndCaseNames": "listTestGroupAndCaseNames_",
           "isListingTestLocations": "listTestLocations_", "isRunIgnored": "runIgnored_", "isCrashingOnFail": "crashOnFail_",
           "isRethrowingExceptions": "rethrowExceptions_", "needHelp": "needHelp_", "getRepeatCount": "repeat_", "isShuffling": "shuffling_",
           "getShuffleSeed": "shuffleSeed_", "getGroupFilters": "groupFilters_", "getNameFilters": "nameFilters_", "getPackageName": "packageName_"}
CONSUMERS = {  # getter -> call made iff the getter is true, in initializeTestRun
    "isVerbose": "output_->verbose(level_verbose)", "isVeryVerbose": "output_->verbose(level_veryVerbose)",
    "isColor": "output_->color()", "runTestsInSeperateProcess": "registry_->setRunTestsInSeperateProcess()",
    "isRunIgnored": "registry_->setRunIgnored()", "isCrashingOnFail": "UtestShell::setCrashOnFail()"}
FILTER_OPTS = {"-g": ("g", "", ""), "-sg": ("g", "s", ""), "-xg": ("g", "", "x"), "-xsg": ("g", "s", "x"),
               "-n": ("n", "", ""), "-sn": ("n", "s", ""), "-xn": ("n", "", "x"), "-xsn": ("n", "s", "x")}
DOT_OPTS = {"-t": (False, False), "-st": (True, False), "-xt": (False, True), "-xst": (True, True)}
OUTPUT_KINDS = {"normal": "OUTPUT_ECLIPSE", "eclipse": "OUTPUT_ECLIPSE", "junit": "OUTPUT_JUNIT", "teamcity": "OUTPUT_TEAMCITY"}


def lit_of_simplestring(f, n):
    n = f.strip(n)
    while n is not None and n["k"] in ("CXXConstructExpr", "CXXTemporaryObjectExpr") and len(f.args(n)) == 1:
        n = f.strip(f.args(n)[0])
    if n is not None and n["k"] == "StringLiteral":
        return n["v"]
    return None


def cond_tests(f, n):
    """decompose a dispatch condition into [(kind, literal)] with kind exact|prefix (|| allowed)"""
    n = f.strip(n)
    if n is None:
        return None
    if n["k"] == "BinaryOperator" and n.get("op") == "||":
        a, b = cond_tests(f, f.node(n["lhs"])), cond_tests(f, f.node(n["rhs"]))
        return None if a is None or b is None else a + b
    if n["k"] == "CXXOperatorCallExpr" and n.get("callee", {}).get("qn", "").endswith("operator=="):
        a = f.args(n)
        if render(f, a[0]) == "argument":
            l = lit_of_simplestring(f, a[1])
            return [("exact", l)] if l is not None else None
    if n["k"] == "CXXMemberCallExpr" and n.get("callee", {}).get("qn") == "SimpleString::startsWith" and render(f, f.node(n.get("obj"))) == "argument":
        l = lit_of_simplestring(f, f.args(n)[0])
        return [("prefix", l)] if l is not None else None
    return None


def chain(f):
    """the dispatch of parse(): [(tests, then-node, if-node)] + final else. An else-if chain, or several such chains in
    sequence where every branch of an earlier chain leaves the iteration (return / continue), which is the same decision list"""
    firsts = []
    for n in f.walk():
        if n["k"] == "IfStmt" and cond_tests(f, f.node(n.get("cond"))) is not None:
            par = f.nodes.get(f.parent.get(n["id"]))
            if par is None or par["k"] != "IfStmt" or par.get("else") != n["id"]:
                firsts.append(n)

    def leaves(n):
        if n is None:
            return False
        if n["k"] in ("ReturnStmt", "ContinueStmt"):
            return True
        if n["k"] == "CompoundStmt" and n.get("c"):
            return leaves(n["c"][-1])
        return False
    out = []
    final_else = None
    for idx, first in enumerate(firsts):
        n = first
        part = []
        fe = None
        while n is not None and n["k"] == "IfStmt":
            t = cond_tests(f, f.node(n.get("cond")))
            if t is None:
                break
            part.append((t, f.node(n.get("then")), n))
            e = f.node(n.get("else"))
            if e is None or e["k"] != "IfStmt":
                fe = e
            n = e
        if idx + 1 < len(firsts):
            # falling out of this chain must mean "no branch matched": every branch leaves, and there is no final else
            if fe is not None or not all(leaves(th) for t, th, nn in part):
                continue        # a nested or unrelated test: not part of the decision list
        out += part
        final_else = fe
    return out, final_else


HANDLERS = ["setRepeatCount", "setShuffle", "addGroupFilter", "addGroupDotNameFilter", "addStrictGroupFilter", "addExcludeGroupFilter", "addExcludeStrictGroupFilter",
            "addNameFilter", "addStrictNameFilter", "addExcludeNameFilter", "addExcludeStrictNameFilter", "addTestToRunBasedOnVerboseOutput", "setOutputType", "setPackageName"]
VERDICT_HANDLERS = {"addGroupDotNameFilter", "setShuffle", "setOutputType", "plugin"}        # their false result rejects the command line
PREFIX_OPTS = {"-r": ("setRepeatCount", ()), "-s": ("setShuffle", ()), "-o": ("setOutputType", ()), "-k": ("setPackageName", ()), "-p": ("plugin", ()),
               "-g": ("addGroupFilter", ()), "-sg": ("addStrictGroupFilter", ()), "-xg": ("addExcludeGroupFilter", ()), "-xsg": ("addExcludeStrictGroupFilter", ()),
               "-n": ("addNameFilter", ()), "-sn": ("addStrictNameFilter", ()), "-xn": ("addExcludeNameFilter", ()), "-xsn": ("addExcludeStrictNameFilter", ()),
               "-t": ("addGroupDotNameFilter", ("-t", 0, 0)), "-st": ("addGroupDotNameFilter", ("-st", 1, 0)), "-xt": ("addGroupDotNameFilter", ("-xt", 0, 1)),
               "-xst": ("addGroupDotNameFilter", ("-xst", 1, 1)), "TEST(": ("addTestToRunBasedOnVerboseOutput", ("TEST(",)), "IGNORE_TEST(": ("addTestToRunBasedOnVerboseOutput", ("IGNORE_TEST(",))}


def reference_dispatch(arg):
    """the documented meaning of one argument: an exact flag, else the longest option literal it starts with, else a rejection"""
    if arg in FLAGS:
        return ("flag", FLAGS[arg][0], 1 if FLAGS[arg][1] == "true" else 0)
    best = None
    for lit in PREFIX_OPTS:
        if arg.startswith(lit) and (best is None or len(lit) > len(best)):
            best = lit
    if best is None:
        return ("reject",)
    return ("handler",) + PREFIX_OPTS[best]


def ev_text(v, env):
    """text of an element pointer value given the cells of an environment"""
    if not (isinstance(v, tuple) and v[0] == "ptr"):
        return v
    out, i_ = [], v[2]
    while "%s[%d]" % (v[1], i_) in env and env["%s[%d]" % (v[1], i_)] != 0 and len(out) < 4096:
        out.append(chr(env["%s[%d]" % (v[1], i_)] & 0xff))
        i_ += 1
    return "".join(out)


def initial_fields(prog, ac, av):
    """the fields a freshly constructed CommandLineArguments holds: its constructor folded"""
    ct = [f for f in prog.methods_of(CLS) if f.kind == "ctor"][0]
    e = Evaluator(prog, ct, env={ct.params[0]["name"]: ac, ct.params[1]["name"]: av})
    e.objects = True
    e.run_blocks(ct.entry, max_steps=300)
    fields = {fl["name"] for fl in prog.records.get(CLS, {}).get("fields", [])}
    return {k: v for k, v in e.env.items() if k in fields}


def fold_parse(prog, argv, answers=None, consume=()):
    """CommandLineArguments::parse folded on a model argv (argv[0] is the program name). The option handlers and the
    plugin are recording stubs (answers: handler -> result, default true; consume: handlers that advance the index by
    one, as a handler taking its value from the next argument does); every other member parse() uses is inlined.
    Returns (return value, events, fields changed)."""
    answers = answers or {}
    parse = prog.fn(CLS + "::parse")
    env = initial_fields(prog, len(argv), ("ptr", "AV", 0))
    for i_, a in enumerate(argv):
        env["AV[%d]" % i_] = ("str", a)
    before = dict(env)
    env[parse.params[0]["name"]] = 900
    events = []

    def handler(name):
        def h(ev_, *a_):
            vals = [x if isinstance(x, int) else (x[1] if isinstance(x, tuple) and x[0] == "str" else str(x)) for x in a_]
            events.append((name,) + tuple(vals))
            if name in consume:
                keys = getattr(ev_, "last_arg_keys", [])
                k_ = keys[2] if len(keys) > 2 else None
                if k_ is None or not isinstance(ev_.env.get(k_), int):
                    raise Unknown("index argument of %s is not an lvalue" % name)
                ev_.env[k_] += 1
                ev_.stores.append((k_, ev_.env[k_]))
            return answers.get(name, 1)
        h.wants_ev = True
        return h
    hooks = {CLS + "::" + hn: handler(hn) for hn in HANDLERS}
    hooks["TestPlugin::parseAllArguments"] = handler("plugin")
    ev = Evaluator(prog, parse, env=env, calls=string_hooks(hooks))
    ev.pass_object = True
    ev.run_blocks(parse.entry, max_steps=6000)
    r = getattr(ev, "ret", None)
    if not isinstance(r, int):
        raise Unknown("parse returns %r" % (r,))
    changed = {k: v for k, v in ev.env.items() if k in before and before[k] != v and not k.startswith("AV")}
    return r, events, changed


def check(ctx, run):
    prog = ctx.program()
    run.assume("the option letters and their meaning are those of the program's own help text (public contract frozen in the rule tables)")
    run.not_decided.append("termination and memory safety of the string primitives for arbitrary argument bytes (C13's undecided part); C13.R2 reports the subString defect reachable from an unterminated TEST( argument")
    run.rule("R1", "dispatch shadow-freedom: parse() folded on [prog, <arg>] for every documented option literal (alone, with a value, with =) selects exactly that option's documented action (exact flag, else longest option literal the argument starts with): no option is shadowed by an earlier test", floor=31, exhaustive=True)
    run.rule("R2", "handler/flag TABLE: each option sets its own field / calls the handler that reads its own literal; s => strictMatching, x => invertMatching, g/n => group/name list; getters return their fields; the runner consumes each getter with the documented action", floor=70)
    run.rule("R3", "argv index safety: every value-taking handler and getParameterField folded on model command lines (value attached / in the next argument / missing, option last) in which only argv[0..ac-1] and each argument up to its terminator exist never read outside them, take the documented value and leave the index inside argv; plugins get i by value; subString positions are total", floor=10)
    run.rule("R4", "rejection means no run: parse() folded on near-miss arguments rejects without effect; on multi-argument command lines a rejection or a false handler verdict ends parsing at once, accepted arguments are each dispatched once at their own index, a handler that consumed the next argument skips it; the runner calls runAllTests only on the true edge of parseArguments; -h rejects", floor=4)
    run.rule("R5", "repeat/shuffle: setRepeatCount / setShuffle folded on model command lines (number attached, separate, zero, not a number, missing; clock zero/non-zero): the next argument is consumed only when it parses to a non-zero number; defaults applied otherwise; a zero seed is rejected", floor=6)

    parse = prog.fn(CLS + "::parse")
    run.analysed(parse)
    # ---------------- R1 / R2 (dispatch) / R4 (parse) ----------------------------
    # parse() folded on model command lines with recording stubs for the option handlers; the oracle is the documented
    # meaning of an argument (reference_dispatch): an exact flag, else the longest option literal it starts with
    corpus = list(FLAGS)
    for lit in PREFIX_OPTS:
        corpus += [lit, lit + "X1", lit + "="]
    corpus += ["", "-", "-z", "-hx", "-vvv", "-vx", "-cx", "-bx", "-lgx", "-lnx", "-llx", "-l", "-fx", "-ex", "-cix", "-rix", "-x", "-xs", "-xq", "TEST", "IGNORE_TEST",
               "IGNORE_TEST(a, b)", "test(", " -v", "-V", "--v", "-sgA", "-snB", "-stC.d", "-s5", "-xsgQ", "-xsnQ", "-xstQ.r", "v", "-ci-", "-e-", "-G"]
    seen_args = set()
    try:
        for arg in corpus:
            if arg in seen_args:
                continue
            seen_args.add(arg)
            ref = reference_dispatch(arg)
            r, events, changed = fold_parse(prog, ["prog", arg])
            shown = {"returns": r, "handlers": [list(e) for e in events], "fields changed": changed}
            why = ""
            if ref[0] == "flag":
                want_r = 0 if arg == "-h" else 1
                if events or changed != {ref[1]: ref[2]} or r != want_r:
                    why = "documented flag %s must set %s = %d only and %s" % (arg, ref[1], ref[2], "reject the run" if not want_r else "accept")
                rid = "R2"
            elif ref[0] == "reject":
                if events or changed or r != 0:
                    why = "an argument that is no documented option must be rejected without effect"
                rid = "R4"
            else:
                name, extra = ref[1], ref[2]
                want = (name,) + ((900,) if name == "plugin" else ()) + (2, str(("ptr", "AV", 0)), 1) + tuple(extra)
                if events != [want] or changed or r != 1:
                    why = "%r must reach %s%s with (ac_, av_, i)%s and nothing else" % (arg, name, "" if name != "plugin" else " of the plugin chain", (" and " + repr(extra)) if extra else "")
                else:
                    r0, ev0, ch0 = fold_parse(prog, ["prog", arg, "-v"], answers={name: 0})
                    if name in VERDICT_HANDLERS and (r0 != 0 or ch0):
                        why = "a false verdict of %s must reject the command line at once (returns %s, later fields %s)" % (name, r0, ch0)
                    if name not in VERDICT_HANDLERS and (r0 != 1 or ch0 != {"verbose_": 1}):
                        why = "%s has no verdict: parsing must go on with the next argument" % name
                rid = "R1" if arg in PREFIX_OPTS or arg in FLAGS else "R2"
            run.ob(rid if not (ref[0] == "flag" and arg in FLAGS) else "R2", "argument %r: %s" % (arg, " ".join(str(x) for x in ref)), parse.site, not why, witness=shown, what=why)
            if ref[0] != "reject" and arg in list(FLAGS) + list(PREFIX_OPTS):
                run.ob("R1", "option %s is reachable: it selects its own documented action" % arg, parse.site, not why, witness=shown,
                       what="" if not why else "option %s can never be selected (an earlier test catches it) or selects another action: %s" % (arg, why))
        seqs = [
            (["prog"], {}, (), 1, [], {}),
            (["prog", "-v", "-gX", "-c", "-snY"], {}, (), 1, [("addGroupFilter", 5, 2), ("addStrictNameFilter", 5, 4)], {"verbose_": 1, "color_": 1}),
            (["prog", "-c", "-zz", "-v"], {}, (), 0, [], {"color_": 1}),
            (["prog", "-v", "-h", "-c"], {}, (), 0, [], {"verbose_": 1, "needHelp_": 1}),
            (["prog", "-oxml", "-v"], {"setOutputType": 0}, (), 0, [("setOutputType", 3, 1)], {}),
            (["prog", "-kpkg", "-v"], {"setPackageName": 0}, (), 1, [("setPackageName", 3, 1)], {"verbose_": 1}),
            (["prog", "-r", "3", "-v"], {}, ("setRepeatCount",), 1, [("setRepeatCount", 4, 1)], {"verbose_": 1}),
            (["prog", "-g", "X"], {}, ("addGroupFilter",), 1, [("addGroupFilter", 3, 1)], {}),
            (["prog", "-s", "77", "-b", "-xgA"], {}, ("setShuffle",), 1, [("setShuffle", 5, 1), ("addExcludeGroupFilter", 5, 4)], {"reversing_": 1}),
            (["prog", "-p", "-pfoo", "-ri"], {"plugin": 1}, (), 1, [("plugin", 4, 2)], {"runTestsAsSeperateProcess_": 1, "runIgnored_": 1}),
            (["prog", "-pfoo", "-ri"], {"plugin": 0}, (), 0, [("plugin", 3, 1)], {}),
            (["prog", "-e", "-ci", "-f", "-lg", "-ln", "-ll", "-vv"], {}, (), 1, [], {"rethrowExceptions_": 0, "crashOnFail_": 1, "listTestGroupNames_": 1, "listTestGroupAndCaseNames_": 1, "listTestLocations_": 1, "veryVerbose_": 1}),
        ]
        for argv, answers, consume, want_r, want_ev, want_ch in seqs:
            r, events, changed = fold_parse(prog, argv, answers=answers, consume=consume)
            got_ev = [(e[0],) + tuple(x for x in e[1:] if isinstance(x, int) and x != 900)[:2] for e in events]
            ok = (r, got_ev, changed) == (want_r, want_ev, want_ch)
            run.ob("R4", "command line %s%s%s" % (argv[1:], (" with %s" % answers) if answers else "", (", %s taking its value from the next argument" % consume[0]) if consume else ""), parse.site, ok,
                   witness={"returns": r, "handlers (name, ac, i)": [list(e) for e in got_ev], "fields changed": changed},
                   what="" if ok else "expected: returns %d, handlers %s, fields %s (a rejection must end parsing at once; an accepted argument must not end it; each argument is dispatched once at its own index)" % (want_r, want_ev, want_ch))
    except Unknown as u:
        raise AnalysisBroken("C12: parse() cannot be folded on a model command line: %s" % u)

    # ---------------- R2 ----------------------------------------------------
    for g, field in GETTERS.items():
        f = prog.fn("%s::%s" % (CLS, g))
        run.analysed(f)
        rets = getter_fold(prog, f, field)
        run.ob("R2", "getter %s returns %s (folded)" % (g, field), f.site, rets == 424242, witness=rets)
    # filter handlers (which handler an option literal reaches is decided by the parse fold above)
    for opt, (lst, s, x) in FILTER_OPTS.items():
        h = prog.fn(CLS + "::" + PREFIX_OPTS[opt][0])
        run.analysed(h)
        why = []
        sliced = []
        # the handler folded: which filter object it creates, how it is modified and where it is pushed
        log = []
        GL, NL = 500, 600
        ev = Evaluator(prog, h, env=dict({"groupFilters_": GL, "nameFilters_": NL}, **{q["name"]: 3 for q in h.params}),
                       calls=string_hooks({CLS + "::getParameterField": lambda *a_, sliced=sliced: (sliced.append(a_[-1]), ("str", "value"))[1],
                                           "TestFilter::strictMatching": lambda *a_: (log.append(("strict", a_[0])), 0)[1],
                                           "TestFilter::invertMatching": lambda *a_: (log.append(("invert", a_[0])), 0)[1],
                                           "TestFilter::add": lambda *a_: (log.append(("add", a_[0], a_[1])), a_[0])[1]}))
        ev.pass_object = True
        try:
            ev.run_blocks(h.entry, max_steps=400)
        except Unknown as u:
            run.broke("C12.R2: handler %s cannot be folded: %s" % (h.qn, u))
            continue
        if sliced != [("str", opt)]:
            why.append("handler slices the value with %r, the option literal is %r" % ([x_[1] if isinstance(x_, tuple) else x_ for x_ in sliced], opt))
        news = [t for t in ev.trace if t[0].startswith("new TestFilter")]
        if len(news) != 1 or news[0][1][1:] != [("str", "value")]:
            why.append("creates %d filters from %s; expected one from the option's value" % (len(news), [t[1][1:] for t in news]))
        else:
            obj = news[0][1][0]
            ns, ni = log.count(("strict", obj)), log.count(("invert", obj))
            if ns != (1 if s == "s" else 0) or len([x for x in log if x[0] == "strict"]) != ns:
                why.append("strictMatching called %d times for %s" % (len([x for x in log if x[0] == "strict"]), opt))
            if ni != (1 if x == "x" else 0) or len([x_ for x_ in log if x_[0] == "invert"]) != ni:
                why.append("invertMatching called %d times for %s" % (len([x_ for x_ in log if x_[0] == "invert"]), opt))
            wl, ol = ("groupFilters_", "nameFilters_") if lst == "g" else ("nameFilters_", "groupFilters_")
            old = GL if lst == "g" else NL
            if [x_ for x_ in log if x_[0] == "add"] != [("add", obj, old)] or ev.env.get(wl) != obj or ev.env.get(ol) != (NL if lst == "g" else GL):
                why.append("the new filter is not pushed once in front of %s (adds %s, lists now %s / %s)" % (wl, [x_ for x_ in log if x_[0] == "add"], ev.env.get("groupFilters_"), ev.env.get("nameFilters_")))
        run.ob("R2", "filter option %s -> %s" % (opt, h.name), h.site, not why, witness=why or "literal, modifiers and list agree", what="; ".join(why))
    dn = prog.fn(CLS + "::addGroupDotNameFilter")
    run.analysed(dn)
    pn = [p["name"] for p in dn.params]

    def fold_dot(text, strict, exclude):
        log = []
        state = {}

        def split(ev_, *a_):
            t = a_[0][1] if isinstance(a_[0], tuple) else None
            d = a_[1][1] if len(a_) > 1 and isinstance(a_[1], tuple) else None
            if t is None or not d:
                return None
            parts, rest = [], t
            while d in rest:
                i_ = rest.index(d) + len(d)
                parts.append(rest[:i_])
                rest = rest[i_:]
            if rest:
                parts.append(rest)
            state["parts"] = parts
            return 0
        split.wants_ev = True
        GL, NL = 500, 600
        hooks = string_hooks({CLS + "::getParameterField": lambda *a_: (log.append(("field", a_[-1])), ("str", text))[1], "SimpleString::split": split,
                              "SimpleStringCollection::size": lambda *a_: len(state.get("parts", [])),
                              "SimpleStringCollection::operator[]": lambda *a_: ("str", state["parts"][a_[-1]]) if isinstance(a_[-1], int) and 0 <= a_[-1] < len(state.get("parts", [])) else None,
                              "SimpleString::subString": lambda o, b_, n_=None: ("str", o[1][b_:] if n_ is None else o[1][b_:b_ + n_]) if isinstance(o, tuple) and isinstance(b_, int) else None,
                              "TestFilter::strictMatching": lambda *a_: (log.append(("strict", a_[0])), 0)[1], "TestFilter::invertMatching": lambda *a_: (log.append(("invert", a_[0])), 0)[1],
                              "TestFilter::add": lambda *a_: (log.append(("add", a_[0], a_[1])), a_[0])[1]})
        ev = Evaluator(prog, dn, env={"groupFilters_": GL, "nameFilters_": NL, pn[0]: 3, pn[1]: 7, pn[2]: 1, pn[3]: ("str", "-t"), pn[4]: strict, pn[5]: exclude}, calls=hooks)
        ev.pass_object = True
        ev.run_blocks(dn.entry, max_steps=600)
        news = [t[1] for t in ev.trace if t[0].startswith("new TestFilter")]
        return getattr(ev, "ret", None), news, log, ev.env.get("groupFilters_"), ev.env.get("nameFilters_")
    try:
        for strict, exclude in itertools.product((0, 1), (0, 1)):
            r, news, log, gl, nl = fold_dot("grp.name", strict, exclude)
            why = ""
            texts = [n_[1:] for n_ in news]
            if r != 1 or texts != [[("str", "grp")], [("str", "name")]]:
                why = "returns %s and creates filters from %s; expected true and (\"grp\"), (\"name\")" % (r, texts)
            else:
                g_, n2 = news[0][0], news[1][0]
                for o in (g_, n2):
                    if log.count(("strict", o)) != (1 if strict else 0) or log.count(("invert", o)) != (1 if exclude else 0):
                        why = "filter modifiers applied as %s for strict=%d exclude=%d" % ([x for x in log if x[0] in ("strict", "invert")], strict, exclude)
                if not why and (gl != g_ or nl != n2 or ("add", g_, 500) not in log or ("add", n2, 600) not in log):
                    why = "the filters are not pushed in front of their own lists (group list %s, name list %s, %s)" % (gl, nl, [x for x in log if x[0] == "add"])
                if not why and [x[1] for x in log if x[0] == "field"] != [("str", "-t")]:
                    why = "the value is sliced with %s, not with the option literal it was given" % ([x[1] for x in log if x[0] == "field"],)
            run.ob("R2", "addGroupDotNameFilter folded [strict=%d exclude=%d] on \"grp.name\"" % (strict, exclude), dn.site, not why, witness=why or "ok", what=why)
        for text in ("nodot", "a.b.c", ""):
            r, news, log, gl, nl = fold_dot(text, 1, 1)
            okr = r == 0 and not news and (gl, nl) == (500, 600)
            run.ob("R2", "addGroupDotNameFilter folded on %r: rejected, no filter added" % text, dn.site, okr, witness={"returns": r, "filters": len(news)})
    except Unknown as u:
        run.broke("C12.R2: addGroupDotNameFilter cannot be folded: %s" % u)
    tv = prog.fn(CLS + "::addTestToRunBasedOnVerboseOutput")
    run.analysed(tv)
    def from_till(o, c1, c2):
        if not (isinstance(o, tuple) and isinstance(c1, int) and isinstance(c2, int)):
            return None
        t = o[1]
        b_ = t.find(chr(c1 & 0xff))
        if b_ < 0:
            return ("str", "")
        e_ = t.find(chr(c2 & 0xff), b_)
        return ("str", t[b_:] if e_ < 0 else t[b_:e_])
    for text, wg, wn in (("grp, name)", "grp", "name"), ("MyGroup, test_one)", "MyGroup", "test_one")):
        log = []
        hooks = string_hooks({CLS + "::getParameterField": lambda *a_, text=text: ("str", text), "SimpleString::subStringFromTill": from_till,
                              "SimpleString::subString": lambda o, b_, n_=None: ("str", o[1][b_:] if n_ is None else o[1][b_:b_ + n_]) if isinstance(o, tuple) and isinstance(b_, int) else None,
                              "TestFilter::strictMatching": lambda *a_: (log.append(("strict", a_[0])), 0)[1], "TestFilter::invertMatching": lambda *a_: (log.append(("invert", a_[0])), 0)[1],
                              "TestFilter::add": lambda *a_: (log.append(("add", a_[0], a_[1])), a_[0])[1]})
        ev = Evaluator(prog, tv, env=dict({"groupFilters_": 500, "nameFilters_": 600}, **{q["name"]: 3 for q in tv.params}), calls=hooks)
        ev.pass_object = True
        why = ""
        try:
            ev.run_blocks(tv.entry, max_steps=600)
            news = {(t[1][1][1] if len(t[1]) > 1 and isinstance(t[1][1], tuple) else None): t[1][0] for t in ev.trace if t[0].startswith("new TestFilter")}
            if set(news) != {wg, wn}:
                why = "creates filters %s; expected group %r and name %r" % (sorted(map(str, news)), wg, wn)
            elif sorted(x for x in log if x[0] != "add") != sorted([("strict", news[wg]), ("strict", news[wn])]):
                why = "modifiers applied: %s; expected strict matching once on each filter" % ([x for x in log if x[0] != "add"],)
            elif ev.env.get("groupFilters_") != news[wg] or ev.env.get("nameFilters_") != news[wn] or ("add", news[wg], 500) not in log or ("add", news[wn], 600) not in log:
                why = "the group filter must be pushed on the group list and the name filter on the name list (%s)" % ([x for x in log if x[0] == "add"],)
        except Unknown as u:
            run.broke("C12.R2: addTestToRunBasedOnVerboseOutput cannot be folded: %s" % u)
            continue
        run.ob("R2", "TEST(g, n) form folded on %r: adds one strict group filter %r and one strict name filter %r" % (text, wg, wn), tv.site, not why, witness=why or "ok", what=why)
    so = prog.fn(CLS + "::setOutputType")
    run.analysed(so)
    kinds = {e["name"]: e["v"] for en in prog.enums.values() for e in en["enumerators"] if e["name"].startswith("OUTPUT_")}

    def fold_output(text):
        ev = Evaluator(prog, so, env={"outputType_": 99, so.params[0]["name"]: 3, so.params[1]["name"]: 7, so.params[2]["name"]: 1},
                       calls=string_hooks({CLS + "::getParameterField": lambda *a_: ("str", text)}))
        ev.pass_object = True
        ev.run_blocks(so.entry, max_steps=400)
        return getattr(ev, "ret", None), ev.env.get("outputType_")
    folded = {}
    try:
        for lit in list(OUTPUT_KINDS) + ["", "xml", "Junit", "junit ", "normal2"]:
            folded[lit] = fold_output(lit)
    except Unknown as u:
        run.broke("C12.R2: setOutputType cannot be folded: %s" % u)
    for lit, en in OUTPUT_KINDS.items():
        got = folded.get(lit)
        ok = got is not None and got == (1, kinds.get(en))
        run.ob("R2", "output kind %s -> %s, accepted" % (lit, en), so.site, ok, witness=got)
    rows = {"<none>": [(k, v) for k, v in folded.items() if k not in OUTPUT_KINDS and v != (0, 99)]}
    if not rows["<none>"]:
        del rows["<none>"]
    run.ob("R2", "no assignment of the output kind without a matching literal", so.site, "<none>" not in rows, witness=rows.get("<none>"))
    for g, en in (("isEclipseOutput", "OUTPUT_ECLIPSE"), ("isJUnitOutput", "OUTPUT_JUNIT"), ("isTeamCityOutput", "OUTPUT_TEAMCITY")):
        f = prog.fn("%s::%s" % (CLS, g))
        run.analysed(f)
        kinds = {e_["name"]: e_["v"] for enm in prog.enums.values() for e_ in enm["enumerators"] if e_["name"].startswith("OUTPUT_")}
        if en not in kinds:
            raise AnalysisBroken("C12.R2: enumerator %s not found" % en)
        got = {k_: getter_fold(prog, f, "outputType_", token=v_) for k_, v_ in kinds.items()}
        ok = all(isinstance(r_, (int, bool)) and int(bool(r_)) == (1 if k_ == en else 0) for k_, r_ in got.items())
        run.ob("R2", "%s folded over every output kind: true for %s only" % (g, en), f.site, ok, witness=got)
    # runner consumers
    init = prog.fn("CommandLineTestRunner::initializeTestRun")
    run.analysed(init)
    paths = enumerate_paths(init)
    for g, action in CONSUMERS.items():
        ok = True
        for p in paths:
            v = p.val().get("arguments_->%s()" % g)
            made = [render(init, c) for c in path_calls(prog, init, p)].count(action)
            if v is None or made != (1 if v else 0):
                ok = False
        run.ob("R2", "runner: %s() <=> %s" % (g, action), init.site, ok)
    allc = [render(init, c) for c in init.calls()]
    for need in ("registry_->setGroupFilters(arguments_->getGroupFilters())", "registry_->setNameFilters(arguments_->getNameFilters())",
                 "UtestShell::setRethrowExceptions(arguments_->isRethrowingExceptions())"):
        run.ob("R2", "runner: %s" % need, init.site, allc.count(need) == 1, witness=[c for c in allc if need.split("(")[0] in c])
    # what the parsed filter lists mean when the registry asks a test whether it should run (shared with C02.R2)
    from .C02 import selection_rules
    selection_rules(prog, run, "R2")
    from .shared import runner_fold
    rt = prog.fn("CommandLineTestRunner::runAllTests")
    run.analysed(rt)
    try:
        for g, lister in (("isListingTestGroupNames", "listTestGroupNames"), ("isListingTestGroupAndCaseNames", "listTestGroupAndCaseNames"), ("isListingTestLocations", "listTestLocations")):
            r, events = runner_fold(prog, [(0, 0), (0, 0)], {g: 1, "isReversing": 1, "isShuffling": 1})
            kinds = [e[0] for e in events if e[0] not in ("new-result", "setGroupFilters", "setNameFilters")]
            ok = kinds == ["initialize", lister] and r == 0
            run.ob("R2", "runner folded: %s applies the parsed configuration (filters) first, then lists with %s, runs nothing, returns 0" % (g, lister), rt.site, ok, witness={"events": kinds, "returns": r},
                   what="" if ok else "the runner does %s: the listing does not see the filters of the command line (or something is run)" % kinds)
        for rev, sh, nrep in itertools.product((0, 1), (0, 1), (1, 3)):
            r, events = runner_fold(prog, [(0, 0)] * nrep, {"isReversing": rev, "isShuffling": sh}, seed=4711)
            kinds = [e for e in events if e[0] not in ("new-result", "setGroupFilters", "setNameFilters")]
            if kinds[:1] != [("initialize",)]:
                run.ob("R2", "runner folded [reverse=%d shuffle=%d repetitions=%d]: the parsed configuration is applied before anything else" % (rev, sh, nrep), rt.site, False, witness=[list(e) for e in kinds])
            kinds = [e for e in kinds if e != ("initialize",)]
            want = ([("reverseTests",)] if rev else []) + ([("shuffleTests", 4711)] if sh else []) + [("runAllTests",)]
            want = want[:1 if rev else 0] + (want[1 if rev else 0:]) * nrep
            ok = kinds == want
            run.ob("R2", "runner folded [reverse=%d shuffle=%d repetitions=%d]: reverse once before the repetitions, shuffle with the given seed before each run" % (rev, sh, nrep), rt.site, ok,
                   witness=[list(e) for e in kinds], what="" if ok else "runner does %s, expected %s" % (kinds, want))
    except Unknown as u:
        run.broke("C12.R2: the runner cannot be folded: %s" % u)
    pa = prog.fn("CommandLineTestRunner::parseArguments")
    run.analysed(pa)
    for p in enumerate_paths(pa):
        val = p.val()
        names = [render(pa, c) for c in path_calls(prog, pa, p)]
        if val.get("arguments_->parse(plugin)") is False:
            continue
        if val.get("arguments_->isJUnitOutput()"):
            ok = "createJUnitOutput(arguments_->getPackageName())" in names and "createTeamCityOutput()" not in names
        elif val.get("arguments_->isTeamCityOutput()"):
            ok = "createTeamCityOutput()" in names and not any(n.startswith("createJUnitOutput") for n in names)
        else:
            ok = "createConsoleOutput()" in names and not any(n.startswith("createJUnitOutput") or n.startswith("createTeamCity") for n in names)
        run.ob("R2", "runner: output kind [%s]" % short(p.describe(pa), 90), pa.site, ok, witness=names[-3:])

    # ---------------- R3 / R5 -------------------------------------------------
    # the handlers that index argv folded on model command lines in which only argv[0..ac-1] and the characters of each
    # argument up to its terminator exist: any other read is a read outside the object
    def atoi(ev_, v):
        m_ = re.match(r"\s*([+-]?\d+)", ev_.cstring(v))
        return int(m_.group(1)) if m_ else 0
    atoi.wants_ev = True

    def atou(ev_, v):
        return atoi(ev_, v) & 0xffffffff
    atou.wants_ev = True

    def fold_handler(hname, argv, i, extra=(), now=123456):
        h = prog.fn(CLS + "::" + hname)
        pn = [q["name"] for q in h.params]
        env = initial_fields(prog, len(argv), ("ptr", "AV", 0))
        env.update({"groupFilters_": 500, "nameFilters_": 600, "packageName_": ("str", ""), pn[0]: len(argv), pn[1]: ("ptr", "AV", 0), pn[2]: i})
        env.update(dict(zip(pn[3:], extra)))
        for j, a_ in enumerate(argv):
            env["AV[%d]" % j] = ("str", a_)
        log = []
        hooks = string_hooks({"SimpleString::AtoI": atoi, "SimpleString::AtoU": atou, "GetPlatformSpecificTimeInMillis": lambda *a_: now,
                              "TestFilter::strictMatching": lambda *a_: (log.append(("strict", a_[0])), 0)[1], "TestFilter::invertMatching": lambda *a_: (log.append(("invert", a_[0])), 0)[1],
                              "TestFilter::add": lambda *a_: (log.append(("add", a_[0], a_[1])), a_[0])[1]})
        ev = Evaluator(prog, h, env=env, calls=hooks)
        ev.pass_object = True
        try:
            ev.run_blocks(h.entry, max_steps=3000)
        except Unknown:
            if not [k_ for k_ in getattr(ev, "absent_reads", []) if re.match(r"AV\[|L\d+\[", k_)]:
                raise
        out_ = [k_ for k_ in getattr(ev, "absent_reads", []) if re.match(r"AV\[|L\d+\[", k_)]
        if out_:
            raise Unknown("read outside the object: %s" % out_[0])
        news = [t[1] for t in ev.trace if t[0].startswith("new TestFilter")]
        r = getattr(ev, "ret", None)
        return r, ev.env.get(pn[2]), ev.env, news, log

    def outside(u):
        return bool(re.search(r"AV\[|read outside the object|L\d+\[", str(u)))

    def value_models(lit):
        """(argv, index, value the option has, index afterwards)"""
        return [(["prog", lit], 1, "", 1), (["prog", lit + "Val"], 1, "Val", 1), (["prog", lit, "Val"], 1, "Val", 2), (["prog", "-v", lit], 2, "", 2),
                (["prog", "-v", lit, "Nxt", "-c"], 2, "Nxt", 3), (["prog", lit + "V"], 1, "V", 1)]
    for lit, (hname, extra) in sorted(PREFIX_OPTS.items()):
        if hname in ("plugin", "addGroupDotNameFilter", "addTestToRunBasedOnVerboseOutput", "setRepeatCount", "setShuffle"):
            continue
        h = prog.fn(CLS + "::" + hname)
        run.analysed(h)
        why = ""
        for argv, i, val, after in value_models(lit):
            try:
                r, i2, env2, news, log = fold_handler(hname, argv, i)
            except Unknown as u:
                if outside(u):
                    why = why or "on %s (index %d) the handler reads outside argv or past the end of an argument: %s" % (argv, i, u)
                    continue
                raise AnalysisBroken("C12.R3: %s cannot be folded on %s: %s" % (hname, argv, u))
            if i2 != after:
                why = why or "on %s the index goes from %d to %s, expected %d (the value %s the next argument)" % (argv, i, i2, after, "is" if after != i else "is not")
            elif hname.startswith("add") and [n_[1:] for n_ in news] != [[("str", val)]]:
                why = why or "on %s the filter is created from %s, the option's value is %r" % (argv, [n_[1:] for n_ in news], val)
            elif hname == "setPackageName" and env2.get("packageName_") != ("str", val):
                why = why or "on %s the package name becomes %r, the option's value is %r" % (argv, env2.get("packageName_"), val)
        run.ob("R3", "%s (%s) folded on 6 command lines: reads stay inside argv[0..ac-1] and inside each argument; the value is the attached text, else the next argument (consumed), else empty" % (hname, lit), h.site, not why,
               witness=why or "attached / separate / missing value, option last", what=why)
    gp = prog.fn(CLS + "::getParameterField")
    run.analysed(gp)
    why = ""
    for lit in ("-g", "-xg", "-xsg", "TEST(", "IGNORE_TEST("):
        for argv, i, val, after in value_models(lit):
            try:
                r, i2, env2, news, log = fold_handler("getParameterField", argv, i, extra=(("str", lit),))
            except Unknown as u:
                if outside(u):
                    why = why or "getParameterField(%s, %d, %r) reads outside argv or past the end of an argument: %s" % (argv, i, lit, u)
                    continue
                raise AnalysisBroken("C12.R3: getParameterField cannot be folded on %s: %s" % (argv, u))
            got = r[1] if isinstance(r, tuple) and r[0] == "str" else (ev_text(r, env2) if isinstance(r, tuple) else r)
            if got != val or i2 != after:
                why = why or "getParameterField(%s, %d, %r) returns %r and leaves the index at %s; expected %r and %d" % (argv, i, lit, got, i2, val, after)
    run.ob("R3", "getParameterField folded for 5 option literals x 6 command lines: the text behind the literal, else the next argument (index advanced, bounded by ac), else empty", gp.site, not why, witness=why or "30 cases", what=why)
    # repeat / shuffle
    rc = prog.fn(CLS + "::setRepeatCount")
    run.analysed(rc)
    for argv, i, want_rep, after in ((["prog", "-r"], 1, 2, 1), (["prog", "-r5"], 1, 5, 1), (["prog", "-r", "3"], 1, 3, 2), (["prog", "-r", "-v"], 1, 2, 1), (["prog", "-r", "0"], 1, 2, 1),
                                     (["prog", "-r0"], 1, 2, 1), (["prog", "-r12"], 1, 12, 1), (["prog", "-c", "-r"], 2, 2, 2), (["prog", "-r", "7", "9"], 1, 7, 2), (["prog", "-rx"], 1, 2, 1), (["prog", "-r", "x3"], 1, 2, 1)):
        why = ""
        try:
            r, i2, env2, news, log = fold_handler("setRepeatCount", argv, i)
            if env2.get("repeat_") != want_rep or i2 != after:
                why = "repeat count %s, index %d -> %s; expected %d and %d (the next argument is consumed only when it parses to a non-zero number; no number means twice)" % (env2.get("repeat_"), i, i2, want_rep, after)
        except Unknown as u:
            if not outside(u):
                raise AnalysisBroken("C12.R5: setRepeatCount cannot be folded on %s: %s" % (argv, u))
            why = "reads outside argv or past the end of an argument: %s" % u
        run.ob("R5", "setRepeatCount folded on %s" % argv[1:], rc.site, not why, witness=why or {"repeat_": want_rep, "index": after}, what=why)
    sh = prog.fn(CLS + "::setShuffle")
    run.analysed(sh)
    for argv, i, now, want, after in ((["prog", "-s"], 1, 123456, (1, 123456, 0, 1), 1), (["prog", "-s"], 1, 0, (1, 1, 0, 1), 1), (["prog", "-s77"], 1, 5, (1, 77, 1, 1), 1), (["prog", "-s", "9"], 1, 5, (1, 9, 1, 1), 2),
                                      (["prog", "-s", "x"], 1, 5, (1, 5, 0, 1), 1), (["prog", "-s", "0"], 1, 5, (1, 5, 0, 1), 1), (["prog", "-s0"], 1, 5, (1, 0, 1, 0), 1), (["prog", "-b", "-s"], 2, 5, (1, 5, 0, 1), 2),
                                      (["prog", "-s", "-v"], 1, 8, (1, 8, 0, 1), 1), (["prog", "-s4294967295"], 1, 5, (1, 4294967295, 1, 1), 1),
                                      # the millisecond clock is wider than the seed: a clock whose low 32 bits are zero still gives a usable (non-zero) seed
                                      (["prog", "-s"], 1, 1 << 32, (1, 1, 0, 1), 1), (["prog", "-s"], 1, 3 << 32, (1, 1, 0, 1), 1), (["prog", "-s"], 1, (1 << 32) + 7, (1, 7, 0, 1), 1)):
        why = ""
        try:
            r, i2, env2, news, log = fold_handler("setShuffle", argv, i, now=now)
            got = (env2.get("shuffling_"), env2.get("shuffleSeed_"), env2.get("shufflingPreSeeded_"), r)
            if got != want or i2 != after:
                why = "(shuffling, seed, preseeded, accepted) = %s, index %d -> %s; expected %s and %d" % (got, i, i2, want, after)
        except Unknown as u:
            if not outside(u):
                raise AnalysisBroken("C12.R5: setShuffle cannot be folded on %s: %s" % (argv, u))
            why = "reads outside argv or past the end of an argument: %s" % u
        run.ob("R5", "setShuffle folded on %s with the clock at %d" % (argv[1:], now), sh.site, not why, witness=why or {"(shuffling, seed, preseeded, accepted)": want, "index": after}, what=why)
    tp = prog.method_decl([m for m in [x["mn"] for r in [prog.records.get("TestPlugin", {})] for x in r.get("methods", []) if x["name"] == "parseAllArguments"]][0])[1] if prog.records.get("TestPlugin") else None
    pts = [m for m in prog.records.get("TestPlugin", {}).get("methods", []) if m["name"] == "parseAllArguments"]
    ok = bool(pts) and all(m["params"][2]["ct"] == "int" for m in pts if len(m["params"]) == 3)
    run.ob("R3", "plugins receive the index by value", "include/CppUTest/TestPlugin.h:TestPlugin::parseAllArguments", ok, witness=[[p["ct"] for p in m["params"]] for m in pts])

    # the TEST(group, name) slicing calls subString/subStringFromTill with positions taken from the text: they must be total
    from .C13 import substring_bound_rule
    substring_bound_rule(prog, run, "R3")

    # ---------------- R4 (runner) -------------------------------------------
    rm = prog.fn("CommandLineTestRunner::runAllTestsMain")
    run.analysed(rm)
    # runAllTestsMain folded against recording stubs: the tests run exactly when the command line was accepted, the result of the run
    # is the result returned, and a rejected command line gives a non-zero result
    for accepted, run_result in ((1, 0), (1, 3), (0, 0)):
        seq = []
        hooks = string_hooks({"CommandLineTestRunner::parseArguments": lambda *a_: (seq.append("parse"), accepted)[1], "CommandLineTestRunner::runAllTests": lambda *a_: (seq.append("run"), run_result)[1],
                              "TestRegistry::installPlugin": lambda *a_: 0, "TestRegistry::removePluginByName": lambda *a_: 0, "TestRegistry::getFirstPlugin": lambda *a_: 70,
                              "SetPointerPlugin::SetPointerPlugin": lambda *a_: 0, "SetPointerPlugin::~SetPointerPlugin": lambda *a_: 0})
        ev = Evaluator(prog, rm, env={"registry_": 50}, calls=hooks)
        ev.pass_object = True
        ev.heap_mode = True
        ev.optional_stubs = set(hooks)
        try:
            ev.run_blocks(rm.entry, max_steps=600)
            r = getattr(ev, "ret", None)
        except Unknown as u:
            raise AnalysisBroken("C12.R4: runAllTestsMain cannot be folded: %s" % u)
        why = ""
        if seq != (["parse", "run"] if accepted else ["parse"]):
            why = "with the command line %s the runner does %s" % ("accepted" if accepted else "rejected", seq)
        elif accepted and r != run_result:
            why = "the run's result %d is returned as %s" % (run_result, r)
        elif not accepted and (not isinstance(r, int) or r == 0):
            why = "a rejected command line yields %s" % (r,)
        run.ob("R4", "runAllTestsMain folded [command line %s, run result %d]: tests run iff the arguments were accepted; a rejected command line yields a non-zero result" % ("accepted" if accepted else "rejected", run_result), rm.site, not why,
               witness={"calls": seq, "returns": r}, what=why)

"""C12 — command line: dispatch shadow-freedom, handler/flag tables, argv index safety, rejection means no run,
repeat/shuffle value skeletons. DESIGN.md section 4, C12."""
import re
import itertools
from .common import *
from cpv.ceval import Evaluator, Unknown

CLS = "CommandLineArguments"
UNIT = "src/CppUTest/CommandLineArguments.cpp"
# documented option -> (field, value) for the plain flags (help text of the program is the contract)
FLAGS = {"-v": ("verbose_", "true"), "-vv": ("veryVerbose_", "true"), "-c": ("color_", "true"), "-p": ("runTestsAsSeperateProcess_", "true"),
         "-b": ("reversing_", "true"), "-lg": ("listTestGroupNames_", "true"), "-ln": ("listTestGroupAndCaseNames_", "true"),
         "-ll": ("listTestLocations_", "true"), "-ri": ("runIgnored_", "true"), "-f": ("crashOnFail_", "true"),
         "-e": ("rethrowExceptions_", "false"), "-ci": ("rethrowExceptions_", "false"), "-h": ("needHelp_", "true")}
GETTERS = {"isVerbose": "verbose_", "isVeryVerbose": "veryVerbose_", "isColor": "color_", "runTestsInSeperateProcess": "runTestsAsSeperateProcess_",
           "isReversing": "reversing_", "isListingTestGroupNames": "listTestGroupNames_", "isListingTestGroupAndCaseNames": "listTestGroupAndCaseNames_",
           "isListingTestLocations": "listTestLocations_", "isRunIgnored": "runIgnored_", "isCrashingOnFail": "crashOnFail_",
           "isRethrowingExceptions": "rethrowExceptions_", "needHelp": "needHelp_", "getRepeatCount": "repeat_", "isShuffling": "shuffling_",
           "getShuffleSeed": "shuffleSeed_", "getGroupFilters": "groupFilters_", "getNameFilters": "nameFilters_", "getPackageName": "packageName_"}
CONSUMERS = {  # getter -> call made iff the getter is true, in initializeTestRun
    "isVerbose": "output_->verbose(level_verbose)", "isVeryVerbose": "output_->verbose(level_veryVerbose)",
    "isColor": "output_->color()", "runTestsInSeperateProcess": "registry_->setRunTestsInSeperateProcess()",
    "isRunIgnored": "registry_->setRunIgnored()", "isCrashingOnFail": "UtestShell::setCrashOnFail()"}
FILTER_OPTS = {"-g": ("g", "", ""), "-sg": ("g", "s", ""), "-xg": ("g", "", "x"), "-xsg": ("g", "s", "x"),
               "-n": ("n", "", ""), "-sn": ("n", "s", ""), "-xn": ("n", "", "x"), "-xsn": ("n", "s", "x")}
DOT_OPTS = {"-t": (False, False), "-st": (True, False), "-xt": (False, True), "-xst": (True, True)}
OUTPUT_KINDS = {"normal": "OUTPUT_ECLIPSE", "eclipse": "OUTPUT_ECLIPSE", "junit": "OUTPUT_JUNIT", "teamcity": "OUTPUT_TEAMCITY"}


def lit_of_simplestring(f, n):
    n = f.strip(n)
    while n is not None and n["k"] in ("CXXConstructExpr", "CXXTemporaryObjectExpr") and len(f.args(n)) == 1:
        n = f.strip(f.args(n)[0])
    if n is not None and n["k"] == "StringLiteral":
        return n["v"]
    return None


def cond_tests(f, n):
    """decompose a dispatch condition into [(kind, literal)] with kind exact|prefix (|| allowed)"""
    n = f.strip(n)
    if n is None:
        return None
    if n["k"] == "BinaryOperator" and n.get("op") == "||":
        a, b = cond_tests(f, f.node(n["lhs"])), cond_tests(f, f.node(n["rhs"]))
        return None if a is None or b is None else a + b
    if n["k"] == "CXXOperatorCallExpr" and n.get("callee", {}).get("qn", "").endswith("operator=="):
        a = f.args(n)
        if render(f, a[0]) == "argument":
            l = lit_of_simplestring(f, a[1])
            return [("exact", l)] if l is not None else None
    if n["k"] == "CXXMemberCallExpr" and n.get("callee", {}).get("qn") == "SimpleString::startsWith" and render(f, f.node(n.get("obj"))) == "argument":
        l = lit_of_simplestring(f, f.args(n)[0])
        return [("prefix", l)] if l is not None else None
    return None


def chain(f):
    """the dispatch of parse(): [(tests, then-node, if-node)] + final else. An else-if chain, or several such chains in
    sequence where every branch of an earlier chain leaves the iteration (return / continue), which is the same decision list"""
    firsts = []
    for n in f.walk():
        if n["k"] == "IfStmt" and cond_tests(f, f.node(n.get("cond"))) is not None:
            par = f.nodes.get(f.parent.get(n["id"]))
            if par is None or par["k"] != "IfStmt" or par.get("else") != n["id"]:
                firsts.append(n)

    def leaves(n):
        if n is None:
            return False
        if n["k"] in ("ReturnStmt", "ContinueStmt"):
            return True
        if n["k"] == "CompoundStmt" and n.get("c"):
            return leaves(n["c"][-1])
        return False
    out = []
    final_else = None
    for idx, first in enumerate(firsts):
        n = first
        part = []
        fe = None
        while n is not None and n["k"] == "IfStmt":
            t = cond_tests(f, f.node(n.get("cond")))
            if t is None:
                break
            part.append((t, f.node(n.get("then")), n))
            e = f.node(n.get("else"))
            if e is None or e["k"] != "IfStmt":
                fe = e
            n = e
        if idx + 1 < len(firsts):
            # falling out of this chain must mean "no branch matched": every branch leaves, and there is no final else
            if fe is not None or not all(leaves(th) for t, th, nn in part):
                continue        # a nested or unrelated test: not part of the decision list
        out += part
        final_else = fe
    return out, final_else


def check(ctx, run):
    prog = ctx.program()
    run.assume("the option letters and their meaning are those of the program's own help text (public contract frozen in the rule tables)")
    run.not_decided.append("termination and memory safety of the string primitives for arbitrary argument bytes (C13's undecided part); C13.R2 reports the subString defect reachable from an unterminated TEST( argument")
    run.rule("R1", "dispatch shadow-freedom: in the else-if chain of parse() no earlier exact literal equals, and no earlier prefix literal is a prefix of, a later branch's literal", floor=31, exhaustive=True)
    run.rule("R2", "handler/flag TABLE: each option sets its own field / calls the handler that reads its own literal; s => strictMatching, x => invertMatching, g/n => group/name list; getters return their fields; the runner consumes each getter with the documented action", floor=70)
    run.rule("R3", "argv index safety: every av[e] has e == i (in range by the loop/caller) or is dominated by i + 1 < ac; every av[i] + K is dominated by size() > K; plugins get i by value", floor=10)
    run.rule("R4", "rejection means no run: parse returns false in the iteration that rejects; the runner calls runAllTests only on the true edge of parseArguments; -h rejects", floor=4)
    run.rule("R5", "repeat/shuffle: the next argument is consumed only when it parses to a non-zero number; defaults applied otherwise", floor=6)

    parse = prog.fn(CLS + "::parse")
    run.analysed(parse)
    ch, final_else = chain(parse)
    if len(ch) < 25:
        raise AnalysisBroken("dispatch chain of parse() not recognised (%d branches)" % len(ch))

    # ---------------- R1 ----------------------------------------------------
    seen = []
    for tests, then, node in ch:
        for kind, lit in tests:
            sh = None
            for k0, l0 in seen:
                if k0 == "exact" and kind == "exact" and l0 == lit:
                    sh = (k0, l0)
                if k0 == "exact" and kind == "prefix" and False:
                    pass
                if k0 == "prefix" and lit.startswith(l0):
                    sh = (k0, l0)
            run.ob("R1", "%s %r is reachable" % (kind, lit), parse.site, sh is None, witness={"earlier": sh, "branch": short(render_stmt(parse, then), 80)},
                   what="" if sh is None else "option %s can never be selected: the earlier %s test %r catches it" % (lit, sh[0], sh[1]))
        seen.extend(tests)
    # an exact option that a *later* prefix would also match is fine; an exact literal matched by an EARLIER prefix is the bug (checked above)

    # ---------------- R2 ----------------------------------------------------
    branch_of = {}
    for tests, then, node in ch:
        for kind, lit in tests:
            branch_of[(kind, lit)] = then
    for opt, (field, val) in FLAGS.items():
        then = branch_of.get(("exact", opt))
        if then is None:
            run.ob("R2", "flag %s" % opt, parse.site, False, what="documented option %s has no exact-match branch" % opt)
            continue
        asg = [(l, render(parse, r)) for l, r, n in assignments(parse) if n["id"] in {x["id"] for x in parse.walk(then)}]
        ok = (field, val) in asg
        run.ob("R2", "flag %s sets %s = %s" % (opt, field, val), parse.site, ok, witness=asg, what="" if ok else "option %s does not set %s" % (opt, field))
    for g, field in GETTERS.items():
        f = prog.fn("%s::%s" % (CLS, g))
        run.analysed(f)
        rets = [render(f, f.node(n.get("value"))) for n in f.walk() if n["k"] == "ReturnStmt"]
        run.ob("R2", "getter %s returns %s" % (g, field), f.site, rets == [field], witness=rets)
    # filter handlers
    def handler_call(then):
        cs = [c for c in parse.calls(then) if (prog.callee_name(parse, c) or "").startswith(CLS + "::")]
        return cs
    for opt, (lst, s, x) in FILTER_OPTS.items():
        then = branch_of.get(("prefix", opt))
        if then is None:
            run.ob("R2", "filter option %s" % opt, parse.site, False, what="documented option %s has no prefix branch" % opt)
            continue
        cs = handler_call(then)
        if len(cs) != 1:
            run.ob("R2", "filter option %s" % opt, parse.site, False, what="branch does not call exactly one handler", witness=[render(parse, c) for c in cs])
            continue
        tg = prog.call_targets(parse, cs[0])
        h = prog.functions.get(tg[0][0]) if tg else None
        if h is None:
            run.ob("R2", "filter option %s" % opt, parse.site, False, what="handler unresolved")
            continue
        run.analysed(h)
        why = []
        args = [render(parse, a) for a in parse.args(cs[0])]
        if args != ["ac_", "av_", "i"]:
            why.append("handler called with %s" % args)
        lits = [lit_of_simplestring(h, h.args(c)[3]) for c in calls_to(prog, h, CLS + "::getParameterField") if len(h.args(c)) == 4]
        if lits != [opt]:
            why.append("handler slices the value with %r, the dispatch literal is %r" % (lits, opt))
        # the handler folded: which filter object it creates, how it is modified and where it is pushed
        log = []
        GL, NL = 500, 600
        ev = Evaluator(prog, h, env=dict({"groupFilters_": GL, "nameFilters_": NL}, **{q["name"]: 3 for q in h.params}),
                       calls=string_hooks({CLS + "::getParameterField": lambda *a_: ("str", "value"),
                                           "TestFilter::strictMatching": lambda *a_: (log.append(("strict", a_[0])), 0)[1],
                                           "TestFilter::invertMatching": lambda *a_: (log.append(("invert", a_[0])), 0)[1],
                                           "TestFilter::add": lambda *a_: (log.append(("add", a_[0], a_[1])), a_[0])[1]}))
        ev.pass_object = True
        try:
            ev.run_blocks(h.entry, max_steps=400)
        except Unknown as u:
            run.broke("C12.R2: handler %s cannot be folded: %s" % (h.qn, u))
            continue
        news = [t for t in ev.trace if t[0].startswith("new TestFilter")]
        if len(news) != 1 or news[0][1][1:] != [("str", "value")]:
            why.append("creates %d filters from %s; expected one from the option's value" % (len(news), [t[1][1:] for t in news]))
        else:
            obj = news[0][1][0]
            ns, ni = log.count(("strict", obj)), log.count(("invert", obj))
            if ns != (1 if s == "s" else 0) or len([x for x in log if x[0] == "strict"]) != ns:
                why.append("strictMatching called %d times for %s" % (len([x for x in log if x[0] == "strict"]), opt))
            if ni != (1 if x == "x" else 0) or len([x_ for x_ in log if x_[0] == "invert"]) != ni:
                why.append("invertMatching called %d times for %s" % (len([x_ for x_ in log if x_[0] == "invert"]), opt))
            wl, ol = ("groupFilters_", "nameFilters_") if lst == "g" else ("nameFilters_", "groupFilters_")
            old = GL if lst == "g" else NL
            if [x_ for x_ in log if x_[0] == "add"] != [("add", obj, old)] or ev.env.get(wl) != obj or ev.env.get(ol) != (NL if lst == "g" else GL):
                why.append("the new filter is not pushed once in front of %s (adds %s, lists now %s / %s)" % (wl, [x_ for x_ in log if x_[0] == "add"], ev.env.get("groupFilters_"), ev.env.get("nameFilters_")))
        run.ob("R2", "filter option %s -> %s" % (opt, h.name), h.site, not why, witness=why or "literal, modifiers and list agree", what="; ".join(why))
    for opt, (strict, excl) in DOT_OPTS.items():
        then = branch_of.get(("prefix", opt))
        cs = handler_call(then) if then is not None else []
        ok = len(cs) == 1
        w = None
        if ok:
            a = parse.args(cs[0])
            w = [render(parse, x) for x in a]
            ok = len(a) == 6 and w[:3] == ["ac_", "av_", "i"] and lit_of_simplestring(parse, a[3]) == opt and w[4] == ("true" if strict else "false") and w[5] == ("true" if excl else "false") \
                and prog.callee_name(parse, cs[0]) == CLS + "::addGroupDotNameFilter"
        run.ob("R2", "group.name option %s passes (%r, strict=%s, exclude=%s)" % (opt, opt, strict, excl), parse.site, ok, witness=w)
    dn = prog.fn(CLS + "::addGroupDotNameFilter")
    run.analysed(dn)
    pn = [p["name"] for p in dn.params]

    def fold_dot(text, strict, exclude):
        log = []
        state = {}

        def split(ev_, *a_):
            t = a_[0][1] if isinstance(a_[0], tuple) else None
            d = a_[1][1] if len(a_) > 1 and isinstance(a_[1], tuple) else None
            if t is None or not d:
                return None
            parts, rest = [], t
            while d in rest:
                i_ = rest.index(d) + len(d)
                parts.append(rest[:i_])
                rest = rest[i_:]
            if rest:
                parts.append(rest)
            state["parts"] = parts
            return 0
        split.wants_ev = True
        GL, NL = 500, 600
        hooks = string_hooks({CLS + "::getParameterField": lambda *a_: (log.append(("field", a_[-1])), ("str", text))[1], "SimpleString::split": split,
                              "SimpleStringCollection::size": lambda *a_: len(state.get("parts", [])),
                              "SimpleStringCollection::operator[]": lambda *a_: ("str", state["parts"][a_[-1]]) if isinstance(a_[-1], int) and 0 <= a_[-1] < len(state.get("parts", [])) else None,
                              "SimpleString::subString": lambda o, b_, n_=None: ("str", o[1][b_:] if n_ is None else o[1][b_:b_ + n_]) if isinstance(o, tuple) and isinstance(b_, int) else None,
                              "TestFilter::strictMatching": lambda *a_: (log.append(("strict", a_[0])), 0)[1], "TestFilter::invertMatching": lambda *a_: (log.append(("invert", a_[0])), 0)[1],
                              "TestFilter::add": lambda *a_: (log.append(("add", a_[0], a_[1])), a_[0])[1]})
        ev = Evaluator(prog, dn, env={"groupFilters_": GL, "nameFilters_": NL, pn[0]: 3, pn[1]: 7, pn[2]: 1, pn[3]: ("str", "-t"), pn[4]: strict, pn[5]: exclude}, calls=hooks)
        ev.pass_object = True
        ev.run_blocks(dn.entry, max_steps=600)
        news = [t[1] for t in ev.trace if t[0].startswith("new TestFilter")]
        return getattr(ev, "ret", None), news, log, ev.env.get("groupFilters_"), ev.env.get("nameFilters_")
    try:
        for strict, exclude in itertools.product((0, 1), (0, 1)):
            r, news, log, gl, nl = fold_dot("grp.name", strict, exclude)
            why = ""
            texts = [n_[1:] for n_ in news]
            if r != 1 or texts != [[("str", "grp")], [("str", "name")]]:
                why = "returns %s and creates filters from %s; expected true and (\"grp\"), (\"name\")" % (r, texts)
            else:
                g_, n2 = news[0][0], news[1][0]
                for o in (g_, n2):
                    if log.count(("strict", o)) != (1 if strict else 0) or log.count(("invert", o)) != (1 if exclude else 0):
                        why = "filter modifiers applied as %s for strict=%d exclude=%d" % ([x for x in log if x[0] in ("strict", "invert")], strict, exclude)
                if not why and (gl != g_ or nl != n2 or ("add", g_, 500) not in log or ("add", n2, 600) not in log):
                    why = "the filters are not pushed in front of their own lists (group list %s, name list %s, %s)" % (gl, nl, [x for x in log if x[0] == "add"])
                if not why and [x[1] for x in log if x[0] == "field"] != [("str", "-t")]:
                    why = "the value is sliced with %s, not with the option literal it was given" % ([x[1] for x in log if x[0] == "field"],)
            run.ob("R2", "addGroupDotNameFilter folded [strict=%d exclude=%d] on \"grp.name\"" % (strict, exclude), dn.site, not why, witness=why or "ok", what=why)
        for text in ("nodot", "a.b.c", ""):
            r, news, log, gl, nl = fold_dot(text, 1, 1)
            okr = r == 0 and not news and (gl, nl) == (500, 600)
            run.ob("R2", "addGroupDotNameFilter folded on %r: rejected, no filter added" % text, dn.site, okr, witness={"returns": r, "filters": len(news)})
    except Unknown as u:
        run.broke("C12.R2: addGroupDotNameFilter cannot be folded: %s" % u)
    for nm in ("TEST(", "IGNORE_TEST("):
        then = branch_of.get(("prefix", nm))
        cs = handler_call(then) if then is not None else []
        ok = len(cs) == 1 and lit_of_simplestring(parse, parse.args(cs[0])[3]) == nm and prog.callee_name(parse, cs[0]) == CLS + "::addTestToRunBasedOnVerboseOutput"
        run.ob("R2", "verbose-output form %s" % nm, parse.site, ok, witness=[render(parse, c) for c in cs])
    tv = prog.fn(CLS + "::addTestToRunBasedOnVerboseOutput")
    run.analysed(tv)
    def from_till(o, c1, c2):
        if not (isinstance(o, tuple) and isinstance(c1, int) and isinstance(c2, int)):
            return None
        t = o[1]
        b_ = t.find(chr(c1 & 0xff))
        if b_ < 0:
            return ("str", "")
        e_ = t.find(chr(c2 & 0xff), b_)
        return ("str", t[b_:] if e_ < 0 else t[b_:e_])
    for text, wg, wn in (("grp, name)", "grp", "name"), ("MyGroup, test_one)", "MyGroup", "test_one")):
        log = []
        hooks = string_hooks({CLS + "::getParameterField": lambda *a_, text=text: ("str", text), "SimpleString::subStringFromTill": from_till,
                              "SimpleString::subString": lambda o, b_, n_=None: ("str", o[1][b_:] if n_ is None else o[1][b_:b_ + n_]) if isinstance(o, tuple) and isinstance(b_, int) else None,
                              "TestFilter::strictMatching": lambda *a_: (log.append(("strict", a_[0])), 0)[1], "TestFilter::invertMatching": lambda *a_: (log.append(("invert", a_[0])), 0)[1],
                              "TestFilter::add": lambda *a_: (log.append(("add", a_[0], a_[1])), a_[0])[1]})
        ev = Evaluator(prog, tv, env=dict({"groupFilters_": 500, "nameFilters_": 600}, **{q["name"]: 3 for q in tv.params}), calls=hooks)
        ev.pass_object = True
        why = ""
        try:
            ev.run_blocks(tv.entry, max_steps=600)
            news = {(t[1][1][1] if len(t[1]) > 1 and isinstance(t[1][1], tuple) else None): t[1][0] for t in ev.trace if t[0].startswith("new TestFilter")}
            if set(news) != {wg, wn}:
                why = "creates filters %s; expected group %r and name %r" % (sorted(map(str, news)), wg, wn)
            elif sorted(x for x in log if x[0] != "add") != sorted([("strict", news[wg]), ("strict", news[wn])]):
                why = "modifiers applied: %s; expected strict matching once on each filter" % ([x for x in log if x[0] != "add"],)
            elif ev.env.get("groupFilters_") != news[wg] or ev.env.get("nameFilters_") != news[wn] or ("add", news[wg], 500) not in log or ("add", news[wn], 600) not in log:
                why = "the group filter must be pushed on the group list and the name filter on the name list (%s)" % ([x for x in log if x[0] == "add"],)
        except Unknown as u:
            run.broke("C12.R2: addTestToRunBasedOnVerboseOutput cannot be folded: %s" % u)
            continue
        run.ob("R2", "TEST(g, n) form folded on %r: adds one strict group filter %r and one strict name filter %r" % (text, wg, wn), tv.site, not why, witness=why or "ok", what=why)
    # other valued options
    for opt, hname in (("-r", "setRepeatCount"), ("-s", "setShuffle"), ("-o", "setOutputType"), ("-k", "setPackageName")):
        then = branch_of.get(("prefix", opt))
        cs = handler_call(then) if then is not None else []
        ok = len(cs) == 1 and prog.callee_name(parse, cs[0]) == CLS + "::" + hname and [render(parse, a) for a in parse.args(cs[0])] == ["ac_", "av_", "i"]
        run.ob("R2", "option %s -> %s(ac_, av_, i)" % (opt, hname), parse.site, ok, witness=[render(parse, c) for c in cs])
    so = prog.fn(CLS + "::setOutputType")
    run.analysed(so)
    kinds = {e["name"]: e["v"] for en in prog.enums.values() for e in en["enumerators"] if e["name"].startswith("OUTPUT_")}

    def fold_output(text):
        ev = Evaluator(prog, so, env={"outputType_": 99, so.params[0]["name"]: 3, so.params[1]["name"]: 7, so.params[2]["name"]: 1},
                       calls=string_hooks({CLS + "::getParameterField": lambda *a_: ("str", text)}))
        ev.pass_object = True
        ev.run_blocks(so.entry, max_steps=400)
        return getattr(ev, "ret", None), ev.env.get("outputType_")
    folded = {}
    try:
        for lit in list(OUTPUT_KINDS) + ["", "xml", "Junit", "junit ", "normal2"]:
            folded[lit] = fold_output(lit)
    except Unknown as u:
        run.broke("C12.R2: setOutputType cannot be folded: %s" % u)
    for lit, en in OUTPUT_KINDS.items():
        got = folded.get(lit)
        ok = got is not None and got == (1, kinds.get(en))
        run.ob("R2", "output kind %s -> %s, accepted" % (lit, en), so.site, ok, witness=got)
    rows = {"<none>": [(k, v) for k, v in folded.items() if k not in OUTPUT_KINDS and v != (0, 99)]}
    if not rows["<none>"]:
        del rows["<none>"]
    run.ob("R2", "no assignment of the output kind without a matching literal", so.site, "<none>" not in rows, witness=rows.get("<none>"))
    for g, en in (("isEclipseOutput", "OUTPUT_ECLIPSE"), ("isJUnitOutput", "OUTPUT_JUNIT"), ("isTeamCityOutput", "OUTPUT_TEAMCITY")):
        f = prog.fn("%s::%s" % (CLS, g))
        rets = [render(f, f.node(n.get("value"))) for n in f.walk() if n["k"] == "ReturnStmt"]
        run.ob("R2", "%s tests %s" % (g, en), f.site, rets in (["(outputType_ == %s)" % en], ["(%s == outputType_)" % en]), witness=rets)
    # runner consumers
    init = prog.fn("CommandLineTestRunner::initializeTestRun")
    run.analysed(init)
    paths = enumerate_paths(init)
    for g, action in CONSUMERS.items():
        ok = True
        for p in paths:
            v = p.val().get("arguments_->%s()" % g)
            made = [render(init, c) for c in path_calls(prog, init, p)].count(action)
            if v is None or made != (1 if v else 0):
                ok = False
        run.ob("R2", "runner: %s() <=> %s" % (g, action), init.site, ok)
    allc = [render(init, c) for c in init.calls()]
    for need in ("registry_->setGroupFilters(arguments_->getGroupFilters())", "registry_->setNameFilters(arguments_->getNameFilters())",
                 "UtestShell::setRethrowExceptions(arguments_->isRethrowingExceptions())"):
        run.ob("R2", "runner: %s" % need, init.site, allc.count(need) == 1, witness=[c for c in allc if need.split("(")[0] in c])
    from .shared import runner_fold
    rt = prog.fn("CommandLineTestRunner::runAllTests")
    run.analysed(rt)
    try:
        for g, lister in (("isListingTestGroupNames", "listTestGroupNames"), ("isListingTestGroupAndCaseNames", "listTestGroupAndCaseNames"), ("isListingTestLocations", "listTestLocations")):
            r, events = runner_fold(prog, [(0, 0), (0, 0)], {g: 1, "isReversing": 1, "isShuffling": 1})
            kinds = [e[0] for e in events if e[0] != "new-result"]
            ok = kinds == [lister] and r == 0
            run.ob("R2", "runner folded: %s lists with %s, runs nothing, returns 0" % (g, lister), rt.site, ok, witness={"events": kinds, "returns": r})
        for rev, sh, nrep in itertools.product((0, 1), (0, 1), (1, 3)):
            r, events = runner_fold(prog, [(0, 0)] * nrep, {"isReversing": rev, "isShuffling": sh}, seed=4711)
            kinds = [e for e in events if e[0] != "new-result"]
            want = ([("reverseTests",)] if rev else []) + ([("shuffleTests", 4711)] if sh else []) + [("runAllTests",)]
            want = want[:1 if rev else 0] + (want[1 if rev else 0:]) * nrep
            ok = kinds == want
            run.ob("R2", "runner folded [reverse=%d shuffle=%d repetitions=%d]: reverse once before the repetitions, shuffle with the given seed before each run" % (rev, sh, nrep), rt.site, ok,
                   witness=[list(e) for e in kinds], what="" if ok else "runner does %s, expected %s" % (kinds, want))
    except Unknown as u:
        run.broke("C12.R2: the runner cannot be folded: %s" % u)
    pa = prog.fn("CommandLineTestRunner::parseArguments")
    run.analysed(pa)
    for p in enumerate_paths(pa):
        val = p.val()
        names = [render(pa, c) for c in path_calls(prog, pa, p)]
        if val.get("arguments_->parse(plugin)") is False:
            continue
        if val.get("arguments_->isJUnitOutput()"):
            ok = "createJUnitOutput(arguments_->getPackageName())" in names and "createTeamCityOutput()" not in names
        elif val.get("arguments_->isTeamCityOutput()"):
            ok = "createTeamCityOutput()" in names and not any(n.startswith("createJUnitOutput") for n in names)
        else:
            ok = "createConsoleOutput()" in names and not any(n.startswith("createJUnitOutput") or n.startswith("createTeamCity") for n in names)
        run.ob("R2", "runner: output kind [%s]" % short(p.describe(pa), 90), pa.site, ok, witness=names[-3:])

    # ---------------- R3 ----------------------------------------------------
    n3 = 0
    for f in prog.methods_of(CLS):
        idxs = [n for n in f.walk() if n["k"] == "ArraySubscriptExpr" and render(f, f.node(n["base"])) in ("av", "av_")]
        for n in idxs:
            n3 += 1
            e = render(f, f.node(n["idx"]))
            pos = f.where_enclosing(n)
            facts = [(atom(f, c), pol) for c, pol, b in f.edge_conditions(pos)] if pos else []
            held = set()
            for (key, apol), pol in facts:
                held.add((key, apol == pol))
            idxvar = e.replace("++", "").replace("(", "").replace(")", "").replace(" + 1", "").strip()
            acname = "ac_" if f.name == "parse" else "ac"
            if e in ("i", "index"):
                if f.name == "parse":
                    ok = ("(%s < %s)" % (e, acname), True) in held
                    why = "" if ok else "av_[i] not under the loop guard i < ac_"
                else:
                    # precondition i < ac from parse's loop; every write to i in this function must be guarded by i + 1 < ac
                    ok, why = True, ""
                    for m in f.walk():
                        if m["k"] == "UnaryOperator" and m.get("op") in ("++", "--") and render(f, m["c"][0]) == e:
                            mp = f.where_enclosing(m)
                            mf = {(atom(f, c), pol) for c, pol, b in f.edge_conditions(mp)}
                            mh = {(k[0], k[1] == pol) for k, pol in mf}
                            if m["op"] == "--" or (("((%s + 1) < %s)" % (e, acname)), True) not in mh:
                                ok, why = False, "index %s is advanced without a dominating %s + 1 < %s" % (e, e, acname)
            elif e in ("(i + 1)", "++i", "(index + 1)", "++index"):
                ok = ("((%s + 1) < %s)" % (idxvar, acname), True) in held
                why = "" if ok else "%s[%s] is not dominated by %s + 1 < %s" % (render(f, f.node(n["base"])), e, idxvar, acname)
            else:
                ok, why = False, "index expression %s is not of a form the rule can bound" % e
            run.ob("R3", "av[%s]" % e, f.site, ok, witness={"facts": sorted("%s%s" % ("" if v else "!", k) for k, v in held)}, what=why)
        # pointer offsets into an argument
        for n in f.walk():
            if n["k"] == "BinaryOperator" and n.get("op") == "+" and n.get("ct", "").endswith("char *"):
                l = render(f, f.node(n["lhs"]))
                if not l.startswith("av"):
                    continue
                k = render(f, f.node(n["rhs"]), keep_explicit_casts=False)
                pos = f.where_enclosing(n)
                held = set()
                for c, pol, b in f.edge_conditions(pos):
                    key, apol = atom(f, c)
                    held.add((key, apol == pol))
                inits = local_inits(f)
                ok = False
                for key, v in held:
                    m = re.match(r"^\((\w+) < (\w+)\.size\(\)\)$", key)
                    if m and v and m.group(1) == k and m.group(2) in inits and l in render(f, inits[m.group(2)]):
                        ok = True
                    m = re.match(r"^\((\d+) < (\w+)\.size\(\)\)$", key)
                    if m and v and m.group(1) == k and m.group(2) in inits and l in render(f, inits[m.group(2)]):
                        ok = True
                run.ob("R3", "%s + %s stays inside the argument" % (l, k), f.site, ok, witness=sorted("%s%s" % ("" if v else "!", kk) for kk, v in held),
                       what="" if ok else "offset %s into %s is not dominated by a check that the argument is longer than %s" % (k, l, k))
    tp = prog.method_decl([m for m in [x["mn"] for r in [prog.records.get("TestPlugin", {})] for x in r.get("methods", []) if x["name"] == "parseAllArguments"]][0])[1] if prog.records.get("TestPlugin") else None
    pts = [m for m in prog.records.get("TestPlugin", {}).get("methods", []) if m["name"] == "parseAllArguments"]
    ok = bool(pts) and all(m["params"][2]["ct"] == "int" for m in pts if len(m["params"]) == 3)
    run.ob("R3", "plugins receive the index by value", "include/CppUTest/TestPlugin.h:TestPlugin::parseAllArguments", ok, witness=[[p["ct"] for p in m["params"]] for m in pts])

    # the TEST(group, name) slicing calls subString/subStringFromTill with positions taken from the text: they must be total
    from .C13 import substring_bound_rule
    substring_bound_rule(prog, run, "R3")

    # ---------------- R4 ----------------------------------------------------
    groups = {}
    for p in enumerate_paths(parse):
        ids = [e for e in p.trace if isinstance(e, int)]
        rejected_at = None
        how = None
        for i, e in enumerate(ids):
            n = parse.nodes[e]
            if n["k"] == "BinaryOperator" and n.get("op") == "=" and render(parse, parse.node(n["lhs"])) == "correctParameters":
                cv = const_value(parse, parse.node(n["rhs"]))
                if cv == 0:
                    rejected_at, how = i, "literal rejection in branch [%s]" % ([k for k, v, b, c in p.decisions if v is True and "argument" in k] or ["else"])[-1]
                    break
                if cv is None:
                    # verdict of a handler: rejected when the following check sees false
                    later = [(k, v) for k, v, b, c in p.decisions if k == "correctParameters"]
                    if later and later[0][1] is False:
                        rejected_at, how = i, "handler verdict %s" % short(render(parse, parse.node(n["rhs"])), 60)
                        break
        if rejected_at is None:
            continue
        after = [parse.nodes[e] for e in ids[rejected_at + 1:]]
        more_args = [n for n in after if n["k"] == "DeclStmt" and any(d.get("name") == "argument" for d in n.get("decls", []))]
        rv = const_value(parse, parse.node(p.ret.get("value"))) if p.ret is not None and p.ret.get("value") is not None else None
        ok = p.end == "return" and rv == 0 and not more_args
        g = groups.setdefault(how, {"ok": True, "n": 0, "bad": None})
        g["n"] += 1
        if not ok:
            g["ok"] = False
            g["bad"] = {"path": short(p.describe(parse), 200), "returns": rv, "further_arguments_parsed": len(more_args)}
    for how, g in sorted(groups.items()):
        run.ob("R4", "rejection returns false in the same iteration: %s" % how, parse.site, g["ok"], witness=g["bad"] or {"paths": g["n"]},
               what="" if g["ok"] else "after rejecting an argument the loop goes on (a later argument can overwrite the verdict) or the function does not return false")
    if not groups:
        run.ob("R4", "rejection returns false in the same iteration", parse.site, False, what="no rejecting path found")
    rm = prog.fn("CommandLineTestRunner::runAllTestsMain")
    run.analysed(rm)
    for p in enumerate_paths(rm):
        val = p.val()
        pa_v = [v for k, v in val.items() if k.startswith("parseArguments(")]
        names = [render(rm, c) for c in path_calls(prog, rm, p)]
        ran = names.count("runAllTests()")
        ok = len(pa_v) == 1 and ran == (1 if pa_v[0] else 0)
        run.ob("R4", "runner runs tests iff parseArguments succeeded [%s]" % p.describe(rm), rm.site, ok, witness={"runAllTests": ran})
    ini = local_inits(rm)
    tr0 = const_value(rm, ini["testResult"]) if "testResult" in ini else None
    run.ob("R4", "a rejected command line yields a non-zero result", rm.site, tr0 not in (None, 0), witness=tr0)

    # ---------------- R5 ----------------------------------------------------
    for hname, valname in (("setRepeatCount", "repeat_"), ("setShuffle", "parsedParameter")):
        h = prog.fn(CLS + "::" + hname)
        run.analysed(h)
        iname = h.params[2]["name"]
        for p in enumerate_paths(h):
            adv = 0
            byref = []
            for e in p.trace:
                if not isinstance(e, int):
                    continue
                n = h.nodes[e]
                if n["k"] == "UnaryOperator" and n.get("op") in ("++", "--") and render(h, n["c"][0]) == iname:
                    adv += 1
                if n["k"] in ("CallExpr", "CXXMemberCallExpr"):
                    pt = callee_param_types(prog, n) or []
                    for a, t in zip(h.args(n), pt):
                        if render(h, a) == iname and t.endswith("&") and not t.startswith("const"):
                            byref.append(render(h, n))
            val = p.val()
            nz = [v for k, v in val.items() if k in (valname, "(%s == 0)" % valname, "(0 == %s)" % valname)]
            guard = val.get("((%s + 1) < ac)" % iname)
            sz = [v for k, v in val.items() if "size()" in k]
            ok = True
            why = ""
            if byref:
                ok, why = False, "the index is handed by reference to %s, which may consume the next argument whatever it contains" % byref[0]
            elif adv:
                nonzero = any((k == valname and v) or (k in ("(%s == 0)" % valname, "(0 == %s)" % valname) and v is False) for k, v in val.items())
                if adv != 1 or guard is not True or not nonzero or sz != [False]:
                    ok, why = False, "the next argument is consumed although it did not parse to a non-zero number (or without the bounds check)"
            run.ob("R5", "%s consumes the next argument only for a non-zero number [%s]" % (hname, short(p.describe(h), 80)), h.site, ok, witness={"advanced": adv}, what=why)
    rc = prog.fn(CLS + "::setRepeatCount")
    last = [(l, render(rc, r)) for l, r, n in assignments(rc)]
    run.ob("R5", "-r without a number repeats twice", rc.site, ("repeat_", "2") in last, witness=last)

"""C14 — diagnostics are safe to build and bounded. DESIGN.md section 4, C14."""
import itertools
import re
from .common import *
from cpv.ceval import Evaluator, Unknown
from cpv.graph import field_writers

SSB = "SimpleStringBuffer"
OSB = "MemoryLeakOutputStringBuffer"
UNIT = "src/CppUTest/MemoryLeakDetector.cpp"
FMT = re.compile(r"%[-+ #0]*\d*(?:\.\d+)?(?:hh|h|ll|l|z|j|t)?([diouxXscp%])")


def literal_of(f, n):
    n = f.strip(n)
    while n is not None and n["k"] in ("CXXConstructExpr",) and len(f.args(n)) == 1:
        n = f.strip(f.args(n)[0])
    return n["v"] if n is not None and n["k"] == "StringLiteral" else None


def masked_bits_rule(prog, run, rid, thorough=False):
    """The operand rendering of a failing BITS_EQUAL: StringFromMaskedBits folded over byte counts 0..9 and 16 x (value, mask)
    patterns against the reference rendering (the low min(byteCount, 8) bytes, most significant bit first, 'x' for an unmasked bit,
    groups of eight separated by one space). An undefined operation on the way (a shift by the full width) is a violation: what the
    operands would be shown as is then up to the compiler. Shared with C13 (the helper builds a bounded string)."""
    f = prog.fn("StringFromMaskedBits")
    run.analysed(f)
    width = 8

    def ref(value, mask, bc):
        bits = min(bc, width) * 8
        out = []
        for i_ in range(bits):
            b_ = bits - 1 - i_
            out.append(("1" if (value >> b_) & 1 else "0") if (mask >> b_) & 1 else "x")
            if i_ % 8 == 7 and i_ != bits - 1:
                out.append(" ")
        return "".join(out)
    pats = [(0xDEADBEEF12345678, 0xFFFFFFFF0000FFFF), (0xA5A5A5A5A5A5A5A5, (1 << 64) - 1), (0x8000000000000001, 0x8000000000000001), (0x0123456789ABCDEF, 0)]
    if thorough:
        pats += [((1 << 64) - 1, (1 << 64) - 1), (0, (1 << 64) - 1), (0x00FF00FF00FF00FF, 0x0F0F0F0F0F0F0F0F)]
    bad, ncase = None, 0
    for bc in list(range(0, 10)) + [16]:
        for value, mask in pats:
            ncase += 1
            text = {}
            calls = string_hooks({"SimpleString::operator+=": lambda key, v: (text.__setitem__(str(key), None if text.get(str(key), "") is None or not (isinstance(v, tuple) and v[0] == "str") else text.get(str(key), "") + v[1]), 0)[1]})
            ev = Evaluator(prog, f, env=dict(zip([q["name"] for q in f.params], (value, mask, bc))), calls=calls)
            ev.pass_object = "key"
            try:
                ev.run_blocks(f.entry, max_steps=40000)
                if len(text) > 1 or None in text.values():
                    raise AnalysisBroken("%s.%s: StringFromMaskedBits builds its result through %d string objects (one modelled)" % (run.pid, rid, len(text)))
                got = list(text.values())[0] if text else ""
                why = "" if got == ref(value, mask, bc) else "renders %r, the operand is %r" % (got, ref(value, mask, bc))
            except Unknown as u:
                und = getattr(ev, "undefined_ops", None)
                if not und:
                    raise AnalysisBroken("%s.%s: StringFromMaskedBits cannot be folded for byteCount %d: %s" % (run.pid, rid, bc, u))
                why = "undefined operation on the way: %s" % und[0]
            if why and bad is None:
                bad = "StringFromMaskedBits(%#x, %#x, %d): %s" % (value, mask, bc, why)
    run.ob(rid, "StringFromMaskedBits folded on %d (value, mask, byte count 0..9 and 16) cases against the reference rendering of the operand" % ncase, f.site, bad is None, witness=bad or "%d cases" % ncase,
           what="" if bad is None else "a failing BITS_EQUAL does not show its operands: " + bad)


def check(ctx, run):
    prog = ctx.program()
    run.assume("vsnprintf(dst, n, ...) writes at most n bytes including the terminator and returns the untruncated length (C99)")
    run.not_decided.append("the exact message text for every operand pair; termination of the operand rendering helpers on arbitrary bytes (C13)")
    run.rule("R1", "fixed buffer: under the invariant (write_limit_ <= LEN-1, positions_filled_ <= LEN-1) established by every writer of the two fields, add() folded over the boundary lattice of (limit, fill, vsnprintf result) never hands vsnprintf a window outside [0, LEN) and re-establishes the invariant", floor=150, exhaustive=True)
    run.rule("R2", "footer reservation: the leak report folded over scripted table walks (0..3 leaks x allocator kinds x buffer full or not): the write limit is set before any text, the capacity is sampled before the limit is reset, the total line states the number of leaks walked also when the buffer was full, the too-many notice appears iff it was full, the malloc warning iff a malloc leak was seen; the space left by the limit covers the worst-case text added after the reset; the table walk the report relies on (getFirstLeak / getNextLeak) visits every bucket in order", floor=5)
    run.rule("R3", "first-difference scans: every loop that advances while two sequences agree also stops at the end of a sequence, unless every construction site of the failure is dominated by a comparison != 0 of the very same operands (frozen exceptions); the scans are also exercised by the R4 folds on operand pairs whose printable renderings coincide", floor=4)
    run.rule("R5", "bit operands: StringFromMaskedBits (the operand rendering of BITS_EQUAL failures) folded over byte counts 0..9 and 16 x value/mask patterns against the reference rendering; an undefined shift on the way is a violation; printable() text folded for every byte value and byte pairs (each byte itself, its short escape or the hex escape of its own value)", floor=2, exhaustive=True)
    masked_bits_rule(prog, run, "R5", thorough=ctx.thorough)
    # string operands are shown through printable(): its text folded for every byte value (shared with C13.R3)
    from .C13 import printable_text_rule, printable_size_rule
    printable_text_rule(prog, run, "R5")
    # ... and into a buffer reserved by getPrintableSize(): size agreement folded for every byte value (shared with C13.R3)
    printable_size_rule(prog, run, "R5")
    run.rule("R4", "content: expected before actual in the but-was text; string kinds render through the printable form; the reported position is the raw index and the marker offset the printable one; the padding covers half the window", floor=8)

    LEN = [e["v"] for en in prog.enums.values() for e in en["enumerators"] if e["name"] == "SIMPLE_STRING_BUFFER_LEN"]
    if not LEN:
        raise AnalysisBroken("SIMPLE_STRING_BUFFER_LEN not found")
    LEN = LEN[0]
    rec = prog.records.get(SSB, {})
    ext = [fl.get("extent") for fl in rec.get("fields", []) if fl["name"] == "buffer_"]
    run.ob("R1", "buffer extent equals SIMPLE_STRING_BUFFER_LEN", "include/CppUTest/MemoryLeakDetector.h:" + SSB, ext == [LEN], witness={"extent": ext, "LEN": LEN})

    # ---------------- R1 ----------------------------------------------------
    add = prog.fn(SSB + "::add")
    run.analysed(add)
    limits = [0, 1, 100, 3000, LEN - 2, LEN - 1]
    fills = [0, 1, 99, 100, 101, 2999, 3000, 3001, LEN - 2, LEN - 1]
    counts = [-1, 0, 1, 50, LEN, 1 << 20]
    for wl, pf in itertools.product(limits, fills):
        for cnt in counts:
            ev = Evaluator(prog, add, env={"write_limit_": wl, "positions_filled_": pf, "buffer_": 0})
            win = []
            ev.calls["PlatformSpecificVSNprintf"] = lambda dst, n, *a, win=win, cnt=cnt: (win.append((dst, n)), cnt)[1]
            ev.calls["__builtin_va_start"] = lambda *a: 0
            ev.calls["__builtin_va_end"] = lambda *a: 0
            try:
                ev.run_blocks(add.entry, max_steps=300)
                wraps = list(getattr(ev, "wraps", []))
                npf = ev.env.get("positions_filled_")
                why = ""
                for dst, n in win:
                    if dst is None or n is None or dst < 0 or dst + n > LEN:
                        why = "vsnprintf is given the window [%s, %s+%s) of a %d-byte buffer" % (dst, dst, n, LEN)
                if wraps and not why:
                    why = "unsigned arithmetic wraps: %s" % (wraps[:1],)
                if not why and (npf is None or npf > LEN - 1):
                    why = "positions_filled_ becomes %s" % npf
                if not why and win and npf is not None and npf > max(wl, pf):
                    why = "fill %s exceeds the limit %s after a write" % (npf, wl)
            except Unknown as u:
                why = "cannot fold: %s" % u
                win = []
            run.ob("R1", "add with limit=%d fill=%d vsnprintf->%d" % (wl, pf, cnt), add.site, not why, witness={"window": win}, what=why)
    for meth, args in (("setWriteLimit", [0, 1, 3583, LEN - 1, LEN, LEN + 1, (1 << 64) - 1, (1 << 64) - 400]), ("resetWriteLimit", [None]), (SSB, [None]), ("clear", [None])):
        fs = [f for f in prog.methods_of(SSB) if f.name == meth]
        f = fs[0]
        run.analysed(f)
        for a in args:
            env = {"write_limit_": 17, "positions_filled_": 23, "buffer_": 0}
            if a is not None:
                env[f.params[0]["name"]] = a
            ev = Evaluator(prog, f, env=env)
            try:
                # constructor initialisers are CFG "init" elements: fold them by hand
                if f.kind == "ctor":
                    for i in f.d.get("inits", []):
                        if i.get("field") in ("write_limit_", "positions_filled_"):
                            ev.env[i["field"]] = ev.ev(i["expr"])
                ev.run_blocks(f.entry)
                wl, pf = ev.env.get("write_limit_"), ev.env.get("positions_filled_")
                ok = wl is not None and pf is not None and 0 <= wl <= LEN - 1 and 0 <= pf <= LEN - 1
                if meth in (SSB, "clear"):
                    ok = ok and pf == 0 and ev.env.get("buffer_[0]") == 0
                if meth in (SSB, "resetWriteLimit"):
                    ok = ok and wl == LEN - 1
                if meth == "setWriteLimit":
                    ok = ok and wl == min(a, LEN - 1)
            except Unknown as u:
                ok, wl, pf = False, "unknown: %s" % u, None
            run.ob("R1", "%s(%s) establishes write_limit_ <= LEN-1" % (f.name, "" if a is None else a), f.site, ok, witness={"write_limit_": wl, "positions_filled_": pf},
                   what="" if ok else "the limit can reach the buffer length: the terminating NUL is written one byte behind the buffer")
    for fld, allowed in (("write_limit_", {SSB + "::" + SSB, SSB + "::setWriteLimit", SSB + "::resetWriteLimit"}), ("positions_filled_", {SSB + "::" + SSB, SSB + "::add", SSB + "::clear"})):
        ws = {f.qn for f, n in field_writers(prog, SSB + "::" + fld)}
        run.ob("R1", "%s is written only by %s" % (fld, sorted(x.split("::")[-1] for x in allowed)), "include/CppUTest/MemoryLeakDetector.h:%s::%s" % (SSB, fld), ws <= allowed, witness=sorted(ws))
    rc = prog.fn(SSB + "::reachedItsCapacity")
    okc = True
    for pf_, wl_ in ((0, 5), (4, 5), (5, 5), (6, 5), (0, 0)):
        ev = Evaluator(prog, rc, env={"positions_filled_": pf_, "write_limit_": wl_})
        try:
            ev.run_blocks(rc.entry, max_steps=100)
            okc = okc and getattr(ev, "ret", None) == (1 if pf_ >= wl_ else 0)
        except Unknown:
            okc = False
    run.ob("R1", "reachedItsCapacity folded: true exactly when the fill has reached the limit", rc.site, okc)

    # ---------------- R2 ----------------------------------------------------
    run.assume("fewer than 2^31 leaks are reported in one run (the total is printed through (int))")
    from .shared import report_rules
    report_rules(prog, run, "R2", "R2", LEN)
    # the report (listing and total) walks the table with getFirstLeak / getNextLeak: a walker that skips a bucket leaves a leak
    # out of both without the too-many notice (shared with C04 / C07)
    from .C04 import table_walk_rules
    table_walk_rules(prog, run, "R2", "R2", only=("getFirstLeak", "getNextLeak"))

    # ---------------- R3 ----------------------------------------------------
    EXC = {  # constructor -> reason the raw scan may omit the end test
        "StringEqualFailure": "constructed only where StrCmp/StrNCmp(expected, actual) != 0 with both operands non-null: the raw strings differ before either ends",
        "StringEqualNoCaseFailure": "constructed only where !equalsNoCase with both operands non-null: the lower-cased strings differ before either ends",
        "BinaryEqualFailure": "constructed only where MemCmp(expected, actual, length) != 0: the blocks differ inside length",
    }
    nscan = 0
    for f in prog.functions.values():
        if f.file != "src/CppUTest/TestFailure.cpp" or f.kind not in ("ctor", "function", "method"):
            continue
        loops = [n for n in f.walk() if n["k"] in ("ForStmt", "WhileStmt")]
        for lp in loops:
            cond = f.node(lp.get("cond"))
            if cond is None:
                continue
            leaves = []

            def conj(n):
                n = f.strip(n, casts=False)
                while n is not None and n["k"] == "ImplicitCastExpr":
                    n = f.strip(n["c"][0], casts=False)
                if n is not None and n["k"] == "BinaryOperator" and n.get("op") == "&&":
                    conj(f.node(n["lhs"]))
                    conj(f.node(n["rhs"]))
                else:
                    leaves.append(n)
            conj(cond)
            eqs = [l for l in leaves if l is not None and l["k"] == "BinaryOperator" and l.get("op") == "=="]
            if not eqs:
                continue
            nscan += 1
            run.analysed(f)
            eq = eqs[0]
            lhs, rhs = render(f, f.node(eq["lhs"]), keep_explicit_casts=False), render(f, f.node(eq["rhs"]), keep_explicit_casts=False)
            ends = [l for l in leaves if l is not None and l is not eq and l["k"] == "BinaryOperator" and l.get("op") in ("!=", "<")]
            has_end = False
            for e in ends:
                el, er = render(f, f.node(e["lhs"]), keep_explicit_casts=False), f.node(e["rhs"])
                if e["op"] == "!=" and const_value(f, er) == 0 and (el in lhs or el in rhs or lhs.endswith(el) or el.replace("SimpleString::ToLower(", "").rstrip(")") in lhs):
                    has_end = True
                if e["op"] == "<":
                    has_end = True
            cls = f.cls if f.kind == "ctor" else None      # (a scan in a helper is shared: it needs its own end test ...
            host, hostnode = f, eq
            if cls is None and f.kind == "function" and f.d.get("static"):
                # ... unless it is a file-local helper with one call site, in a constructor: then the scan is that constructor's)
                cs_ = [(g, c) for g in prog.functions.values() for c in g.calls() if (c.get("callee") or {}).get("mn") == f.mn]
                if len(cs_) == 1 and cs_[0][0].kind == "ctor":
                    host, hostnode = cs_[0]
                    cls = host.cls
                    run.analysed(host)
            printable_scan = "printable" in lhs.lower() or "printable" in rhs.lower()
            inst = "%s scan %s == %s" % (cls or f.name, short(lhs, 50), short(rhs, 50))
            if has_end:
                run.ob("R3", inst, f.site, True, witness="stops at the end of the operand")
            elif cls in EXC and not printable_scan:
                # frozen exception: every folded operand case of the assert entry points that builds this failure has
                # operands that differ under the constructor's comparison, or one operand NULL (guarded inside the ctor)
                pos = host.where_enclosing(hostnode) or (f.where_enclosing(cond) if host is f else None)
                inner = facts_at(host, pos, subst=True)
                pn_ = [q["name"] for q in host.params]
                guarded_inside = any(k in pn_ and v for k, v in inner) and len([1 for k, v in inner if k in pn_ and v]) >= 2
                sites, okx = [], True
                from .C03 import assert_family
                fold_assert, TABLE = assert_family(prog)
                key = {"StringEqualFailure": (lambda t: t), "StringEqualNoCaseFailure": (lambda t: t.lower()), "BinaryEqualFailure": (lambda t: t)}[cls]
                try:
                    for name, gen in sorted(TABLE.items()):
                        fs_ = prog.fns("UtestShell::" + name)
                        if len(fs_) != 1:
                            continue
                        for vals, want, desc in gen(fs_[0]):
                            log, ctor = fold_assert(fs_[0], vals)
                            if cls not in getattr(fold_assert, "last_classes", []):
                                continue
                            e_, a_ = vals[0], vals[1]
                            te = e_[1] if isinstance(e_, tuple) else None
                            ta = a_[1] if isinstance(a_, tuple) else None
                            n_ = vals[2] if name in ("assertCstrNEqual", "assertBinaryEqual") and len(vals) > 2 else None
                            one_null = (te is None or ta is None) and guarded_inside
                            differ = te is not None and ta is not None and key(te[:n_] if n_ is not None else te) != key(ta[:n_] if n_ is not None else ta)
                            if not (one_null or differ):
                                okx = False
                                sites.append({"function": name, "operands": desc, "one_operand_null": one_null, "operands_differ": differ})
                            elif len(sites) < 6:
                                sites.append({"function": name, "operands": desc})
                except Unknown as u:
                    run.broke("C14.R3: the assert entry points cannot be folded: %s" % u)
                    continue
                run.ob("R3", inst + " (frozen exception)", f.site, okx and bool(sites), witness={"reason": EXC[cls], "constructing_cases": sites[:8]},
                       what="" if okx and sites else "the failure is also constructed where the operands may be equal: the scan would run past both")
            else:
                run.ob("R3", inst, f.site, False, witness=render(f, cond),
                       what="the scan advances while the sequences agree and has no end test: when the renderings coincide it reads past both strings")
    if nscan < 1:
        run.broke("no first-difference scan found in TestFailure.cpp (7 on the confirmed tree; 4 classes use them)")

    # ---------------- R4 ----------------------------------------------------
    def printable(t):
        out = ""
        for ch in t:
            o = ord(ch)
            if 7 <= o <= 13:
                out += "\\" + "abtnvfr"[o - 7]
            elif o < 32 or o == 127:
                out += "\\x%02X " % o
            else:
                out += ch
        return out

    def first_diff(a_, b_, key=lambda c: c):
        i = 0
        while i < len(a_) and i < len(b_) and key(a_[i]) == key(b_[i]):
            i += 1
        return i

    def fold_failure(f, expected, actual, binary=False):
        """fold a failure constructor on two operands; returns the recorded (butWas args, differenceAtPos args)"""
        log = {"butwas": [], "diff": []}
        env = {}
        ptr_text = {}
        pe, pa = None, None
        for q in f.params:
            if q["name"].lower().startswith("expected"):
                pe = q
            elif q["name"].lower().startswith("actual"):
                pa = q
        if pe is None or pa is None:
            # positional: (test, file, line, expected, actual, ...)
            pe, pa = f.params[3], f.params[4]
        for q, val, base in ((pe, expected, "E"), (pa, actual, "A")):
            if "SimpleString" in q["ct"]:
                env[q["name"]] = ("str", val)
            else:
                env[q["name"]] = ("ptr", base, 0)
                ptr_text[base] = val
                for i_, ch in enumerate(val):
                    o = ch if isinstance(ch, int) else ord(ch)
                    env["%s[%d]" % (base, i_)] = o - 256 if (o > 127 and not binary) else o
                if not binary:
                    env["%s[%d]" % (base, len(val))] = 0
        for q in f.params:
            env.setdefault(q["name"], len(expected) if q["ct"] == "unsigned long" and binary and q["name"] == "size" else 7)

        def text_of(v):
            if isinstance(v, tuple) and v[0] == "str":
                return v[1]
            if isinstance(v, tuple) and v[0] == "ptr":
                return ptr_text[v[1]][v[2]:]
            return None

        def pr(v, *rest):
            t = text_of(v)
            return None if t is None else ("str", printable(t))

        def hexs(v, n_=None, *rest):
            t = text_of(v)
            return None if t is None else ("str", " ".join("%02X" % x for x in t))
        ev = Evaluator(prog, f, env=env, calls=string_hooks({
            "PrintableStringFromOrNull": pr, "StringFromBinaryOrNull": hexs, "StringFromBinary": hexs,
            "TestFailure::createButWasString": lambda *a_: (log["butwas"].append(a_[-2:]), ("str", ""))[1],
            "TestFailure::createDifferenceAtPosString": lambda *a_: (log["diff"].append(a_[-3:]), ("str", ""))[1],
            "TestFailure::createUserText": lambda *a_: ("str", "")}))
        ev.pass_object = True
        ev.inline = {"SimpleString::ToLower"}        # (its helper is a member of the same class or a file-static function: inlined by default)
        ev.run_blocks(f.entry, max_steps=4000)
        return log
    CASES = [("abc", "abd"), ("a\nb", "a\nc"), ("\x01x", "\x01y"), ("abc", "ab"), ("", "a"), ("x\ty\x7fz", "x\ty\x7fw"), ("same\n", "same\r"),
             ("\n", "\\n"), ("a\\tb", "a\tb")]      # different operands whose printable renderings coincide: the printable scan must stop at the NUL
    for cls, nocase in (("CheckEqualFailure", False), ("StringEqualFailure", False), ("StringEqualNoCaseFailure", True)):
        for f in [g for g in prog.methods_of(cls) if g.kind == "ctor"]:
            run.analysed(f)
            bad, badorder, badprint = None, None, None
            cases = CASES + ([("ABc", "abD"), ("Q\nr", "q\nS")] if nocase else [])
            try:
                for e_, a_ in cases:
                    log = fold_failure(f, e_, a_)
                    key = (lambda c: c.lower()) if nocase else (lambda c: c)
                    want = (("str", printable(a_)), first_diff(printable(a_), printable(e_), key), first_diff(a_, e_, key))
                    if log["diff"] != [want] and bad is None:
                        bad = "expected %r, actual %r: difference reported as %s, expected (actual rendering, offset %d in the rendering, position %d in the operands)" % (e_, a_, log["diff"], want[1], want[2])
                    if log["butwas"] != [(("str", printable(e_)), ("str", printable(a_)))] and badorder is None:
                        badorder = "expected %r, actual %r: 'expected <..> but was <..>' built from %s" % (e_, a_, log["butwas"])
            except Unknown as u:
                if str(u).endswith("SimpleString::at") or re.search(r"\b[AE]\[\d+\]$", str(u)):
                    run.ob("R3", "%s: the first-difference scans stay inside the operands (folded)" % f.cls, f.site, False, witness=str(u),
                           what="expected %r, actual %r: a scan reads behind the terminating NUL (%s)" % (e_, a_, u))
                else:
                    run.broke("C14.R4: %s cannot be folded: %s" % (f.qn, u))
                continue
            run.ob("R3", "%s: the first-difference scans stay inside the operands (folded)" % f.cls, f.site, True, witness="%d operand pairs, 2 of them with coinciding printable renderings" % len(cases))
            run.ob("R4", "%s shows expected before actual, both rendered printable (folded)" % f.cls, f.site, badorder is None, witness=badorder or "%d operand pairs" % len(cases),
                   what="" if badorder is None else "the message would show the operands swapped or unrendered: " + badorder)
            run.ob("R4", "%s: marker offset is the printable index, reported position the raw index (folded on %d operand pairs incl. control characters)" % (f.cls, len(cases)), f.site, bad is None, witness=bad or "ok",
                   what="" if bad is None else "the position printed is not the first index at which the operands differ: " + bad)
    for f in [g for g in prog.methods_of("BinaryEqualFailure") if g.kind == "ctor"]:
        run.analysed(f)
        bad, badorder = None, None
        try:
            for e_, a_ in (([1, 2, 3], [1, 2, 4]), ([0, 0], [0, 9]), ([255], [0]), ([7, 8, 9, 10], [7, 0, 9, 10])):
                log = fold_failure(f, e_, a_, binary=True)
                pos = first_diff(a_, e_)
                hx = lambda t: ("str", " ".join("%02X" % x for x in t))
                if log["diff"] != [(hx(a_), pos * 3 + 1, pos)] and bad is None:
                    bad = "expected %s, actual %s: difference reported as %s, expected offset %d (3 characters per byte) and position %d" % (e_, a_, log["diff"], pos * 3 + 1, pos)
                if log["butwas"] != [(hx(e_), hx(a_))] and badorder is None:
                    badorder = "built from %s" % (log["butwas"],)
        except Unknown as u:
            run.broke("C14.R4: %s cannot be folded: %s" % (f.qn, u))
            continue
        run.ob("R4", "BinaryEqualFailure shows expected before actual (folded)", f.site, badorder is None, witness=badorder or "4 pairs", what="" if badorder is None else "the message would show the operands swapped: " + badorder)
        run.ob("R4", "BinaryEqualFailure: marker offset is 3 * index + 1 into the hex rendering, reported position the byte index (folded)", f.site, bad is None, witness=bad or "4 pairs",
               what="" if bad is None else "the position printed is not the first index at which the operands differ: " + bad)
    for f in prog.functions.values():
        if f.file != "src/CppUTest/TestFailure.cpp" or f.kind != "ctor" or f.cls in ("CheckEqualFailure", "StringEqualFailure", "StringEqualNoCaseFailure", "BinaryEqualFailure"):
            continue
        for c in f.calls():
            nm = prog.callee_name(f, c) or ""
            if nm == "TestFailure::createButWasString":
                a = [rx(f, x) for x in f.args(c)]
                pnames = [q["name"] for q in f.params]
                ie = [i for i, q in enumerate(pnames) if re.search(r"\b%s\b" % re.escape(q), a[0]) and q.lower().startswith("expected")]
                ia = [i for i, q in enumerate(pnames) if re.search(r"\b%s\b" % re.escape(q), a[1]) and q.lower().startswith("actual")]
                ok = bool(ie) and bool(ia) and not any(re.search(r"\b%s\b" % re.escape(q), a[0]) for q in pnames if q.lower().startswith("actual")) \
                    and not any(re.search(r"\b%s\b" % re.escape(q), a[1]) for q in pnames if q.lower().startswith("expected"))
                run.ob("R4", "%s shows expected before actual" % f.cls, f.site, ok, witness=a, what="" if ok else "the message would show the operands swapped")
    dp = prog.fn("TestFailure::createDifferenceAtPosString")
    run.analysed(dp)
    badw, nw = None, 0
    try:
        for text, offset, pos in (("abcdef", 3, 3), ("", 0, 0), ("x", 0, 0), ("x", 1, 1), ("0123456789012345678901234567890123456789", 0, 0), ("0123456789012345678901234567890123456789", 17, 15),
                                  ("0123456789012345678901234567890123456789", 39, 39), ("0123456789012345678901234567890123456789", 40, 40), ("a\\nb", 3, 2), ("short", 5, 5)):
            nw += 1
            ev = Evaluator(prog, dp, env={dp.params[0]["name"]: ("str", text), dp.params[1]["name"]: offset, dp.params[2]["name"]: pos}, calls=string_hooks())
            ev.pass_object = True
            ev.run_blocks(dp.entry, max_steps=2000)
            r = getattr(ev, "ret", None)
            got = r[1] if isinstance(r, tuple) and r[0] == "str" else None
            window = (" " * 10 + text + " " * 10)[offset:offset + 20]
            lines = got.split("\n") if got is not None else []
            why = None
            if got is None or len(lines) != 3 or lines[0] != "":
                why = "the text is %r, expected an empty line, the window line and the marker line" % (got,)
            else:
                l1, l2 = lines[1], lines[2]
                if not (l1.endswith(window + ">") and l1[:-len(window) - 1].endswith("<") and str(pos) in l1[:-len(window) - 1]):
                    why = "the window line is %r; expected the reported position %d and <%s> (the operand padded by 10 blanks on both sides, 20 characters from the offset)" % (l1, pos, window)
                elif not (l2.endswith("^") and set(l2[:-1]) <= {" ", "\t"} and l2.count("\t") == l1.count("\t") and len(l2) - 1 == len(l1) - len(window) - 1 + 10):
                    why = "the marker line is %r: the caret must stand under the 11th character of the window (the character at the offset)" % (l2,)
            if why and badw is None:
                badw = "operand %r, offset %d: %s" % (text, offset, why)
    except Unknown as u:
        run.broke("C14.R4: createDifferenceAtPosString cannot be folded: %s" % u)
    run.ob("R4", "the window is cut from the operand padded by half the window on both sides", dp.site, badw is None, witness=badw or "%d operand/offset cases: window = 20 characters of the padded operand from the offset, caret under the character at the offset" % nw, what=badw or "")
    cs = [render(dp, c) for c in dp.calls() if "StringFromFormat" in render(dp, c)]
    ok = any("difference starts at position %lu" in c and c.rstrip(")").endswith(dp.params[2]["name"]) for c in cs)
    run.ob("R4", "the printed position is the reported (raw) index", dp.site, ok, witness=cs[:1])

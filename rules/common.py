"""Helpers shared by the rule modules."""
import re
from cpv.expr import render, rx, render_stmt, top_stmts, atom, const_value, is_null
from cpv.model import CALL_KINDS, CAST_KINDS
from cpv.paths import enumerate_paths, Counter, MANY, loop_blocks, trace_nodes
from cpv.build import AnalysisBroken

ALLCALLS = CALL_KINDS + ("CXXConstructExpr", "CXXTemporaryObjectExpr")


def path_calls(prog, f, p):
    """call nodes executed along path p, in order"""
    return [n for n in trace_nodes(f, p) if n["k"] in ALLCALLS]


def call_name(prog, f, c):
    return prog.callee_name(f, c)


def calls_to(prog, f, qn, within=None):
    """call nodes in f whose callee (function, slot variable or member) has qualified name qn"""
    qns = (qn,) if isinstance(qn, str) else tuple(qn)
    return [c for c in f.calls(within) if prog.callee_name(f, c) in qns]


def count_on_paths(prog, f, paths, pred):
    """for each path: number of trace elements (nodes) satisfying pred(node)"""
    out = []
    for p in paths:
        out.append(len([1 for x in trace_nodes(f, p) if pred(x)]))
    return out


def assignments(f, p=None):
    """(lhs rendering, rhs node, node) of plain assignments in function f (or along path p)"""
    out = []
    if p is None:
        it = list(f.walk())
    else:
        it = trace_nodes(f, p)
    for n in it:
        if n["k"] == "BinaryOperator" and n.get("op") == "=":
            out.append((render(f, f.node(n["lhs"])), f.node(n["rhs"]), n))
    return out


def fnref(f, n):
    """mangled name of the function an expression refers to (function designator), else None"""
    n = f.strip(n)
    if n is not None and n["k"] == "UnaryOperator" and n.get("op") == "&":
        n = f.strip(n["c"][0])
    if n is not None and n["k"] == "DeclRefExpr" and n.get("dk") in ("Function", "CXXMethod"):
        return n.get("mn")
    return None


def is_noreturn_call(prog, f, n, extra=()):
    if n["k"] not in CALL_KINDS:
        return False
    c = n.get("callee")
    if c and c.get("noreturn"):
        return True
    nm = prog.callee_name(f, n)
    return nm in extra


def describe_path(f, p, prog=None, maxcalls=12):
    calls = [render(f, f.nodes[e])[:70] for e in p.trace if isinstance(e, int) and f.nodes[e]["k"] in ALLCALLS]
    return {"conditions": p.describe(f), "end": p.end, "calls": calls[:maxcalls]}


def short(s, n=160):
    return s if len(s) <= n else s[:n - 3] + "..."


def local_inits(f):
    """name -> init node for local variables declared with an initialiser"""
    out = {}
    for n in f.walk():
        if n["k"] == "DeclStmt":
            for d in n.get("decls", []):
                if d.get("init") is not None:
                    out[d["name"]] = d["init"]
    return out


def derives_from(f, n, names, depth=4):
    """expression n mentions one of `names` directly or through locals initialised from them"""
    inits = local_inits(f)
    seen = set()

    def go(x, d):
        for y in f.walk(x):
            if y["k"] == "DeclRefExpr":
                if y["name"] in names:
                    return True
                if d > 0 and y["name"] in inits and y["name"] not in seen:
                    seen.add(y["name"])
                    if go(inits[y["name"]], d - 1):
                        return True
        return False
    return go(n, depth)


def guarded(run, fn, *a):
    """evaluate one rule; an AnalysisBroken inside it is recorded without hiding the other rules"""
    try:
        fn(*a)
    except AnalysisBroken as e:
        run.broke(str(e))


def callee_param_types(prog, call):
    """canonical parameter types of the (statically resolved) callee of a call/construct node"""
    c = call.get("callee") or call.get("ctor")
    if not c:
        return None
    mn = c["mn"]
    f = prog.functions.get(mn)
    if f is not None:
        return [p["ct"] for p in f.params]
    r, m = prog.method_decl(mn)
    if m is not None:
        return [p["ct"] for p in m["params"]]
    d = prog.fdecls.get(mn)
    if d is not None:
        return [p["ct"] for p in d["params"]]
    return None


def strip_value(f, n):
    """strip parens, implicit and explicit casts, and the `(x != 0)` / `0 != x` int-to-bool idiom"""
    n = f.strip(n)
    while n is not None and n["k"] in ("CXXConstructExpr", "CXXTemporaryObjectExpr") and len(f.args(n)) == 1:
        n = f.strip(f.args(n)[0])   # implicit conversion such as const char* -> SimpleString
    if n is not None and n["k"] == "UnaryOperator" and n.get("op") == "!":
        # !(x == 0) is the same int-to-bool idiom
        inner = f.strip(n["c"][0])
        if inner is not None and inner["k"] == "BinaryOperator" and inner.get("op") == "==":
            l, r = f.strip(f.node(inner["lhs"])), f.strip(f.node(inner["rhs"]))
            if r is not None and r["k"] == "IntegerLiteral" and r.get("v") == 0:
                return l, True
            if l is not None and l["k"] == "IntegerLiteral" and l.get("v") == 0:
                return r, True
    if n is not None and n["k"] == "BinaryOperator" and n.get("op") == "!=":
        l, r = f.strip(f.node(n["lhs"])), f.strip(f.node(n["rhs"]))
        if r is not None and r["k"] == "IntegerLiteral" and r.get("v") == 0:
            return l, True
        if l is not None and l["k"] == "IntegerLiteral" and l.get("v") == 0:
            return r, True
    return n, False


def in_loop_stmt(f, n):
    """is node n syntactically nested in a loop statement of f"""
    return any(a["k"] in ("ForStmt", "WhileStmt", "DoStmt", "CXXForRangeStmt") for a in f.ancestors(n))


def facts_at(f, pos, subst=False):
    """set of (atom key, truth) known at CFG position pos; conjunctions taken true and disjunctions taken
    false are decomposed into their leaves. With subst the keys are in origin form (single-assignment locals
    replaced by their initialisers)."""
    out = set()

    def add(n, truth):
        x = f.strip(n, casts=False)
        while x is not None and x["k"] == "ImplicitCastExpr" and x.get("c"):
            x = f.strip(x["c"][0], casts=False)
        if x is None:
            return
        if x["k"] == "UnaryOperator" and x.get("op") == "!":
            add(x["c"][0], not truth)
            return
        if x["k"] == "BinaryOperator" and x.get("op") == "&&" and truth:
            add(f.node(x["lhs"]), True)
            add(f.node(x["rhs"]), True)
            return
        if x["k"] == "BinaryOperator" and x.get("op") == "||" and not truth:
            add(f.node(x["lhs"]), False)
            add(f.node(x["rhs"]), False)
            return
        k, ap = atom(f, x, subst=subst)
        out.add((k, ap == truth))
    if pos is None:
        return out
    for cn, pol, b in f.edge_conditions(pos):
        add(cn, pol)
    return out


def delta_of(f, n, var=None):
    """(variable rendering, delta) when node n is an increment/decrement of an integer lvalue by a constant:
    x++, ++x, x--, --x, x += c, x -= c, x = x + c, x = c + x, x = x - c. Otherwise None."""
    k = n["k"]
    if k == "UnaryOperator" and n.get("op") in ("++", "--"):
        v = render(f, n["c"][0])
        d = 1 if n["op"] == "++" else -1
    elif k == "CompoundAssignOperator" and n.get("op") in ("+=", "-="):
        c = const_value(f, f.node(n["rhs"]))
        if c is None:
            return None
        v = render(f, f.node(n["lhs"]))
        d = c if n["op"] == "+=" else -c
    elif k == "BinaryOperator" and n.get("op") == "=":
        v = render(f, f.node(n["lhs"]))
        r = f.strip(f.node(n["rhs"]), casts=True)
        if r is None or r["k"] != "BinaryOperator" or r.get("op") not in ("+", "-"):
            return None
        a, b = render(f, f.node(r["lhs"]), keep_explicit_casts=False), render(f, f.node(r["rhs"]), keep_explicit_casts=False)
        ca, cb = const_value(f, f.node(r["lhs"])), const_value(f, f.node(r["rhs"]))
        if a == v and cb is not None:
            d = cb if r["op"] == "+" else -cb
        elif b == v and ca is not None and r["op"] == "+":
            d = ca
        else:
            return None
    else:
        return None
    if var is not None and v != var and not v.endswith(var):
        return None
    return (v, d)


def deltas_on_path(f, p, var):
    """list of constant increments applied to `var` along path p (see delta_of)"""
    out = []
    for n in trace_nodes(f, p):
        d = delta_of(f, n, var)
        if d is not None:
            out.append(d[1])
    return out


def origin_val(f, p):
    """valuation of path p with atom keys re-rendered in origin form (single-assignment locals substituted)"""
    out = {}
    for k, v, b, cn in p.decisions:
        n = f.nodes.get(cn) if isinstance(cn, int) else None
        if n is None or k.startswith(("decided:", "throws@", "switch:")) or "::" in k.split("(")[0]:
            out[k] = v
            continue
        ak, apol = atom(f, n)
        if ak != k:
            out[k] = v
            continue
        # recompute the key with substitution
        from cpv.expr import atom_sub
        sk, spol = atom_sub(f, n)
        out[sk] = v if spol == apol else (not v)
    return out


def string_hooks(extra=None):
    """call hooks that model SimpleString values as ("str", text) for the evaluator (use with pass_object = True)"""
    def txt(v):
        if isinstance(v, tuple) and v and v[0] == "str":
            return v[1]
        return None

    def two(fn):
        def h(*a_):
            if len(a_) < 2 or txt(a_[0]) is None or txt(a_[1]) is None:
                return None
            return fn(txt(a_[0]), txt(a_[1]))
        return h

    def one(fn):
        def h(*a_):
            if not a_ or txt(a_[0]) is None:
                return None
            return fn(txt(a_[0]))
        return h
    H = {"operator==": two(lambda a, b: 1 if a == b else 0), "operator!=": two(lambda a, b: 1 if a != b else 0),
         "SimpleString::size": one(len), "SimpleString::isEmpty": one(lambda a: 1 if not a else 0),
         "SimpleString::startsWith": two(lambda a, b: 1 if a.startswith(b) else 0), "SimpleString::endsWith": two(lambda a, b: 1 if a.endswith(b) else 0),
         "SimpleString::contains": two(lambda a, b: 1 if b in a else 0), "SimpleString::asCharString": one(lambda a: ("str", a)),
         "SimpleString::equalsNoCase": two(lambda a, b: 1 if a.lower() == b.lower() else 0),
         "SimpleString::containsNoCase": two(lambda a, b: 1 if b.lower() in a.lower() else 0),
         # at(i): the char (as signed char), the terminating NUL at i == size, unknown behind it
         "SimpleString::at": (lambda *a_: None if len(a_) < 2 or txt(a_[0]) is None or not isinstance(a_[1], int) or a_[1] > len(txt(a_[0])) or a_[1] < 0 else
                              (0 if a_[1] == len(txt(a_[0])) else (ord(txt(a_[0])[a_[1]]) - 256 if ord(txt(a_[0])[a_[1]]) > 127 else ord(txt(a_[0])[a_[1]]))))}
    H["operator+"] = two(lambda a, b: ("str", a + b))
    H["SimpleString::operator+"] = H["operator+"]
    H["SimpleString::subString"] = (lambda o, b_, n_=None, *r_: ("str", (txt(o)[b_:] if n_ is None else txt(o)[b_:b_ + n_]) if b_ <= len(txt(o)) else "")
                                    if txt(o) is not None and isinstance(b_, int) and (n_ is None or isinstance(n_, int)) else None)
    H["StringFromFormat"] = format_hook
    H.update(extra or {})
    return H


def c_format(fmt, args, text=lambda v: v):
    """printf-style rendering of the conversions the library uses (reference model of vsnprintf for text, integers, chars)"""
    out, i = [], 0
    for m in re.finditer(r"%([-0 +#]*)(\d*)(?:\.(\d+))?(hh|h|ll|l|z)?([dusxXcp%])|[^%]+", fmt):
        t = m.group(0)
        if not t.startswith("%"):
            out.append(t)
            continue
        flags, width, prec, _len, conv = m.groups()
        if conv == "%":
            out.append("%")
            continue
        a = args[i] if i < len(args) else None
        i += 1
        if conv == "s":
            v = text(a)
            if not isinstance(v, str):
                return None
            if prec:
                v = v[:int(prec)]
        elif conv in "du":
            if not isinstance(a, int):
                return None
            v = str(a)
        elif conv in "xX":
            if not isinstance(a, int):
                return None
            if a < 0:
                a &= (1 << (64 if _len in ("l", "ll", "z") else 32)) - 1       # the argument is converted to the unsigned type
            v = ("%x" if conv == "x" else "%X") % a
        elif conv == "c":
            if not isinstance(a, int):
                return None
            v = chr(a & 0xff)
        else:
            v = "0x%x" % a if isinstance(a, int) else None
            if v is None:
                return None
        if width:
            pad = "0" if "0" in flags and conv != "s" else " "
            v = v.ljust(int(width)) if "-" in flags else v.rjust(int(width), pad)
        out.append(v)
    return "".join(out)


def format_hook(ev_, fmt, *args):
    def text(v):
        try:
            return ev_.cstring(v)
        except Exception:
            return None
    f_ = text(fmt)
    if f_ is None:
        return None
    r = c_format(f_, args, text)
    return None if r is None else ("str", r)


format_hook.wants_ev = True



def object_state(prog, cls, ctor_types, args, steps=(), hooks=None, inline=None):
    """The private state a sequence of public operations leaves in an object: the constructor of `cls` whose parameter
    types are `ctor_types` folded (member initialisers included) on `args`, then every step (method name, args) on the same
    object. Returns the environment of the object's members. Rules that build their models this way do not name private
    members: a renamed member or a changed representation of the state is followed automatically."""
    from cpv.ceval import Evaluator
    ctors = [f for f in prog.methods_of(cls) if f.kind == "ctor" and [q["ct"] for q in f.params] == list(ctor_types)]
    if len(ctors) != 1:
        raise AnalysisBroken("constructor %s(%s) not found" % (cls, ", ".join(ctor_types)))
    fields = {fl["name"] for fl in prog.records.get(cls, {}).get("fields", [])}
    state = {}
    seq = [(ctors[0], args)]
    for name, a_ in steps:
        ms = [f for f in prog.methods_of(cls) if f.name == name and len(f.params) == len(a_)]
        if len(ms) != 1:
            raise AnalysisBroken("%s::%s with %d parameters not found" % (cls, name, len(a_)))
        seq.append((ms[0], a_))
    for f, a_ in seq:
        env = dict(state)
        env.update({q["name"]: v for q, v in zip(f.params, a_)})
        ev = Evaluator(prog, f, env=env, calls=dict(hooks or string_hooks()))
        ev.objects = True
        ev.pass_object = True
        if inline:
            ev.inline = inline
        ev.run_blocks(f.entry, max_steps=2000)
        root = lambda k: k.split(".")[0].split("[")[0]
        state = {k: v for k, v in ev.env.items() if root(k) in fields}
    return state



class Heap:
    """A heap of model objects that are built and changed only through their classes' own constructors and methods
    (folded): rules that describe their scenarios this way do not name private members. Objects live at the integer
    addresses the rule picks; `env()` is the resulting environment for a fold (cells `@addr.member`)."""

    def __init__(self, prog, hooks=None, inline=None, dyn_type=None):
        from cpv.ceval import Evaluator
        self.prog = prog
        anyf = next(iter(prog.functions.values()))
        self.ev = Evaluator(prog, anyf, env={}, calls=dict(hooks if hooks is not None else string_hooks()))
        self.ev.heap_mode = True
        self.ev.pass_object = True
        self.ev.objects = True
        self.ev.inline = set(inline or ())
        self.ev.dyn_type = dyn_type if dyn_type is not None else {}
        self.ev._model_checked = True

    def _pick(self, cls, name, args, kind=None, types=None):
        c = [f for f in self.prog.methods_of(cls) if (f.kind == kind if kind else f.name == name) and len(f.params) == len(args) and (types is None or [q["ct"] for q in f.params] == list(types))]
        if len(c) != 1:
            raise AnalysisBroken("%s::%s with %d parameter(s)%s not found (or ambiguous)" % (cls, name or cls, len(args), " " + str(types) if types else ""))
        return c[0]

    def construct(self, addr, cls, args=(), types=None):
        g = self._pick(cls, None, list(args), kind="ctor", types=types)
        self.ev.dyn_type[addr] = cls
        self.ev._run_special(g, "@%d." % addr, list(args), None, g.qn)
        return addr

    def call(self, addr, cls, name, args=(), types=None):
        g = self._pick(cls, name, list(args), types=types)
        return self.ev._run_special(g, "@%d." % addr, list(args), None, g.qn)

    def env(self):
        return dict(self.ev.env)


def getter_fold(prog, f, field, token=424242):
    """what a getter answers when `field` holds `token` (every other member is absent): folded, so `return field_;`, a named
    temporary, a conditional that ends up with the field are all the same getter. Returns the folded value (or a string why not)."""
    from cpv.ceval import Evaluator, Unknown
    ev = Evaluator(prog, f, env={field: token})
    ev.inline = {g.qn for g in prog.functions.values() if g.cls == f.cls and g.kind not in ("ctor", "dtor")} if f.cls else set()
    try:
        ev.run_blocks(f.entry, max_steps=300)
        r = getattr(ev, "ret", None)
        if isinstance(r, tuple) and r and r[0] == "lvalue":
            r = ev.env.get(r[1], r)          # a getter that returns a reference to the member: what the member holds
        return r
    except Unknown as u:
        return "unknown: %s" % u

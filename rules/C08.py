"""C08 — mock verdict: necessary conditions decided statically (typed forwarders, tag table, pruning primitives folded
over all short lists, fail-once, counting and order window, end-of-test verdict, tolerance side, return getters,
matching-state reset coverage). Pass <=> multiset equality over ALL call sequences is NOT decided. DESIGN.md section 4, C08."""
import itertools
import re
from .common import *
from cpv.ceval import Evaluator, Unknown

AC, EC, EL = "MockCheckedActualCall", "MockCheckedExpectedCall", "MockExpectedCallsList"
TOK = {"Bool": "bool", "Int": "int", "UnsignedInt": "unsigned int", "LongInt": "long", "UnsignedLongInt": "unsigned long",
       "LongLongInt": "long long", "UnsignedLongLongInt": "unsigned long long", "Double": "double", "String": "const char *",
       "Pointer": "void *", "ConstPointer": "const void *", "FunctionPointer": "void (*)()"}
TAGS = {"bool": "bool", "int": "int", "unsigned int": "unsigned int", "long": "long int", "unsigned long": "unsigned long int", "long long": "long long int",
        "unsigned long long": "unsigned long long int", "double": "double", "const char *": "const char*", "void *": "void*", "const void *": "const void*", "void (*)()": "void (*)()"}
ONLYKEEP = {  # function -> (predicate method, keep when predicate is ...)
    "onlyKeepExpectationsRelatedTo": ("relatesTo", True), "onlyKeepOutOfOrderExpectations": ("isOutOfOrder", True),
    "onlyKeepUnmatchingExpectations": ("isMatchingActualCallAndFinalized", False), "onlyKeepExpectationsWithInputParameterName": ("hasInputParameterWithName", True),
    "onlyKeepExpectationsWithOutputParameterName": ("hasOutputParameterWithName", True), "onlyKeepExpectationsWithInputParameter": ("hasInputParameter", True),
    "onlyKeepExpectationsWithOutputParameter": ("hasOutputParameter", True), "onlyKeepExpectationsOnObject": ("relatesToObject", True)}


def list_env(n, null=()):
    env = {"head_": 1 if n else 0}
    for k in range(1, n + 1):
        env["@%d.next_" % k] = k + 1 if k < n else 0
        env["@%d.expectedCall_" % k] = 0 if k in null else 100 + k
    return env


def chain(env):
    out, k, c = [], env.get("head_", 0), 0
    while k and c < 30:
        out.append((k, env.get("@%d.expectedCall_" % k)))
        k = env.get("@%d.next_" % k, 0)
        c += 1
    return out


def actualcall_routing_rule(prog, run, rid):
    # ---------------- R12 ---------------------------------------------------
    # "every parameter ... value": whether two parameter values are the same value is MockNamedValue::equals (shared with C09.R1-R3)
    from .C09 import integer_equality_rules
    integer_equality_rules(prog, run, "R12", "R12", "R12", thorough=(run.tier == "thorough"))

    # ---------------- R11 ---------------------------------------------------
    # MockSupport::actualCall folded over (previous call pending, enabled, tracing, call ignored): the previous call is
    # always retired first (its expectations checked once, the pointer cleared), then the routing decides
    ac = prog.fn("MockSupport::actualCall")
    run.analysed(ac)
    for last, en, tr, ig in itertools.product((0, 4000), (0, 1), (0, 1), (0, 1)):
        log = []

        def h(name, ret):
            return lambda *a_: (log.append((name, a_[0] if a_ else None)), ret)[1]
        cc = prog.fn("MockSupport::createActualCall", required=False)
        ev = Evaluator(prog, ac, env={"lastActualFunctionCall_": last, "enabled_": en, "tracing_": tr, "ignoreOtherCalls_": ig, "actualCallOrder_": 5, ac.params[0]["name"]: ("str", "f")}, calls={
            "MockExpectedCallsList::hasExpectationWithName": lambda *a_: 0,
            "MockSupport::appendScopeToName": lambda *a_: ("str", "f"), "MockCheckedActualCall::checkExpectations": h("check", 0),
            "MockSupport::callIsIgnored": lambda *a_: ig, "MockCheckedActualCall::withName": h("withName", 4100),
            "MockIgnoredActualCall::instance": h("ignoredInstance", 1), "MockActualCallTrace::instance": h("traceInstance", 2), "MockActualCallTrace::withName": h("traceWithName", 2)})
        ev.pass_object = True
        ev.heap_mode = True
        ev.inline = {"MockSupport::createActualCall"}
        ev.optional_stubs = {"MockSupport::callIsIgnored"}      # (ignoreOtherCalls_ and hasExpectationWithName are modelled as well)
        if cc is not None:
            run.analysed(cc)
        try:
            ev.run_blocks(ac.entry, max_steps=400)
        except Unknown as u:
            run.broke("%s: MockSupport::actualCall cannot be folded: %s" % (rid, u))
            break
        # the checked call object: `new MockCheckedActualCall(order, reporter, expectations)` wherever it is written
        made = [t[1] for t in ev.trace if str(t[0]).startswith("new MockCheckedActualCall")]
        for m_ in made:
            log.append(("create", m_[0]))
        kinds = [k for k, o in log]
        why = []
        if last:
            if kinds[:1] != ["check"] or log[0][1] != last or kinds.count("check") != 1:
                why.append("the pending call is not retired first (its expectations checked once): %s" % kinds)
            if ev.env.get("lastActualFunctionCall_") != 0 and "create" not in kinds:
                why.append("the pointer to the retired call is kept (%s): a disabled or ignored call would be answered from it" % ev.env.get("lastActualFunctionCall_"))
        elif "check" in kinds:
            why.append("expectations of a call that does not exist are checked")
        want = "ignoredInstance" if not en else ("traceInstance" if tr else ("ignoredInstance" if ig else "create"))
        routed = [k for k in kinds if k in ("ignoredInstance", "traceInstance", "create")]
        if routed != [want]:
            why.append("routed to %s, expected %s" % (routed, want))
        # strict ordering numbers the CHECKED calls 1, 2, 3, ...: a checked call takes the next number, a call answered by the
        # ignored / trace object takes none
        order_after = ev.env.get("actualCallOrder_")
        if want == "create":
            if len(made) == 1 and (made[0][1:2] != [6] or order_after != 6):
                why.append("the checked call is numbered %s and the counter is %s afterwards; it is the 6th checked call" % (made[0][1:2], order_after))
            if len(made) == 1 and ev.env.get("lastActualFunctionCall_") != made[0][0]:
                why.append("the new checked call is not remembered as the pending one")
        elif order_after != 5:
            why.append("a call that is not checked (disabled, traced or ignored) moves the strict-order counter from 5 to %s: the next checked call falls outside its expected order window" % order_after)
        run.ob(rid, "actualCall folded [previous call %s, enabled=%d, tracing=%d, ignored=%d]" % ("pending" if last else "none", en, tr, ig), ac.site, not why, witness=kinds, what="; ".join(why))



def diagnosis_rule(prog, run, rid):
    """Which diagnosis an unexpected parameter gets ("unexpected parameter NAME" vs "unexpected VALUE / TYPE of a known parameter") is
    decided in the failure object's constructor from the expectations. Folded against a set model of MockExpectedCallsList over every
    set of expectations {called function f / other function g} x {has a parameter of that name or not}: the headline is one text when
    an expectation OF THE CALLED FUNCTION knows the name and another text otherwise, whatever other functions expect. The wording
    itself is not fixed by the rule (only: two different headlines, each a function of the class)."""
    EXPS = [("f", 1), ("f", 0), ("g", 1), ("g", 0)]
    for cls, keep in (("MockUnexpectedInputParameterFailure", "onlyKeepExpectationsWithInputParameterName"), ("MockUnexpectedOutputParameterFailure", "onlyKeepExpectationsWithOutputParameterName")):
        fs = [f for f in prog.functions.values() if f.qn == "%s::%s" % (cls, cls)]
        if len(fs) != 1:
            raise AnalysisBroken("C08.%s: constructor of %s not found" % (rid, cls))
        f = fs[0]
        run.analysed(f)
        names = [q["name"] for q in f.params]
        heads = {}
        for r_ in range(len(EXPS) + 1):
            for world in itertools.combinations(EXPS, r_):
                lists, text = {"ALL": list(world)}, {}

                def add_related(key, name, src):
                    lists.setdefault(key, []).extend(e for e in lists[src] if ("str", e[0]) == name)
                    return 0

                def add_all(key, src):
                    lists.setdefault(key, []).extend(lists[src])
                    return 0

                def keep_named(key, pname):
                    lists[key] = [e for e in lists.get(key, []) if e[1]]
                    return 0

                def unmodelled(qn):
                    def h(*a_):
                        raise Unknown("list operation %s is not part of the set model" % qn)
                    return h
                calls = string_hooks()
                for g in prog.functions.values():
                    if g.qn.startswith("MockExpectedCallsList::") and g.kind not in ("ctor", "dtor"):
                        calls[g.qn] = unmodelled(g.qn)
                calls.update({
                    "MockExpectedCallsList::addExpectationsRelatedTo": add_related, "MockExpectedCallsList::addExpectations": add_all, "MockExpectedCallsList::" + keep: keep_named,
                    "MockExpectedCallsList::isEmpty": lambda key: 0 if lists.get(key) else 1, "MockExpectedCallsList::size": lambda key: len(lists.get(key, [])),
                    "SimpleString::operator=": lambda key, v: (text.__setitem__(key, v[1] if isinstance(v, tuple) and v[0] == "str" else None), 0)[1],
                    "SimpleString::operator+=": lambda key, v: (text.__setitem__(key, None if text.get(key, "") is None or not (isinstance(v, tuple) and v[0] == "str") else text.get(key, "") + v[1]), 0)[1],
                    "MockFailure::addExpectationsAndCallHistoryRelatedTo": lambda *a_: 0, "MockFailure::addExpectationsAndCallHistory": lambda *a_: 0, "MockFailure::MockFailure": lambda *a_: 0,
                    "MockNamedValue::getName": lambda *a_: ("str", "p"), "MockNamedValue::getType": lambda *a_: ("str", "int"), "StringFrom": lambda *a_: ("str", "4")})
                ev = Evaluator(prog, f, env=dict(zip(names, (0, ("str", "f"), "PARAM", "ALL"))), calls=calls)
                ev.pass_object = "key"
                ev.heap_mode = True
                ev.optional_stubs = set(calls)
                try:
                    ev.run_blocks(f.entry, max_steps=4000)
                except Unknown as u:
                    raise AnalysisBroken("C08.%s: %s cannot be folded against the set model of the expectations: %s" % (rid, cls, u))
                msgs = [t for t in text.values() if t]
                if len(text) != 1 or len(msgs) != 1:
                    raise AnalysisBroken("C08.%s: %s builds its message through %d string objects (one modelled)" % (rid, cls, len(text)))
                heads.setdefault(1 if ("f", 1) in world else 0, {}).setdefault(msgs[0].split("\n")[0], []).append(list(world))
        known, unknown = heads.get(1, {}), heads.get(0, {})
        why = ""
        if len(known) != 1 or len(unknown) != 1:
            odd = known if len(known) != 1 else unknown
            minority = min(odd.items(), key=lambda kv: len(kv[1]))
            why = "the headline depends on more than whether the called function expects a parameter of that name: with expectations %s it reads %r" % (minority[1][0], minority[0])
        elif set(known) & set(unknown):
            why = "the same headline %r whether or not the called function knows the parameter name" % list(known)[0]
        run.ob(rid, "%s folded over the 16 sets of expectations {called / other function} x {knows the parameter name or not}: one headline iff an expectation of the called function knows the name, another otherwise" % cls, f.site, not why,
               witness={"name known to the called function": sorted(known), "not known": sorted(unknown)}, what="" if not why else "the first deviation is reported with the diagnosis of another one: " + why)


def calls_left_rule(prog, run, rid):
    """MockSupport::expectedCallsLeft (the 'calls are left' half of the end-of-test verdict) folded against a model of the mock's own
    expectations and of its data list (0..3 entries, each a plain datum, a scope with nothing left or a scope with calls left): it
    answers true iff the mock itself or ANY of its scopes has unfulfilled expectations."""
    f = prog.fn("MockSupport::expectedCallsLeft")
    run.analysed(f)
    bad, ncase = None, 0
    for own in (0, 1):
        for n in range(0, 4):
            for kinds in itertools.product(("datum", "scope-done", "scope-left"), repeat=n):
                ncase += 1
                nodes = [100 + i_ for i_ in range(n)]
                scope_of = {nodes[i_]: (2000 + i_ if kinds[i_] != "datum" else 0) for i_ in range(n)}
                left_of = {2000 + i_: (1 if kinds[i_] == "scope-left" else 0) for i_ in range(n)}
                hooks = string_hooks({"MockSupport::checkExpectationsOfLastActualCall": lambda *a_: 0, "MockExpectedCallsList::hasUnfulfilledExpectations": lambda *a_: own,
                                      "MockNamedValueList::begin": lambda *a_: nodes[0] if nodes else 0,
                                      "MockNamedValueListNode::next": lambda o=None, *a_: (nodes[nodes.index(o) + 1] if o in nodes and nodes.index(o) + 1 < len(nodes) else 0),
                                      "MockSupport::getMockSupport": lambda *a_: scope_of.get(a_[-1], 0),
                                      "MockSupport::expectedCallsLeft": lambda o=None, *a_: left_of.get(o)})
                ev = Evaluator(prog, f, env={"this": 50}, calls=hooks)
                ev.pass_object = True
                ev.heap_mode = True
                ev.inline = {"MockSupport::hasCallsOutOfOrder"} - set(hooks)
                try:
                    ev.run_blocks(f.entry, max_steps=2000)
                    r = getattr(ev, "ret", None)
                    r = int(bool(r)) if isinstance(r, (int, bool)) else r
                except Unknown as u:
                    raise AnalysisBroken("C08.%s: expectedCallsLeft cannot be folded: %s" % (rid, u))
                want = 1 if own or "scope-left" in kinds else 0
                if r != want and bad is None:
                    bad = "own expectations %s, data list %s: answers %s" % ("unfulfilled" if own else "fulfilled", list(kinds), r)
    run.ob(rid, "expectedCallsLeft folded over %d models (own expectations x data lists of 0..3 plain data / finished scopes / scopes with calls left): true iff the mock or any scope has calls left" % ncase, f.site, bad is None,
           witness=bad or "%d models" % ncase, what="" if bad is None else "an unfulfilled expectation in a scope is not reported at the end of the test (or a fulfilled scenario is): " + bad)


def failed_call_rule(prog, run, rid):
    """fail once: every parameter-checking entry of a checked actual call (the typed with...Parameter family, the output-parameter forms,
    onObject), folded on a call that HAS ALREADY FAILED, leaves the candidates alone and reports nothing more."""
    AC_ = "MockCheckedActualCall"
    entries = sorted((g for g in prog.methods_of(AC_) if g.kind == "method" and (re.match(r"^with\w*Parameter\w*$", g.name) or g.name == "onObject")), key=lambda g: (g.name, g.line))
    if len(entries) < 15:
        raise AnalysisBroken("C08.%s: only %d parameter-checking entries of %s found" % (rid, len(entries), AC_))
    bad, n_ = None, 0
    for f in entries:
        run.analysed(f)
        n_ += 1
        seq = []

        def rec(name):
            return lambda *a_: (seq.append(name), 0)[1]
        # (failTest itself is folded: it is the guard of last resort - a second report only counts when it reaches the reporter)
        hooks = string_hooks({AC_ + "::hasFailed": lambda *a_: 1, "MockFailureReporter::failTest": rec("report"), AC_ + "::setState": rec("setState"),
                              AC_ + "::completeCallWhenMatchIsFound": rec("complete"), AC_ + "::discardCurrentlyMatchingExpectations": rec("discard")})
        for g in prog.functions.values():
            if g.qn.startswith("MockExpectedCallsList::") and g.kind == "method":
                hooks[g.qn] = rec(g.name)
            if g.qn.startswith("MockNamedValue::") and g.kind in ("method", "ctor", "dtor"):
                hooks.setdefault(g.qn, lambda *a_: 0)
            if g.kind == "ctor" and (g.cls or "").startswith("Mock") and (g.cls or "").endswith("Failure"):
                hooks.setdefault(g.qn, lambda *a_: 0)
        env = {"this": 100}
        for q in f.params:
            env[q["name"]] = ("str", "p") if "SimpleString" in q["ct"] or q["ct"].replace("const ", "").strip() == "char *" else 5
        ev = Evaluator(prog, f, env=env, calls=hooks)
        ev.pass_object = True
        ev.heap_mode = True
        ev.optional_stubs = set(hooks)
        ev.dyn_type = {100: AC_}                  # (its helpers are virtual: resolved on the checked call itself)
        ev.inline = {g.qn for g in prog.methods_of(AC_)} - set(hooks)
        try:
            ev.run_blocks(f.entry, max_steps=3000)
        except Unknown as u:
            raise AnalysisBroken("C08.%s: %s cannot be folded on a failed call: %s" % (rid, f.qn, u))
        skipped = [t_[0] for t_ in ev.trace if isinstance(t_[0], str) and t_[0].startswith(AC_ + "::") and t_[0] not in hooks and t_[1] is None and not t_[0].startswith(("enter ", "leave "))]
        if skipped:
            raise AnalysisBroken("C08.%s: %s: the call of %s was not folded" % (rid, f.qn, skipped[0]))
        if seq and bad is None:
            bad = "%s(%s) on a call that has already failed still does %s" % (f.name, ", ".join(q["ct"] for q in f.params), seq[:4])
    run.ob(rid, "the %d parameter-checking entries of a checked actual call folded on a call that has already failed: no pruning, no state change, no second report" % n_, entries[0].site, bad is None,
           witness=bad or "%d entries" % n_, what="" if bad is None else "one scenario is failed twice: " + bad)


def on_object_rule(prog, run, rid):
    """MockCheckedActualCall::onObject folded over (call already failed, an expectation already matched, candidates left after pruning by
    object): a failed call does nothing; otherwise the candidates are pruned by the object; no candidate and no match -> one unexpected-
    object failure; else EVERY remaining candidate is told it was called on that object (a candidate with more parameters may still
    become the match) and the call is completed only when nothing had matched yet."""
    AC_ = "MockCheckedActualCall"
    f = prog.fn(AC_ + "::onObject")
    run.analysed(f)
    bad, wit = None, []
    for failed, matched, empty in itertools.product((0, 1), (0, 1), (0, 1)):
        seq = []

        def rec(name, ret=0):
            return lambda *a_: (seq.append((name,) + tuple(x for x in a_[1:] if isinstance(x, int))), ret)[1]
        hooks = string_hooks({AC_ + "::hasFailed": lambda *a_: failed, "MockExpectedCallsList::onlyKeepExpectationsOnObject": rec("prune"), "MockExpectedCallsList::isEmpty": lambda *a_: empty,
                              "MockExpectedCallsList::wasPassedToObject": rec("mark"), AC_ + "::completeCallWhenMatchIsFound": rec("complete"), AC_ + "::failTest": rec("fail"),
                              AC_ + "::getTest": lambda *a_: 11, AC_ + "::getName": lambda *a_: ("str", "f"), "MockUnexpectedObjectFailure::MockUnexpectedObjectFailure": lambda *a_: 0})
        ev = Evaluator(prog, f, env={"this": 100, f.params[0]["name"]: 7777, "matchingExpectation_": 4242 if matched else 0}, calls=hooks)
        ev.pass_object = True
        ev.heap_mode = True
        ev.optional_stubs = set(hooks)
        try:
            ev.run_blocks(f.entry, max_steps=600)
        except Unknown as u:
            raise AnalysisBroken("C08.%s: onObject cannot be folded: %s" % (rid, u))
        kinds = [x[0] for x in seq]
        if failed:
            want = []
        elif empty and not matched:
            want = ["prune", "fail"]
        else:
            want = ["prune", "mark"] + ([] if matched else ["complete"])
        wit.append({"failed": failed, "matched": matched, "no candidate left": empty, "does": kinds})
        if kinds != want and bad is None:
            bad = "call %s, %s, %s after pruning: does %s, expected %s" % ("already failed" if failed else "not failed", "an expectation already matched" if matched else "nothing matched yet", "no candidate left" if empty else "candidates left", kinds, want)
        elif not failed and seq and seq[0] != ("prune", 7777) and bad is None:
            bad = "the candidates are pruned with %s, the object of the call is 7777" % (seq[0][1:],)
    run.ob(rid, "onObject folded over (failed, already matched, candidates left): prune by the object; fail once iff nothing can match; otherwise mark every remaining candidate and complete only an unmatched call", f.site, bad is None,
           witness=bad or wit[:4], what=bad or "")


def check(ctx, run):
    prog = ctx.program()
    run.assume("expectations are matched through the pruning primitives only (who-may-write on the candidate list is checked); list primitives are folded over every list of up to 3 expectations and every predicate pattern, which covers all states of their uniform per-node transitions")
    run.not_decided.append("pass <=> multiset of actual calls = multiset of expected calls for ALL call sequences, and which diagnosis is selected first (state machine over unbounded histories)")
    run.rule("R1", "typed forwarders (SIBLING): each with<T>Parameter stores its value through the setValue overload whose parameter type is exactly T and (actual side) checks the parameter exactly once", floor=24)
    run.rule("R2", "tag TABLE: each setValue overload writes the tag literal of its own parameter type", floor=12)
    run.rule("R3", "pruning primitives folded over every list of 0..3 expectations x every predicate pattern: each onlyKeep* keeps exactly the nodes its name says (asking the predicate it is named after), pruneEmptyNodeFromList unlinks exactly the emptied nodes, first-match pickers return/remove exactly the first match", floor=120, exhaustive=True)
    run.rule("R4", "fail once: an actual call reports only if it has not failed and marks itself failed before reporting; both failure reporters are guarded by !hasFailed(); the mock support clears before reporting", floor=4)
    run.rule("R5", "counting and order window folded: callWasMade adds exactly one actual call and flags out-of-order iff an order is expected and the call order is outside [initial, final]; isFulfilled is ==, canMatchActualCalls is <", floor=20, exhaustive=True)
    run.rule("R6", "end-of-test verdict: unfulfilled is reported iff the last call was fulfilled and calls are left, and the out-of-order check runs AFTER it (on the cleared mock); the plugin checks iff the test has not failed and always clears", floor=6)
    run.rule("R7", "tolerance side: hasInputParameter compares with the expectation's stored value as receiver", floor=2)
    run.rule("R8", "return-value getters (SIBLING): return<T>Value reads get<T>Value of the same T; return<T>ValueOrDefault defaults iff !hasReturnValue(); returnValue checks expectations first and reads the matched expectation", floor=24)
    run.rule("R12", "parameter values compare by mathematical value: the comparison equals() selects for every ordered pair of integer tags, folded over boundary values and their 2^32/2^64 aliases (shared with C09.R1-R3)", floor=100, exhaustive=True)
    run.rule("R11", "actualCall routing folded over (previous call pending, enabled, tracing, ignored): the previous call is retired first on every route, then disabled -> ignored call, tracing -> trace, ignored name -> ignored call, else a checked call", floor=16, exhaustive=True)
    run.rule("R10", "no stale per-call marks: an expectation dropped from a call's candidate list is clean before it can be a candidate again (reset where it is dropped, or all candidates reset when a call collects them)", floor=2)
    run.rule("R13", "expectation predicates folded over their truth tables: relatesToObject = (no specific object expected) or (expected object == object of the call, NULL being an object like any other); onObject records (specific, object, not yet passed); isMatchingActualCall = parameters match and passed to object; isMatchingActualCallAndFinalized = that and (no ignored parameters or finalized); relatesTo compares names by content", floor=5, exhaustive=True)
    run.rule("R14", "matching diagnosis: the unexpected-parameter failures (input, output) folded against a set model of the expectation list over every set of expectations of the called and of another function: the headline says 'unknown name' iff no expectation of the called function has a parameter of that name", floor=2, exhaustive=True)
    diagnosis_rule(prog, run, "R14")
    run.rule("R9", "matching-state reset coverage: every field or per-parameter flag set by the per-call marker methods is reset by resetActualCallMatchingState", floor=3)

    # ---------------- R1 / R2 -----------------------------------------------
    for cls in (AC, EC):
        n1 = 0
        for f in sorted(prog.methods_of(cls), key=lambda x: x.name):
            m = re.match(r"^with(\w+)Parameter$", f.name)
            if not m or m.group(1) not in TOK:
                continue
            n1 += 1
            run.analysed(f)
            T = TOK[m.group(1)]
            sv = [c for c in f.calls() if (prog.callee_name(f, c) or "") == "MockNamedValue::setValue"]
            why = []
            if len(sv) != 1:
                why.append("setValue called %d times" % len(sv))
            else:
                pt = callee_param_types(prog, sv[0]) or []
                if not pt or pt[0] != T:
                    why.append("overload resolution picked setValue(%s), the method is named for %s" % (pt[0] if pt else None, T))
                v, conv = strip_value(f, f.args(sv[0])[0])
                if v is None or render(f, v) != f.params[1]["name"]:
                    why.append("stores %s, not its value parameter" % (render(f, f.args(sv[0])[0])))
            if f.params[1]["ct"] != T:
                why.append("declared value type %s" % f.params[1]["ct"])
            if cls == AC:
                cnt = [len([c for c in path_calls(prog, f, p) if (prog.callee_name(f, c) or "") == AC + "::checkInputParameter"]) for p in enumerate_paths(f)]
                if not cnt or any(c != 1 for c in cnt):
                    why.append("checkInputParameter called %s times" % cnt)
            run.ob("R1", "%s::%s" % (cls, f.name), f.site, not why, witness=why or "setValue(%s) of its own value" % T, what="; ".join(why))
        if n1 < 12:
            run.broke("only %d typed with<T>Parameter methods found in %s" % (n1, cls))
    from .C09 import tag_table
    tab = tag_table(prog)
    for ct, tag in TAGS.items():
        got = [t for t, (mem, pct, f) in tab.items() if pct == ct]
        ok = tag in got
        run.ob("R2", "setValue(%s) writes tag %r" % (ct, tag), "src/CppUTestExt/MockNamedValue.cpp:MockNamedValue::setValue", ok, witness=got,
               what="" if ok else "a value stored as %s is tagged %s: it will be compared and read back as another type" % (ct, got))

    # ---------------- R3 ----------------------------------------------------
    pr = prog.fn(EL + "::pruneEmptyNodeFromList")
    run.analysed(pr)
    for n in range(0, 4):
        for nulls in itertools.chain.from_iterable(itertools.combinations(range(1, n + 1), r) for r in range(n + 1)):
            ev = Evaluator(prog, pr, env=list_env(n, nulls))
            ev.heap_mode = True
            try:
                ev.run_blocks(pr.entry, max_steps=800)
                got = [k for k, c in chain(ev.env)]
                why = ""
            except Unknown as u:
                got, why = None, "cannot fold: %s" % u
            want = [k for k in range(1, n + 1) if k not in nulls]
            run.ob("R3", "pruneEmptyNodeFromList on %d nodes with emptied %s" % (n, list(nulls)), pr.site, got == want, witness={"remaining": got}, what=why or ("" if got == want else "remaining %s, expected %s" % (got, want)))
    ELINL = {g.qn for g in prog.functions.values() if g.qn.startswith(EL + "::")}      # helpers of the list are transparent
    for name, (pred, keep_when) in sorted(ONLYKEEP.items()):
        f = prog.fn(EL + "::" + name)
        run.analysed(f)
        asked_ = set()
        for n in range(0, 4):
            for pat in itertools.product((0, 1), repeat=n):
                ev = Evaluator(prog, f, env=dict(list_env(n), **{q["name"]: 7 for q in f.params}))
                ev.heap_mode = True
                ev.pass_object = True
                ev.inline = ELINL
                resets = []
                for meth in {v[0] for v in ONLYKEEP.values()}:
                    ev.calls[EC + "::" + meth] = lambda o, *a, pat=pat, meth=meth, asked_=asked_: (asked_.add(meth), pat[o - 101] if o and 101 <= o <= 100 + len(pat) else None)[1]
                ev.calls[EC + "::resetActualCallMatchingState"] = lambda o, resets=resets: (resets.append(o), 0)[1]
                try:
                    ev.run_blocks(f.entry, max_steps=1500)
                    got = [c for k, c in chain(ev.env)]
                    why = ""
                except Unknown as u:
                    got, why = None, "cannot fold: %s" % u
                want = [100 + k for k in range(1, n + 1) if bool(pat[k - 1]) == keep_when]
                ok = got == want
                if ok and name == "onlyKeepUnmatchingExpectations":
                    ok = sorted(resets) == [100 + k for k in range(1, n + 1) if pat[k - 1]]
                    why = "" if ok else "matching state reset for %s" % resets
                run.ob("R3", "%s on %d expectations, predicate %s" % (name, n, list(pat)), f.site, ok, witness={"kept": got, "expected": want}, what=why or ("" if ok else "keeps %s, expected %s" % (got, want)))
        asked = sorted(asked_)
        run.ob("R3", "%s asks %s" % (name, pred), f.site, asked == [pred], witness=asked, what="" if asked == [pred] else "the primitive prunes by %s" % asked)
    for name, pred, removes in (("removeFirstFinalizedMatchingExpectation", "isMatchingActualCallAndFinalized", True), ("removeFirstMatchingExpectation", "isMatchingActualCall", True), ("getFirstMatchingExpectation", "isMatchingActualCall", False)):
        f = prog.fn(EL + "::" + name)
        run.analysed(f)
        for n in range(0, 4):
            for pat in itertools.product((0, 1), repeat=n):
                ev = Evaluator(prog, f, env=list_env(n))
                ev.heap_mode = True
                ev.pass_object = True
                ev.inline = ELINL
                ev.calls[EC + "::" + pred] = lambda o, *a, pat=pat: (pat[o - 101] if o and 101 <= o <= 100 + len(pat) else None)
                try:
                    ev.run_blocks(f.entry, max_steps=1500)
                    got = ([c for k, c in chain(ev.env)], getattr(ev, "ret", None))
                    why = ""
                except Unknown as u:
                    got, why = None, "cannot fold: %s" % u
                first = next((100 + k for k in range(1, n + 1) if pat[k - 1]), 0)
                want = ([100 + k for k in range(1, n + 1) if not (removes and 100 + k == first)], first)
                run.ob("R3", "%s on %d expectations, predicate %s" % (name, n, list(pat)), f.site, got == want, witness={"list, returned": got}, what=why or ("" if got == want else "expected %s" % (want,)))

    # ---------------- R13 ---------------------------------------------------
    def fold_ec(meth, env, hooks=None, nparams=None):
        fs = [g for g in prog.fns(EC + "::" + meth) if nparams is None or len(g.params) == nparams]
        f = fs[0]
        run.analysed(f)
        ev = Evaluator(prog, f, env=env, calls=string_hooks(hooks or {}))
        ev.pass_object = True
        ev.run_blocks(f.entry, max_steps=400)
        return getattr(ev, "ret", None), ev.env, f
    try:
        bad = None
        for spec, mine, asked in itertools.product((0, 1), (0, 700), (0, 700, 800)):
            f0 = prog.fn(EC + "::relatesToObject")
            r, env_, f = fold_ec("relatesToObject", {"isSpecificObjectExpected_": spec, "objectPtr_": mine, f0.params[0]["name"]: asked})
            want = 1 if (not spec or mine == asked) else 0
            if r != want and bad is None:
                bad = "specific object expected=%d, expected object %s, call on object %s: relates=%s, expected %d" % (spec, mine or "NULL", asked or "NULL", r, want)
        run.ob("R13", "relatesToObject folded over (specific?, expected object, object of the call) incl. NULL objects", f.site, bad is None, witness=bad or "12 cases",
               what="" if bad is None else "an expectation bound to one object (NULL is an object too) matches calls on another, or an unbound one does not match: " + bad)
        bad = None
        for ptr in (0, 700):
            f0 = prog.fn(EC + "::onObject")
            r, env_, f = fold_ec("onObject", {"isSpecificObjectExpected_": 0, "objectPtr_": 55, "wasPassedToObject_": 1, "this": 9000, f0.params[0]["name"]: ptr})
            got = (env_.get("isSpecificObjectExpected_"), env_.get("objectPtr_"), env_.get("wasPassedToObject_"))
            if got != (1, ptr, 0) and bad is None:
                bad = "onObject(%s) leaves (specific, object, passed) = %s" % (ptr or "NULL", got)
        run.ob("R13", "onObject records a specific object (also NULL) that the call has not been passed to yet", f.site, bad is None, witness=bad or "2 cases", what=bad or "")
        bad = None
        for pm, passed in itertools.product((0, 1), repeat=2):
            r, env_, f = fold_ec("isMatchingActualCall", {"wasPassedToObject_": passed}, {EC + "::areParametersMatchingActualCall": lambda *a_, pm=pm: pm})
            if r != (1 if pm and passed else 0) and bad is None:
                bad = "parameters match=%d, passed to object=%d: %s" % (pm, passed, r)
        run.ob("R13", "isMatchingActualCall = parameters match and the call was passed to the expected object", f.site, bad is None, witness=bad or "4 cases", what=bad or "")
        bad = None
        for m_, ign, fin in itertools.product((0, 1), repeat=3):
            r, env_, f = fold_ec("isMatchingActualCallAndFinalized", {"ignoreOtherParameters_": ign, "isActualCallMatchFinalized_": fin}, {EC + "::isMatchingActualCall": lambda *a_, m_=m_: m_})
            if r != (1 if m_ and (not ign or fin) else 0) and bad is None:
                bad = "matching=%d, ignoring other parameters=%d, finalized=%d: %s" % (m_, ign, fin, r)
        run.ob("R13", "isMatchingActualCallAndFinalized = matching and (no ignored parameters or finalized)", f.site, bad is None, witness=bad or "8 cases", what=bad or "")
        bad = None
        for mine, asked in (("foo", "foo"), ("foo", "fo"), ("foo", "foo2"), ("", ""), ("Foo", "foo")):
            f0 = prog.fn(EC + "::relatesTo")
            r, env_, f = fold_ec("relatesTo", {f0.params[0]["name"]: ("str", asked), "functionName_": ("str", mine)}, {EC + "::getName": lambda *a_, mine=mine: ("str", mine)})
            if r != (1 if mine == asked else 0) and bad is None:
                bad = "expectation %r asked about %r: %s" % (mine, asked, r)
        run.ob("R13", "relatesTo compares the function name by content", f.site, bad is None, witness=bad or "5 cases", what=bad or "")
    except Unknown as u:
        run.broke("C08.R13: an expectation predicate cannot be folded: %s" % u)

    # ---------------- R4 ----------------------------------------------------
    ft = prog.fn(AC + "::failTest")
    run.analysed(ft)
    okf = True
    wit = []
    for p in enumerate_paths(ft):
        hf = p.val().get("hasFailed()")
        seq = []
        for c in path_calls(prog, ft, p):
            r = render(ft, c)
            if r == "setState(CALL_FAILED)":
                seq.append("mark")
            if r.startswith("reporter_->failTest("):
                seq.append("report")
        wit.append({"hasFailed": hf, "sequence": seq})
        if hf is None or seq != ([] if hf else ["mark", "report"]):
            okf = False
    run.ob("R4", "an actual call reports only once and marks itself failed before reporting", ft.site, okf, witness=wit)
    for qn in ("MockFailureReporter::failTest", "MockFailureReporterForInCOnlyCode::failTest"):
        g = prog.fn(qn)
        run.analysed(g)
        ok = True
        for p in enumerate_paths(g, stop=lambda ff, n: False):
            hf = [v for k, v in p.val().items() if k.endswith("hasFailed()")]
            nfw = [(prog.callee_name(g, c) or "").split("::")[-1] for c in path_calls(prog, g, p)].count("failWith")
            if len(hf) != 1 or nfw != (0 if hf[0] else 1):
                ok = False
        run.ob("R4", "%s reports iff the test has not failed yet" % qn, g.site, ok)
    sf = prog.fn("MockSupport::failTest")
    run.analysed(sf)
    seq = []
    ev = Evaluator(prog, sf, env={sf.params[0]["name"]: 300, "activeReporter_": 770}, calls={"MockSupport::clear": lambda *a_: (seq.append(("clear",)), 0)[1],
                                                                                              "MockFailureReporter::failTest": lambda o=None, *a_: (seq.append(("report", o, a_[-1] if a_ else None)), 0)[1]})
    ev.pass_object = True
    ev.heap_mode = True
    try:
        ev.run_blocks(sf.entry, max_steps=200)
    except Unknown as u:
        seq.append("unknown: %s" % u)
    run.ob("R4", "MockSupport::failTest folded: the mock support clears its expectations before reporting the failure it was given to the active reporter (a second end-of-test check sees nothing)", sf.site,
           seq == [("clear",), ("report", 770, 300)], witness=[str(x) for x in seq])

    # ---------------- R5 ----------------------------------------------------
    cw = prog.fn(EC + "::callWasMade")
    run.analysed(cw)
    NO = [e["v"] for en in prog.enums.values() for e in en["enumerators"] if e["name"] == "NO_EXPECTED_CALL_ORDER"]
    NO = NO[0] if NO else 0
    for ini, fin, order in itertools.product((NO, 2, 5), (NO, 2, 5, 7), (1, 2, 4, 5, 7, 9)):
        if (ini == NO) != (fin == NO) or (ini != NO and fin < ini):
            continue
        ev = Evaluator(prog, cw, env={"actualCalls_": 3, "outOfOrder_": 0, "initialExpectedCallOrder_": ini, "finalExpectedCallOrder_": fin, cw.params[0]["name"]: order})
        resets = []
        ev.calls[EC + "::resetActualCallMatchingState"] = lambda resets=resets: (resets.append(1), 0)[1]
        try:
            ev.run_blocks(cw.entry)
            got = (ev.env.get("actualCalls_"), ev.env.get("outOfOrder_"), len(resets))
        except Unknown as u:
            got = "unknown: %s" % u
        want = (4, 1 if (ini != NO and (order < ini or order > fin)) else 0, 1)
        run.ob("R5", "callWasMade(order %d) with expected window [%s, %s]" % (order, "none" if ini == NO else ini, "none" if fin == NO else fin), cw.site, got == want, witness={"calls, outOfOrder, resets": got})
    for meth, op in (("isFulfilled", "=="), ("canMatchActualCalls", "<")):
        f = prog.fn(EC + "::" + meth)
        for a, e in itertools.product((0, 1, 2, 3), (0, 1, 2)):
            ev = Evaluator(prog, f, env={"actualCalls_": a, "expectedCalls_": e})
            try:
                ev.run_blocks(f.entry)
                got = getattr(ev, "ret", None)
            except Unknown as u:
                got = "unknown: %s" % u
            want = 1 if ((a == e) if op == "==" else (a < e)) else 0
            if got != want:
                run.ob("R5", "%s with actual=%d expected=%d" % (meth, a, e), f.site, False, witness={"folded": got, "oracle": want})
        run.ob("R5", "%s is actualCalls_ %s expectedCalls_ (folded on 12 pairs)" % (meth, op), f.site, True, witness="see violations, if any")

    # ---------------- R6 ----------------------------------------------------
    ce = prog.fn("MockSupport::checkExpectations")
    run.analysed(ce)
    for p in enumerate_paths(ce):
        v = p.val()
        names = [(prog.callee_name(ce, c) or "").split("::")[-1] for c in path_calls(prog, ce, p)]
        wl, cl, oo = v.get("wasLastActualCallFulfilled()"), v.get("expectedCallsLeft()"), v.get("hasCallsOutOfOrder()")
        why = []
        if names[:1] != ["checkExpectationsOfLastActualCall"]:
            why.append("the last actual call is not finished first")
        unful = bool(wl) and bool(cl)
        if names.count("failTestWithExpectedCallsNotFulfilled") != (1 if unful else 0):
            why.append("unfulfilled reported %d times with lastFulfilled=%s callsLeft=%s" % (names.count("failTestWithExpectedCallsNotFulfilled"), wl, cl))
        if oo is None or names.count("failTestWithOutOfOrderCalls") != (1 if oo else 0):
            why.append("out-of-order reported %d times with hasCallsOutOfOrder=%s" % (names.count("failTestWithOutOfOrderCalls"), oo))
        if unful and "hasCallsOutOfOrder" in names and names.index("hasCallsOutOfOrder") < names.index("failTestWithExpectedCallsNotFulfilled"):
            why.append("the out-of-order condition is evaluated before the unfulfilled failure cleared the mock: one scenario can fail twice")
        run.ob("R6", "checkExpectations [%s]" % short(p.describe(ce), 100), ce.site, not why, witness=names, what="; ".join(why))
    pp = prog.fn("MockSupportPlugin::postTestAction")
    run.analysed(pp)
    tn = pp.params[0]["name"]
    for p in enumerate_paths(pp):
        v = p.val()
        hf = v.get("%s.hasFailed()" % tn)
        names = [render(pp, c).replace('mock(SimpleString(""), NULL)', "mock()") for c in path_calls(prog, pp, p)]
        chk = names.count("mock().checkExpectations()")
        why = []
        if hf is None or len(v) != 1:
            why.append("the check is not gated on exactly test.hasFailed(): %s" % sorted(v))
        elif chk != (0 if hf else 1):
            why.append("checkExpectations called %d times with hasFailed=%s" % (chk, hf))
        if names.count("mock().clear()") != 1:
            why.append("mock not cleared exactly once")
        if chk and names.index("mock().checkExpectations()") > names.index("mock().clear()"):
            why.append("cleared before checking")
        run.ob("R6", "mock plugin post action [%s]" % p.describe(pp), pp.site, not why, witness=names, what="; ".join(why))

    calls_left_rule(prog, run, "R6")
    on_object_rule(prog, run, "R13")
    failed_call_rule(prog, run, "R4")

    # ---------------- R7 ----------------------------------------------------
    for meth, cmpf in (("hasInputParameter", "equals"), ("hasOutputParameter", "compatibleForCopying")):
        f = prog.fn(EC + "::" + meth)
        run.analysed(f)
        pn = f.params[0]["name"]
        own, other_list = ("inputParameters_", "outputParameters_") if "Input" in meth else ("outputParameters_", "inputParameters_")
        bad, wit = None, []
        for found, ans, ign in itertools.product((0, 1), (0, 1), (0, 1)):
            asked, cmp_ = [], []
            hooks = string_hooks({"MockNamedValueList::getValueByName": lambda o=None, *a_, found=found: (asked.append(o), 880 if found else 0)[1], "MockNamedValue::getName": lambda *a_: ("str", "p"),
                                  "MockNamedValue::" + cmpf: lambda o=None, *a_, ans=ans: (cmp_.append((o, a_[-1] if a_ else None)), ans)[1]})
            ev = Evaluator(prog, f, env={pn: 300, own: 6001, other_list: 6002, "ignoreOtherParameters_": ign}, calls=hooks)
            ev.pass_object = True
            ev.heap_mode = True
            try:
                ev.run_blocks(f.entry, max_steps=300)
                r = getattr(ev, "ret", None)
                r = int(bool(r)) if isinstance(r, (int, bool)) else r
            except Unknown as u:
                raise AnalysisBroken("C08.R7: %s cannot be folded: %s" % (meth, u))
            want = ans if found else ign
            wit.append({"stored": found, cmpf: ans, "ignore others": ign, "answers": r})
            if bad is None and (r != want or asked != [6001] or (found and cmp_ != [(880, 300)]) or (not found and cmp_)):
                bad = "stored value %s, %s answers %d, other parameters %signored: answers %s, asked list %s, compared %s" % ("found" if found else "missing", cmpf, ans, "" if ign else "not ", r, asked, cmp_)
        run.ob("R7", "%s folded over (stored value found, %s answer, other parameters ignored): the expectation's stored value is the receiver of %s with the actual parameter as argument (its tolerance applies); a missing name matches only when other parameters are ignored" % (meth, cmpf, cmpf),
               f.site, bad is None, witness=bad or wit[:3], what=bad or "")

    # ---------------- R8 ----------------------------------------------------
    n8 = 0
    for f in sorted(prog.methods_of(AC), key=lambda x: x.name):
        m = re.match(r"^return(\w+)Value$", f.name)
        if m and m.group(1) in TOK:
            n8 += 1
            run.analysed(f)
            getters = []
            if not [g_ for g_ in prog.methods_of("MockNamedValue") if g_.name == "get%sValue" % m.group(1)]:
                raise AnalysisBroken("C08.R8: %s is paired with MockNamedValue::get%sValue by its name, and no such getter exists (renamed?)" % (f.name, m.group(1)))
            hooks = {AC + "::returnValue": lambda *a_: 990, "MockActualCall::returnValue": lambda *a_: 990}
            for g_ in prog.functions.values():
                if g_.cls == "MockNamedValue" and re.match(r"^get\w+Value$", g_.name):
                    hooks[g_.qn] = (lambda nm_: (lambda o=None, *a_: (getters.append((nm_, o)), 42)[1]))(g_.name)
            ev = Evaluator(prog, f, env={"this": 100}, calls=hooks)
            ev.pass_object = True
            ev.heap_mode = True
            try:
                ev.run_blocks(f.entry, max_steps=300)
                r = getattr(ev, "ret", None)
            except Unknown as u:
                r = "unknown: %s" % u
            okg = getters == [("get%sValue" % m.group(1), 990)] and r == 42
            run.ob("R8", "%s folded: reads get%sValue() of the call's return value and answers that" % (f.name, m.group(1)), f.site, okg, witness={"getters asked": getters, "returns": r},
                   what="" if okg else "the getter of another type is used: the value comes back converted or fails the type check")
        m = re.match(r"^return(\w+)ValueOrDefault$", f.name)
        if m and m.group(1) in TOK:
            n8 += 1
            run.analysed(f)
            ok = True
            seen = set()
            for p in enumerate_paths(f):
                v = p.val()
                hv = v.get("hasReturnValue()")
                r = render(f, f.node(p.ret.get("value"))) if p.ret is not None else None
                if hv is None or len(v) != 1:
                    ok = False
                    continue
                seen.add(hv)
                if r != ("return%sValue()" % m.group(1) if hv else f.params[0]["name"]):
                    ok = False
            run.ob("R8", "%s defaults iff there is no return value" % f.name, f.site, ok and seen == {True, False})
    if n8 < 22:
        run.broke("only %d return-value getters found (24 confirmed by hand)" % n8)
    rv = prog.fn(AC + "::returnValue")
    run.analysed(rv)
    okr = True
    for p in enumerate_paths(rv):
        names = [render(rv, c) for c in path_calls(prog, rv, p)]
        me = p.val().get("matchingExpectation_")
        r = render(rv, rv.node(p.ret.get("value")), keep_explicit_casts=False) if p.ret is not None else ""
        if names[:1] != ["checkExpectations()"]:
            okr = False
        if me is True and "matchingExpectation_->returnValue()" not in r:
            okr = False
        if me is False and "matchingExpectation_" in r:
            okr = False
    run.ob("R8", "returnValue finishes the call first and reads the matched expectation's value", rv.site, okr)

    actualcall_routing_rule(prog, run, "R11")

    # ---------------- R10 ---------------------------------------------------
    # An expectation dropped from the candidate list of a call keeps whatever the marker methods set on it during that
    # call (it stays in the list of all expectations). It must be clean again before it can be a candidate of a later
    # call: either every pruning primitive used on the candidates resets what it drops, or a new call resets all of
    # its candidates when it collects them.
    ELIST, ACALL = "MockExpectedCallsList", "MockCheckedActualCall"
    prunes = {}
    for f in prog.methods_of(ELIST):
        nulls = [n for l, r, n in assignments(f) if l.endswith("->expectedCall_") and is_null(f, f.node(n["rhs"]))]
        if nulls:
            resets = True
            for n in nulls:
                # the reset must be in the same guarded statement as the drop
                par = next((a_ for a_ in f.ancestors(n) if a_["k"] in ("CompoundStmt", "IfStmt")), None)
                calls_here = [(prog.callee_name(f, c) or "") for c in (f.calls(par) if par is not None else [])]
                if not any(c.endswith("::resetActualCallMatchingState") for c in calls_here):
                    resets = False
            prunes[f.name] = resets
    used = set()
    for f in prog.methods_of(ACALL):
        for c in f.calls():
            nm = (prog.callee_name(f, c) or "")
            if nm.startswith(ELIST + "::") and nm.split("::")[-1] in prunes and c.get("obj") is not None and render(f, f.node(c["obj"])) == "potentiallyMatchingExpectations_":
                used.add(nm.split("::")[-1])
    ctors = [f for f in prog.methods_of(ACALL) if f.kind == "ctor"]
    ctor_resets = bool(ctors)
    for f in ctors:
        run.analysed(f)
        for p in enumerate_paths(f):
            names = [(render(f, f.node(c["obj"])) if c.get("obj") is not None else "", (prog.callee_name(f, c) or "").split("::")[-1]) for c in path_calls(prog, f, p)]
            add = [i for i, x in enumerate(names) if x == ("potentiallyMatchingExpectations_", "addPotentiallyMatchingExpectations")]
            rst = [i for i, x in enumerate(names) if x == ("potentiallyMatchingExpectations_", "resetActualCallMatchingState")]
            if not add or not rst or max(add) > max(rst):
                ctor_resets = False
    dirty = sorted(m for m in used if not prunes[m])
    ok10 = ctor_resets or not dirty
    run.ob("R10", "no stale per-call marks: candidates dropped by a pruning primitive are reset there, or a new actual call resets its candidates when it collects them", (ctors[0].site if ctors else ACALL), ok10 and bool(used),
           witness={"pruning primitives used on the candidates (resets what it drops)": {m: prunes[m] for m in sorted(used)}, "a new call resets its candidates": ctor_resets},
           what="" if ok10 else "expectations dropped by %s keep the parameter/object marks of the call that dropped them: a later call that omits such a parameter is accepted (findings/F19-stale-parameter-match-flags)" % dirty)
    run.ob("R10", "pruning primitives of the candidate list found", ELIST, len(used) >= 4, witness=sorted(used))

    # ---------------- R9 ----------------------------------------------------
    # effect coverage, decided on folds: every marker method folded on an expectation with two input and two output parameters; what it
    # changes (members of the expectation, the matched flag of a parameter) must be changed back by the reset, folded on the same model
    markers = ["wasPassedToObject", "finalizeActualCallMatch", "inputParameterWasPassed", "outputParameterWasPassed"]
    rs = prog.fn(EC + "::resetActualCallMatchingState")
    run.analysed(rs)
    LISTS = {6001: [611, 612], 6002: [621, 622]}
    NAMES = {611: "p1", 612: "p2", 621: "p1", 622: "p2"}
    ECF = {fl["name"] for fl in prog.records.get(EC, {}).get("fields", [])}

    def fold_effects(f, args):
        flags = []
        nodes = [x for l_ in LISTS.values() for x in l_]
        hooks = string_hooks({"MockNamedValueList::begin": lambda o=None, *a_: (LISTS.get(o) or [0])[0],
                              "MockNamedValueListNode::next": lambda o=None, *a_: next((l_[l_.index(o) + 1] if l_.index(o) + 1 < len(l_) else 0) for l_ in LISTS.values() if o in l_) if o in nodes else None,
                              "MockNamedValueListNode::getName": lambda o=None, *a_: ("str", NAMES.get(o, "?")), "MockNamedValueListNode::item": lambda o=None, *a_: (o + 1000) if o in nodes else None,
                              EC + "::MockExpectedFunctionParameter::setMatchesActualCall": lambda o=None, *a_: (flags.append((o, int(bool(a_[-1])) if a_ else None)), 0)[1]})
        env = {"this": 100, "inputParameters_": 6001, "outputParameters_": 6002, "isSpecificObjectExpected_": 1, "wasPassedToObject_": 0, "isActualCallMatchFinalized_": 0}
        env.update(dict(zip([q["name"] for q in f.params], args)))
        ev = Evaluator(prog, f, env=env, calls=hooks)
        ev.pass_object = True
        ev.heap_mode = True
        try:
            ev.run_blocks(f.entry, max_steps=2000)
        except Unknown as u:
            raise AnalysisBroken("C08.R9: %s cannot be folded on the parameter-list model: %s" % (f.qn, u))
        written = {k_ for k_, v_ in ev.stores if k_.split(".")[0].split("[")[0] in ECF}
        return written, flags
    try:
        r_fields, r_flags = fold_effects(rs, [])
    except AnalysisBroken:
        raise
    cleared = {o for o, v in r_flags if v == 0}
    for mk in markers:
        f = prog.fn(EC + "::" + mk)
        run.analysed(f)
        fields, flags = fold_effects(f, [("str", "p1")] * len(f.params))
        set_ = {o for o, v in flags if v == 1}
        miss = sorted(fields - r_fields) + sorted("the matched flag of parameter %s" % (o,) for o in set_ - cleared)
        run.ob("R9", "state set by %s is reset by resetActualCallMatchingState (both folded on an expectation with two input and two output parameters)" % mk, rs.site, not miss and bool(fields or set_),
               witness={"sets": sorted(fields) + sorted(map(str, set_)), "reset": sorted(r_fields) + sorted(map(str, cleared))},
               what="" if not miss else "%s stays set after the call it was matched for: a later call is matched although it did not pass it" % miss)
    got = {}
    for spec in (0, 1):
        ev = Evaluator(prog, rs, env={"isSpecificObjectExpected_": spec, "wasPassedToObject_": 1 - (0 if spec else 1), "inputParameters_": 6001, "outputParameters_": 6002},
                       calls={"MockNamedValueList::begin": lambda *a_: 0})
        ev.pass_object = True
        ev.heap_mode = True
        try:
            ev.run_blocks(rs.entry, max_steps=300)
            got[spec] = ev.env.get("wasPassedToObject_")
        except Unknown as u:
            got[spec] = "unknown: %s" % u
    run.ob("R9", "reset folded: an expectation bound to an object is again waiting for onObject(), one that is not bound is satisfied (isMatchingActualCall itself is folded over its truth table under R13)", rs.site,
           got.get(0) in (1, True) and got.get(1) in (0, False), witness={"specific object expected -> passed to object after reset": str(got)})

"""C02 — every selected test runs exactly once; selection follows filters; reverse/shuffle only permute.
DESIGN.md section 4, C02."""
import itertools
import re
from .common import *
from cpv.ceval import Evaluator, Unknown
from cpv.graph import field_writers, callers_of


def loop_head_and_body(f, cond_pred):
    """(head block, body entry block id) of the loop whose condition satisfies cond_pred(atom key)"""
    loops = loop_blocks(f)
    for b in f.blocks.values():
        if b["id"] in loops and b.get("cond") is not None and len(b["succ"]) == 2:
            key, pol = atom(f, f.nodes[b["cond"]])
            if cond_pred(key):
                return b, (b["succ"][0] if pol else b["succ"][1])
    return None, None


def check(ctx, run):
    prog = ctx.program()
    run.assume("user test bodies do not register or unlink tests while the registry loop runs (framework functions reachable from the loop are checked not to)")
    run.not_decided.append("string comparison semantics of group/name matching (SimpleString operator== / contains: C13)")
    run.not_decided.append("quality of the random source; only that every drawn index is in range and swaps permute")
    run.rule("R1", "accounting identity: TestRegistry::runAllTests folded over every list of 0..4 tests x group pattern x selection outcome: countTest once per test, shouldRun asked once with the registry's filters, runOneTest exactly once iff selected (-> countRun|countIgnored x1 in every override) else countFilteredOut once; getNext follows next_ and nothing in the framework rewires the list", floor=9)
    run.rule("R2", "selection: shouldRun = match(group) && match(name); match = true on empty list else OR over the list (folded for all lists up to 3 filters x all outcomes); TestFilter::match folded over all 16 valuations = invert xor (strict ? equals : contains)", floor=32, exhaustive=True)
    run.rule("R3", "permutation: shuffle and reverse folded end to end on arrays of 0..6 distinct entries (whichever helper exchanges entries inlined; cells outside the array do not exist): the list is relinked once from exactly the seeded Fisher-Yates / reversed arrangement; relink chains all entries in array order (folded for 0..4 entries); the registry stores the new first test; array elements are written only inside the array class", floor=16)
    run.rule("R4", "balanced group notifications: the folded registry run emits exactly the reference notification sequence (one group start before / one group end after every maximal run of one group name, test start/run/end bracketed, in list order) for every list of 0..4 tests; endOfGroup folded over its 8 cases", floor=6)

    reg = prog.fn("TestRegistry::runAllTests")
    run.analysed(reg)
    # ---------------- R1 ----------------------------------------------------
    registry_rules(prog, run, "R1", "accounting")
    base = [m for m in prog.records.get("UtestShell", {}).get("methods", []) if m["name"] == "runOneTest"]
    if not base:
        raise AnalysisBroken("UtestShell::runOneTest not declared")
    cnt = Counter(prog, lambda f, c, tg: (prog.callee_name(f, c) or "") in ("TestResult::countRun", "TestResult::countIgnored"),
                  opaque=lambda qn: not qn.startswith(("UtestShell", "IgnoredUtestShell", "TestResult")))
    nov = 0
    for mn in sorted(prog.overriders(base[0]["mn"])):
        f = prog.functions.get(mn)
        if f is None:
            continue
        nov += 1
        run.analysed(f)
        res = cnt.count_paths(f)
        ok = bool(res["return_counts"]) and all(lo == hi == 1 for lo, hi in res["return_counts"])
        run.ob("R1", "%s counts the test as run or ignored exactly once on every path" % f.qn, f.site, ok, witness=res["return_counts"])
    if nov < 2:
        run.broke("fewer than 2 runOneTest implementations found")
    gn = prog.fn("UtestShell::getNext")
    rets = getter_fold(prog, gn, "next_")
    run.ob("R1", "getNext returns next_ (folded)", gn.site, rets == 424242, witness=rets)
    ws = sorted({f.qn for f, n in field_writers(prog, "UtestShell::next_") if f.file.startswith(("src/", "include/"))})
    run.ob("R1", "next_ is written only by the constructors and addTest", "include/CppUTest/Utest.h:UtestShell::next_", set(ws) <= {"UtestShell::addTest", "UtestShell::UtestShell"}, witness=ws)
    cs = sorted({f.qn for f, c in callers_of(prog, "UtestShell::addTest") if f.file.startswith("src/")})
    run.ob("R1", "addTest is called only by registration and relinking", "src/CppUTest/Utest.cpp:UtestShell::addTest", set(cs) <= {"TestRegistry::addTest", "UtestShellPointerArray::relinkTestsInOrder", "OrderedTestShell::addOrderedTest", "OrderedTestShell::addOrderedTestToHead"}, witness=cs)
    ws = sorted({f.qn for f, n in field_writers(prog, "TestRegistry::tests_") if f.file.startswith("src/")})
    allowed = {"TestRegistry::TestRegistry", "TestRegistry::addTest", "TestRegistry::unDoLastAddTest", "TestRegistry::shuffleTests", "TestRegistry::reverseTests"}
    run.ob("R1", "tests_ is written only by registration, undo, shuffle and reverse", "include/CppUTest/TestRegistry.h:TestRegistry::tests_", set(ws) <= allowed, witness=ws)

    # "in each repetition ... these three counts sum to the number of registered tests": the counters live in a TestResult
    # that must be fresh for every repetition
    from .shared import runner_fold
    try:
        for nrep in (1, 2, 3):
            r_, events = runner_fold(prog, [(0, 0)] * nrep)
            runs = [e for e in events if e[0] in ("new-result", "runAllTests")]
            ok = runs == [("new-result",), ("runAllTests",)] * nrep
            run.ob("R1", "runner folded over %d repetition(s): each repetition runs the registry once on a fresh TestResult" % nrep, "src/CppUTest/CommandLineTestRunner.cpp:CommandLineTestRunner::runAllTests", ok,
                   witness=[e[0] for e in runs], what="" if ok else "counts of earlier repetitions leak into later summaries")
    except Unknown as u:
        run.broke("C02.R1: the runner cannot be folded: %s" % u)

    # ---------------- R2 ----------------------------------------------------
    selection_rules(prog, run, "R2")

    # ---------------- R3 ----------------------------------------------------
    ARR = "UtestShellPointerArray"
    ws = sorted({f.qn for f, n in field_writers(prog, ARR + "::arrayOfTests_") if "k" in n and ("[" in render(f, f.node(n.get("lhs"))) if n.get("lhs") is not None else False)})
    inside = {g.qn for g in prog.functions.values() if g.cls == ARR or (not g.cls and g.d.get("static") and g.file == "src/CppUTest/Utest.cpp")}
    run.ob("R3", "array elements are written only by the array class itself (constructor fill loop, exchange of two entries)", "include/CppUTest/Utest.h:" + ARR, set(ws) <= inside, witness=ws)
    sh = prog.fn(ARR + "::shuffle")
    rv = prog.fn(ARR + "::reverse")
    run.analysed(sh)
    run.analysed(rv)
    AINL = {g.qn for g in prog.functions.values() if g.cls == ARR}

    def fold_permute(f, n, stream):
        """shuffle / reverse folded end to end on an array of n distinct entries (whatever helper exchanges entries is
        inlined); the relinking is a stub that records the array as it is at that moment. Cells outside [0, n) do not exist."""
        env = {"count_": n, "arrayOfTests_": ("ptr", "ARR", 0)}
        for k in range(n):
            env["ARR[%d]" % k] = 100 + k
        if f.params:
            env[f.params[0]["name"]] = 42
        it = iter(stream)
        snaps, seeds = [], []

        def relink(ev_, *a_):
            snaps.append([ev_.env.get("ARR[%d]" % k) for k in range(n)])
            return 0
        relink.wants_ev = True
        ev = Evaluator(prog, f, env=env, calls={"PlatformSpecificRand": lambda: next(it), "PlatformSpecificSrand": lambda *a_: (seeds.append(a_[-1]), 0)[1], ARR + "::relinkTestsInOrder": relink})
        ev.inline = AINL - set(ev.calls)
        try:
            ev.run_blocks(f.entry, max_steps=3000)
        except Unknown as u:
            oob = [k_ for k_ in getattr(ev, "absent_reads", []) if k_.startswith("ARR[")]
            if oob:
                return None, "an entry outside the array is touched (%s)" % oob[0], seeds
            raise
        outside = sorted(k_ for k_, v_ in ev.stores if k_.startswith("ARR[") and not (0 <= int(k_[4:-1]) < n))
        if outside:
            return None, "an entry outside the array is written (%s)" % outside[0], seeds
        return snaps, "", seeds
    try:
        for n, stream in itertools.product((0, 1, 2, 5), ([0] * 8, [7, 123456789, 2147483647, 3, 1, 0, 99, 4], [2147483647] * 8)):
            snaps, why, seeds = fold_permute(sh, n, stream)
            arr = [100 + k for k in range(n)]
            for k, i in enumerate(range(n - 1, 0, -1)):
                j = stream[k] % (i + 1)
                arr[i], arr[j] = arr[j], arr[i]
            if not why and snaps != ([arr] if n else snaps) or (not why and n == 0 and snaps not in ([], [[]])):
                why = "the list is rebuilt from %s; the seeded Fisher-Yates walk over all %d entries gives %s, relinked once at the end" % (snaps, n, arr)
            if not why and n and seeds != [42]:
                why = "the random source is seeded with %s, the caller's seed is 42" % (seeds,)
            run.ob("R3", "shuffle of %d entries with random stream %s" % (n, stream[:3]), sh.site, not why, witness=why or {"order": snaps}, what=why)
        bad = None
        for n in range(0, 7):
            snaps, why, _ = fold_permute(rv, n, [])
            want = [100 + k for k in range(n)][::-1]
            if not why and (snaps != [want] if n else snaps not in ([], [[]])):
                why = "the list is rebuilt from %s, the reversed array is %s (relinked once at the end)" % (snaps, want)
            if why and bad is None:
                bad = "%d entries: %s" % (n, why)
        run.ob("R3", "reverse folded for 0..6 entries: the list is relinked once from the reversed array, nothing outside the array is touched", rv.site, bad is None, witness=bad or "7 sizes", what=bad or "")
    except Unknown as u:
        run.broke("C02.R3: shuffle / reverse cannot be folded: %s" % u)
    rl = prog.fn(ARR + "::relinkTestsInOrder")
    run.analysed(rl)
    for n in range(0, 5):
        env = {"count_": n}
        for k in range(n):
            env["arrayOfTests_[%d]" % k] = 100 + k
        ev = Evaluator(prog, rl, env=env)
        ev.pass_object = True
        links = []
        ev.calls["UtestShell::addTest"] = lambda o, t, links=links: (links.append((o, t)), o)[1]
        try:
            ev.run_blocks(rl.entry, max_steps=400)
            got = links
        except Unknown as u:
            got = "unknown: %s" % u
        want = [(100 + k, (100 + k + 1) if k + 1 < n else 0) for k in range(n - 1, -1, -1)]
        run.ob("R3", "relink of %d entries chains entry k to entry k+1 and the last to NULL" % n, rl.site, got == want, witness={"links": got if isinstance(got, str) else [list(x) for x in got]})
    ge = prog.fn(ARR + "::get")
    gf = prog.fn(ARR + "::getFirstTest")
    run.analysed(ge)
    run.analysed(gf)
    AINL = {g.qn for g in prog.functions.values() if g.qn.startswith(ARR + "::")}

    def fold_get(f, count, args):
        env = {"arrayOfTests_": ("ptr", "ARR", 0), "count_": count}
        env.update({"ARR[%d]" % i_: 1000 + i_ for i_ in range(count)})          # entries behind count_ do not exist
        env.update(dict(zip([q["name"] for q in f.params], args)))
        ev = Evaluator(prog, f, env=env)
        ev.inline = AINL
        try:
            ev.run_blocks(f.entry, max_steps=300)
            return getattr(ev, "ret", None)
        except Unknown as u:
            return "unknown: %s" % u
    bad = None
    for count in (0, 1, 3):
        for i_ in (0, 1, 2, 3, 5, (1 << 64) - 1):
            r = fold_get(ge, count, [i_])
            want = 1000 + i_ if i_ < count else 0
            if r != want and bad is None:
                bad = "get(%d) with %d entries folds to %s, expected %s" % (i_, count, r, "entry %d" % i_ if i_ < count else "NULL")
    run.ob("R3", "get folded over (entries, index): the entry inside the array, NULL outside it, nothing read behind the last entry", ge.site, bad is None, witness=bad or "18 cases", what=bad or "")
    bad = None
    for count in (0, 1, 3):
        r = fold_get(gf, count, [])
        if r != (1000 if count else 0) and bad is None:
            bad = "getFirstTest with %d entries folds to %s" % (count, r)
    run.ob("R3", "getFirstTest folded: entry 0, NULL for an empty array", gf.site, bad is None, witness=bad or "3 cases", what=bad or "")
    # shuffleTests / reverseTests folded against recording stubs of the pointer array: an array is built from the registry's current
    # first test, permuted once (with the caller's seed), and its first test becomes the registry's list
    for nm, op in (("shuffleTests", "shuffle"), ("reverseTests", "reverse")):
        f = prog.fn("TestRegistry::" + nm)
        run.analysed(f)
        seq = []
        hooks = {"TestRegistry::getFirstTest": lambda *a_: 1000, ARR + "::" + op: lambda o=None, *a_: (seq.append((op, o) + tuple(x for x in a_ if isinstance(x, int))), 0)[1],
                 ARR + "::getFirstTest": lambda o=None, *a_: (seq.append(("first", o)), 2000)[1], ARR + "::" + ("reverse" if op == "shuffle" else "shuffle"): lambda o=None, *a_: (seq.append(("other permutation", o)), 0)[1],
                 # (entry 0 of the array is its first test, whichever accessor reads it)
                 ARR + "::get": lambda o=None, i_=None, *a_: (seq.append(("first" if i_ == 0 else "entry %s" % i_, o)), 2000 + i_)[1] if isinstance(i_, int) else None}
        ev = Evaluator(prog, f, env=dict({"tests_": 1000}, **{q["name"]: 4711 for q in f.params}), calls=hooks)
        ev.pass_object = "key"
        ev.optional_stubs = set(hooks)
        try:
            ev.run_blocks(f.entry, max_steps=400)
        except Unknown as u:
            raise AnalysisBroken("C02.R3: %s cannot be folded: %s" % (nm, u))
        built = [t_[1] for t_ in ev.trace if str(t_[0]).startswith("construct " + ARR)]
        objs = {x[1] for x in seq}
        why = ""
        if [b_[:1] for b_ in built] != [[1000]]:
            why = "the array is built from %s, the registry's first test is 1000" % ([b_[:1] for b_ in built],)
        elif [x[0] for x in seq] != [op, "first"] or len(objs) != 1:
            why = "does %s on %s: expected one %s and then the array's first test, on the one array" % ([x[0] for x in seq], sorted(map(str, objs)), op)
        elif op == "shuffle" and seq[0][2:] != (4711,):
            why = "shuffles with %s, the caller's seed is 4711" % (seq[0][2:],)
        elif ev.env.get("tests_") != 2000:
            why = "the registry's list is %s afterwards, the permuted array starts with 2000" % (ev.env.get("tests_"),)
        run.ob("R3", "%s folded: permutes an array built from the current list and stores its first test back" % nm, f.site, not why, witness=why or [str(x) for x in seq], what=why)
    ct = [f for f in prog.methods_of(ARR) if f.kind == "ctor"][0]
    run.analysed(ct)
    bad = None
    for n in range(0, 5):
        ids = [100 + k for k in range(n)]
        ev = Evaluator(prog, ct, env={ct.params[0]["name"]: ids[0] if n else 0, "arrayOfTests_": 0, "count_": 0},
                       calls={"UtestShell::countTests": lambda o, n=n: n, "UtestShell::getNext": lambda o, ids=ids: (ids[ids.index(o) + 1] if o in ids and ids.index(o) + 1 < len(ids) else 0)})
        ev.pass_object = True
        try:
            for i in ct.d.get("inits", []):
                if i.get("field") in ("arrayOfTests_", "count_") and i.get("written"):
                    ev.env[i["field"]] = ev.ev(i["expr"])
            ev.run_blocks(ct.entry, max_steps=600)
        except Unknown as u:
            run.broke("C02.R3: the array constructor cannot be folded: %s" % u)
            break
        base = ev.env.get("arrayOfTests_")
        got = [ev.env.get("%s[%d]" % (base[1], base[2] + k)) for k in range(n)] if isinstance(base, tuple) else []
        extra = [k_ for k_, v_ in ev.stores if isinstance(base, tuple) and k_.startswith(base[1] + "[") and not (0 <= int(k_[len(base[1]) + 1:-1]) < n)]
        if (ev.env.get("count_") != n or got != ids or extra or (n == 0 and base not in (0, None))) and bad is None:
            bad = "list of %d tests: count_ = %s, entries %s (expected %s), writes outside the array %s" % (n, ev.env.get("count_"), got, ids, extra)
    run.ob("R3", "the array constructor folded on lists of 0..4 tests: count_ = countTests(), entry i = i-th element, no write outside the array", ct.site, bad is None, witness=bad or "5 lists", what=bad or "")

    group_balance(prog, run, "R4")


def selection_rules(prog, run, rid):
    """how a test is selected, folded: shouldRun = match(group, group filters) && match(name, name filters); match over every filter
    list of up to 3 filters x every outcome (accepted iff the list is empty or SOME filter accepts - every filter is asked until one
    does); TestFilter::match over its truth table and on strings (exact for strict filters, substring otherwise, inverted on request).
    Shared with C12 (what the parsed -g / -n / -t options mean is decided here)."""
    sr = prog.fn("UtestShell::shouldRun")
    run.analysed(sr)
    g, nm = sr.params[0]["name"], sr.params[1]["name"]
    bad = None
    try:
        for mg, mn in itertools.product((1, 0), repeat=2):
            seen = []

            def match_hook(*a_, mg=mg, mn=mn):
                pair = tuple(a_[-2:])
                seen.append(pair)
                return {(("ptr", "G", 0), 81): mg, (("ptr", "N", 0), 82): mn}.get(pair)
            ev = Evaluator(prog, sr, env={"group_": ("ptr", "G", 0), "name_": ("ptr", "N", 0), g: 81, nm: 82}, calls={"UtestShell::match": match_hook})
            ev.run_blocks(sr.entry, max_steps=300)
            r = getattr(ev, "ret", None)
            if r != (1 if mg and mn else 0) and bad is None:
                bad = "group matches=%d, name matches=%d: shouldRun returns %s" % (mg, mn, r)
    except Unknown as u:
        bad = "match is asked about something else than (group_, groupFilters) / (name_, nameFilters): %s; asked %s" % (u, [str(x) for x in seen])
    run.ob(rid, "shouldRun = match(group_, groupFilters) && match(name_, nameFilters)", sr.site, bad is None, witness=bad or "folded over the 4 outcomes of the two matches",
           what="" if bad is None else "group/name and their filter lists are not paired as documented: " + bad)
    mf = prog.fn("UtestShell::match")
    run.analysed(mf)
    tname, fname = mf.params[0]["name"], mf.params[1]["name"]
    for n in range(0, 4):
        for outcome in itertools.product((0, 1), repeat=n):
            ev = Evaluator(prog, mf, env={fname: (1 if n else 0), tname: 777})
            ev.pass_object = True
            ev.calls["TestFilter::getNext"] = lambda o, n=n: (o + 1 if o is not None and o < n else 0)
            ev.calls["TestFilter::match"] = lambda o, t, outcome=outcome: (outcome[o - 1] if o is not None and 1 <= o <= len(outcome) else None)
            try:
                end, vis = ev.run_blocks(mf.entry, max_steps=500)
                got = getattr(ev, "ret", None)
            except Unknown as u:
                got = "unknown: %s" % u
            want = 1 if (n == 0 or any(outcome)) else 0
            run.ob(rid, "match over %d filters with outcomes %s" % (n, list(outcome)), mf.site, got == want, witness={"folded": got, "oracle": want},
                   what="" if got == want else "a test accepted by %s filter is %s" % ("some" if want else "no", "rejected" if want else "accepted"))
    tf = prog.fn("TestFilter::match")
    run.analysed(tf)
    # the filter objects are built through the class's own constructor and modifiers (object_state): whatever private
    # members hold "strict" and "inverted" is not named here
    def filter_state(text, strict, invert):
        return object_state(prog, "TestFilter", ["const char *"], [("str", text)], steps=([("strictMatching", [])] if strict else []) + ([("invertMatching", [])] if invert else []))
    pn = tf.params[0]["name"]
    try:
        for strict, invert, equals, contains in itertools.product((0, 1), repeat=4):
            ev = Evaluator(prog, tf, env=dict(filter_state("flt", strict, invert), **{pn: ("str", "candidate")}))
            ev.calls["operator=="] = lambda *a, equals=equals: equals
            ev.calls["SimpleString::contains"] = lambda *a, contains=contains: contains
            try:
                ev.run_blocks(tf.entry, max_steps=300)
                got = getattr(ev, "ret", None)
            except Unknown as u:
                got = "unknown: %s" % u
            want = invert ^ (equals if strict else contains)
            run.ob(rid, "TestFilter::match(strict=%d, invert=%d, equals=%d, contains=%d)" % (strict, invert, equals, contains), tf.site, got == want, witness={"folded": got, "oracle": want})
        okd, wit = True, []
        for name_, filt, strict, invert, want in (("abc", "b", 0, 0, 1), ("b", "abc", 0, 0, 0), ("abc", "abc", 1, 0, 1), ("abc", "ab", 1, 0, 0), ("ab", "abc", 1, 0, 0), ("", "", 0, 0, 1),
                                                  ("abc", "b", 0, 1, 0), ("abc", "x", 0, 1, 1), ("abc", "abc", 1, 1, 0), ("abc", "ab", 1, 1, 1)):
            ev = Evaluator(prog, tf, env=dict(filter_state(filt, strict, invert), **{pn: ("str", name_)}), calls=string_hooks())
            ev.pass_object = True
            try:
                ev.run_blocks(tf.entry, max_steps=300)
                got = getattr(ev, "ret", None)
            except Unknown as u:
                got = "unknown: %s" % u
            wit.append({"name": name_, "filter": filt, "strict": strict, "invert": invert, "folded": got, "expected": want})
            okd = okd and got == want
        run.ob(rid, "TestFilter::match folded on strings for filters built by the constructor and modifiers: the candidate is compared with the filter text (the NAME contains the FILTER, not the other way round)", tf.site, okd, witness=wit)
    except Unknown as u:
        raise AnalysisBroken("C02/C12 selection: a TestFilter cannot be built by folding its constructor and modifiers: %s" % u)

    # the substring match behind a (non-strict) filter is SimpleString::contains -> StrStr
    from .C13 import strstr_rule
    strstr_rule(prog, run, rid)


def registry_lists(maxn=4):
    for n in range(maxn + 1):
        for gp in itertools.product("AB", repeat=n):
            if n and gp[0] != "A":
                continue        # group names are symmetric
            yield gp
    # the empty group name is a name like any other (it is what a default-constructed string holds)
    for n in range(1, 4):
        for gp in itertools.product(("", "A"), repeat=n):
            if "" in gp:
                yield gp


def registry_rules(prog, run, rid, aspect):
    """TestRegistry::runAllTests folded over every list of up to 4 tests x group pattern x selection outcome and
    compared with the reference run (rules/shared.registry_reference). aspect 'accounting': counts and runs;
    'groups': the order of the group / test notifications (shared with C20.R4); 'separate': -p marks (C11.R4)."""
    from .shared import registry_fold, registry_reference
    reg = prog.fn("TestRegistry::runAllTests")
    run.analysed(reg)
    for g in prog.functions.values():
        if g.qn in ("TestRegistry::testShouldRun", "TestRegistry::endOfGroup"):
            run.analysed(g)
    NOTIF = ("testsStarted", "testsEnded", "currentGroupStarted", "currentGroupEnded", "currentTestStarted", "currentTestEnded", "runOneTest")
    for gp in registry_lists(5 if run.tier == "thorough" else 4):
        n = len(gp)
        bad = None
        cases = 0
        for sel in itertools.product((1, 0), repeat=n):
            tests = list(zip(gp, sel))
            # (accounting: also with every test an ignored test - filtered out is filtered out, whatever the test would have done)
            variants = [(fl_, ()) for fl_ in (((0, 0), (1, 1), (1, 0), (0, 1)) if aspect == "separate" or n <= 2 else ((0, 0),))]
            if aspect == "accounting" and 1 <= n <= 3:
                variants.append(((0, 0), tuple(range(n))))
            for flags, ign in variants:
                cases += 1
                try:
                    log, env = registry_fold(prog, tests, flags, ignored=ign)
                except Unknown as u:
                    if "unbounded recursion" in str(u) or "steps" in str(u):
                        bad = bad or "tests %s: the walk over the list does not end (%s)" % (tests, u)
                        continue
                    raise AnalysisBroken("%s.%s: the registry loop cannot be folded over %s: %s" % (run.pid, rid, tests, u))
                ref = registry_reference(tests, flags)
                why = None
                if aspect == "accounting":
                    for i in range(n):
                        runs = log.count(("runOneTest", i))
                        if runs != (1 if sel[i] else 0):
                            why = "test #%d (%s) is run %d times" % (i, "selected" if sel[i] else "filtered out", runs)
                        asks = [e for e in log if e[0] == "shouldRun" and e[1] == i]
                        if len(asks) != 1 or asks[0][2:] != (81, 82):
                            why = why or "test #%d is asked shouldRun %s (expected once with the registry's group and name filters)" % (i, [e[2:] for e in asks])
                    if log.count(("countTest",)) != n:
                        why = why or "countTest called %d times for %d tests" % (log.count(("countTest",)), n)
                    if log.count(("countFilteredOut",)) != sel.count(0):
                        why = why or "countFilteredOut called %d times for %d filtered-out tests" % (log.count(("countFilteredOut",)), sel.count(0))
                    r0_, r1_ = env.get("repetitions", (None, None))
                    if not (isinstance(r0_, int) and r1_ == r0_ + 1):
                        why = why or "the repetition counter (getCurrentRepetition) goes from %s to %s" % (r0_, r1_)
                elif aspect == "groups":
                    got = [e for e in log if e[0] in NOTIF]
                    want = [e for e in ref if e[0] in NOTIF]
                    if got != want:
                        k = next((j for j in range(min(len(got), len(want))) if got[j] != want[j]), min(len(got), len(want)))
                        why = "notification #%d is %s, expected %s" % (k, got[k] if k < len(got) else "missing", want[k] if k < len(want) else "nothing")
                    # a test's run options are in force when it is announced (an output asks the test whether it will run then)
                    for i in range(n):
                        if sel[i] and ("currentTestStarted", i) in log:
                            t0 = log.index(("currentTestStarted", i))
                            for fl_, ev_ in ((flags[0], "setRunInSeperateProcess"), (flags[1], "setRunIgnored")):
                                if fl_ and (ev_, i) not in log[:t0]:
                                    why = why or "test #%d is announced before %s reached it: an output that asks willRun() at the start of the test sees the old answer" % (i, ev_)
                else:
                    for i in range(n):
                        for fi, nm in enumerate(("setRunInSeperateProcess", "setRunIgnored")):
                            c = log.count((nm, i))
                            if c != (1 if flags[fi] else 0):
                                why = why or "test #%d: %s called %d times with the flag %s" % (i, nm, c, "on" if flags[fi] else "off")
                            elif flags[fi] and sel[i] and log.index((nm, i)) > log.index(("runOneTest", i)):
                                why = why or "test #%d runs before %s" % (i, nm)
                if why and bad is None:
                    bad = "tests (group, selected) %s flags %s: %s" % (tests, flags, why)
        label = {"accounting": "every test counted once, asked once, run exactly once iff selected, else counted as filtered out",
                 "groups": "tests started/ended, one group start before and one group end after each maximal run of one group, test start/run/end in list order",
                 "separate": "every test is marked for the separate-process runner / run-ignored before it runs iff the registry flag is on"}[aspect]
        run.ob(rid, "registry run folded over groups %s x %d selection/flag cases: %s" % ("".join(gp) or "(empty list)", cases, label), reg.site, bad is None, witness=bad or "%d cases equal the reference run" % cases, what=bad or "")


def group_balance(prog, run, rid):
    """group notifications of the registry loop (shared with C20.R4)"""
    registry_rules(prog, run, rid, "groups")
    eg = prog.fn("TestRegistry::endOfGroup")
    run.analysed(eg)
    t = eg.params[0]["name"]
    for tn, nn, same in itertools.product((0, 1), (0, 1), (0, 1)):
        ev = Evaluator(prog, eg, env={t: 5 if tn else 0})
        ev.pass_object = True
        ev.calls["UtestShell::getNext"] = lambda o, nn=nn: (6 if nn else 0)
        ev.calls["UtestShell::getGroup"] = lambda o: o
        ev.calls["operator!="] = lambda a, b, same=same: 0 if same else 1
        ev.calls["operator=="] = lambda a, b, same=same: 1 if same else 0
        try:
            ev.run_blocks(eg.entry)
            got = getattr(ev, "ret", None)
        except Unknown as u:
            got = "unknown: %s" % u
        want = 1 if (not tn or not nn or not same) else 0
        run.ob(rid, "endOfGroup(test=%d, has next=%d, same group=%d)" % (tn, nn, same), eg.site, got == want, witness={"folded": got, "oracle": want})

"""C02 — every selected test runs exactly once; selection follows filters; reverse/shuffle only permute.
DESIGN.md section 4, C02."""
import itertools
import re
from .common import *
from cpv.ceval import Evaluator, Unknown
from cpv.graph import field_writers, callers_of


def loop_head_and_body(f, cond_pred):
    """(head block, body entry block id) of the loop whose condition satisfies cond_pred(atom key)"""
    loops = loop_blocks(f)
    for b in f.blocks.values():
        if b["id"] in loops and b.get("cond") is not None and len(b["succ"]) == 2:
            key, pol = atom(f, f.nodes[b["cond"]])
            if cond_pred(key):
                return b, (b["succ"][0] if pol else b["succ"][1])
    return None, None


def check(ctx, run):
    prog = ctx.program()
    run.assume("user test bodies do not register or unlink tests while the registry loop runs (framework functions reachable from the loop are checked not to)")
    run.not_decided.append("string comparison semantics of group/name matching (SimpleString operator== / contains: C13)")
    run.not_decided.append("quality of the random source; only that every drawn index is in range and swaps permute")
    run.rule("R1", "accounting identity: per loop iteration countTest x1 and exactly one of runOneTest (-> countRun|countIgnored x1 in every override) or countFilteredOut x1; the walk follows next_ from tests_ and nothing in the framework rewires it", floor=9)
    run.rule("R2", "selection: shouldRun = match(group) && match(name); match = true on empty list else OR over the list (folded for all lists up to 3 filters x all outcomes); TestFilter::match folded over all 16 valuations = invert xor (strict ? equals : contains)", floor=32, exhaustive=True)
    run.rule("R3", "permutation: array elements written only by the fill loop and swap; swap exchanges; shuffle/reverse index bounds; relink chains all entries in array order (folded for 0..4 entries); the registry stores the new first test", floor=16)
    run.rule("R4", "balanced group notifications: per iteration Start iff groupStart (then cleared), End iff endOfGroup(test) (then set); endOfGroup is true at the end of the list", floor=6)

    reg = prog.fn("TestRegistry::runAllTests")
    run.analysed(reg)
    head, body = loop_head_and_body(reg, lambda k: k == "test")
    if head is None:
        raise AnalysisBroken("registry loop over tests not found")

    # ---------------- R1 ----------------------------------------------------
    it_paths = enumerate_paths(reg, start_block=body, end_blocks={head["id"]})
    for p in it_paths:
        names = [(prog.callee_name(reg, c) or "").split("::")[-1] for c in path_calls(prog, reg, p)]
        sr = p.val().get("testShouldRun(test, result)")
        why = []
        if p.end != "endblock":
            why.append("the loop body leaves the loop (%s): remaining tests would not run" % p.end)
        if names.count("countTest") != 1:
            why.append("countTest called %d times" % names.count("countTest"))
        if sr is None or names.count("runOneTest") != (1 if sr else 0):
            why.append("runOneTest called %d times with testShouldRun=%s" % (names.count("runOneTest"), sr))
        run.ob("R1", "iteration [%s]" % short(p.describe(reg), 100), reg.site, not why, witness=[n for n in names if n.startswith(("count", "run", "current"))], what="; ".join(why))
    ts = prog.fn("TestRegistry::testShouldRun")
    run.analysed(ts)
    for p in enumerate_paths(ts):
        names = [(prog.callee_name(ts, c) or "").split("::")[-1] for c in path_calls(prog, ts, p)]
        sr = [v for k, v in p.val().items() if "shouldRun(" in k]
        rv = const_value(ts, ts.node(p.ret.get("value"))) if p.ret is not None else None
        ok = len(sr) == 1 and rv == (1 if sr[0] else 0) and names.count("countFilteredOut") == (0 if sr[0] else 1)
        run.ob("R1", "testShouldRun [%s]: filtered-out counted iff not selected" % p.describe(ts), ts.site, ok, witness={"returns": rv, "calls": names})
    c0 = [render(ts, c) for c in ts.calls() if (prog.callee_name(ts, c) or "").endswith("shouldRun")]
    run.ob("R1", "testShouldRun asks the test with the registry's group and name filters", ts.site, c0 == ["%s->shouldRun(groupFilters_, nameFilters_)" % ts.params[0]["name"]], witness=c0)
    base = [m for m in prog.records.get("UtestShell", {}).get("methods", []) if m["name"] == "runOneTest"]
    if not base:
        raise AnalysisBroken("UtestShell::runOneTest not declared")
    cnt = Counter(prog, lambda f, c, tg: (prog.callee_name(f, c) or "") in ("TestResult::countRun", "TestResult::countIgnored"),
                  opaque=lambda qn: not qn.startswith(("UtestShell", "IgnoredUtestShell", "TestResult")))
    nov = 0
    for mn in sorted(prog.overriders(base[0]["mn"])):
        f = prog.functions.get(mn)
        if f is None:
            continue
        nov += 1
        run.analysed(f)
        res = cnt.count_paths(f)
        ok = bool(res["return_counts"]) and all(lo == hi == 1 for lo, hi in res["return_counts"])
        run.ob("R1", "%s counts the test as run or ignored exactly once on every path" % f.qn, f.site, ok, witness=res["return_counts"])
    if nov < 2:
        run.broke("fewer than 2 runOneTest implementations found")
    # the walk
    inc = [(l, render(reg, r)) for l, r, n in assignments(reg) if l == "test"]
    ini = {k: render(reg, v) for k, v in local_inits(reg).items()}
    run.ob("R1", "the loop walks from tests_ along getNext()", reg.site, ini.get("test") == "tests_" and inc == [("test", "test->getNext()")], witness={"init": ini.get("test"), "step": inc})
    gn = prog.fn("UtestShell::getNext")
    rets = [render(gn, gn.node(n.get("value"))) for n in gn.walk() if n["k"] == "ReturnStmt"]
    run.ob("R1", "getNext returns next_", gn.site, rets == ["next_"], witness=rets)
    ws = sorted({f.qn for f, n in field_writers(prog, "UtestShell::next_") if f.file.startswith(("src/", "include/"))})
    run.ob("R1", "next_ is written only by the constructors and addTest", "include/CppUTest/Utest.h:UtestShell::next_", set(ws) <= {"UtestShell::addTest", "UtestShell::UtestShell"}, witness=ws)
    cs = sorted({f.qn for f, c in callers_of(prog, "UtestShell::addTest") if f.file.startswith("src/")})
    run.ob("R1", "addTest is called only by registration and relinking", "src/CppUTest/Utest.cpp:UtestShell::addTest", set(cs) <= {"TestRegistry::addTest", "UtestShellPointerArray::relinkTestsInOrder", "OrderedTestShell::addOrderedTest", "OrderedTestShell::addOrderedTestToHead"}, witness=cs)
    ws = sorted({f.qn for f, n in field_writers(prog, "TestRegistry::tests_") if f.file.startswith("src/")})
    allowed = {"TestRegistry::TestRegistry", "TestRegistry::addTest", "TestRegistry::unDoLastAddTest", "TestRegistry::shuffleTests", "TestRegistry::reverseTests"}
    run.ob("R1", "tests_ is written only by registration, undo, shuffle and reverse", "include/CppUTest/TestRegistry.h:TestRegistry::tests_", set(ws) <= allowed, witness=ws)

    # "in each repetition ... these three counts sum to the number of registered tests": the counters live in a TestResult
    # that must be fresh for every repetition
    from .shared import runner_fold
    try:
        for nrep in (1, 2, 3):
            r_, events = runner_fold(prog, [(0, 0)] * nrep)
            runs = [e for e in events if e[0] in ("new-result", "runAllTests")]
            ok = runs == [("new-result",), ("runAllTests",)] * nrep
            run.ob("R1", "runner folded over %d repetition(s): each repetition runs the registry once on a fresh TestResult" % nrep, "src/CppUTest/CommandLineTestRunner.cpp:CommandLineTestRunner::runAllTests", ok,
                   witness=[e[0] for e in runs], what="" if ok else "counts of earlier repetitions leak into later summaries")
    except Unknown as u:
        run.broke("C02.R1: the runner cannot be folded: %s" % u)

    # ---------------- R2 ----------------------------------------------------
    sr = prog.fn("UtestShell::shouldRun")
    run.analysed(sr)
    rets = [render(sr, sr.node(n.get("value"))) for n in sr.walk() if n["k"] == "ReturnStmt"]
    g, nm = sr.params[0]["name"], sr.params[1]["name"]
    exp = "(match(group_, %s) && match(name_, %s))" % (g, nm)
    alt = "(match(name_, %s) && match(group_, %s))" % (nm, g)
    norm = [r.replace(".asCharString()", "") for r in rets]
    run.ob("R2", "shouldRun = match(group_, groupFilters) && match(name_, nameFilters)", sr.site, norm in ([exp], [alt]), witness=rets,
           what="" if norm in ([exp], [alt]) else "group/name and their filter lists are not paired as documented")
    mf = prog.fn("UtestShell::match")
    run.analysed(mf)
    tname, fname = mf.params[0]["name"], mf.params[1]["name"]
    for n in range(0, 4):
        for outcome in itertools.product((0, 1), repeat=n):
            ev = Evaluator(prog, mf, env={fname: (1 if n else 0), tname: 777})
            ev.pass_object = True
            ev.calls["TestFilter::getNext"] = lambda o, n=n: (o + 1 if o is not None and o < n else 0)
            ev.calls["TestFilter::match"] = lambda o, t, outcome=outcome: (outcome[o - 1] if o is not None and 1 <= o <= len(outcome) else None)
            try:
                end, vis = ev.run_blocks(mf.entry, max_steps=500)
                got = getattr(ev, "ret", None)
            except Unknown as u:
                got = "unknown: %s" % u
            want = 1 if (n == 0 or any(outcome)) else 0
            run.ob("R2", "match over %d filters with outcomes %s" % (n, list(outcome)), mf.site, got == want, witness={"folded": got, "oracle": want},
                   what="" if got == want else "a test accepted by %s filter is %s" % ("some" if want else "no", "rejected" if want else "accepted"))
    tf = prog.fn("TestFilter::match")
    run.analysed(tf)
    for strict, invert, equals, contains in itertools.product((0, 1), repeat=4):
        ev = Evaluator(prog, tf, env={"strictMatching_": strict, "invertMatching_": invert})
        ev.calls["operator=="] = lambda *a, equals=equals: equals
        ev.calls["SimpleString::contains"] = lambda *a, contains=contains: contains
        try:
            ev.run_blocks(tf.entry, max_steps=200)
            got = getattr(ev, "ret", None)
        except Unknown as u:
            got = "unknown: %s" % u
        want = invert ^ (equals if strict else contains)
        run.ob("R2", "TestFilter::match(strict=%d, invert=%d, equals=%d, contains=%d)" % (strict, invert, equals, contains), tf.site, got == want, witness={"folded": got, "oracle": want})
    pn = tf.params[0]["name"]
    okd, wit = True, []
    for name_, filt, strict, want in (("abc", "b", 0, 1), ("b", "abc", 0, 0), ("abc", "abc", 1, 1), ("abc", "ab", 1, 0), ("ab", "abc", 1, 0), ("", "", 0, 1)):
        ev = Evaluator(prog, tf, env={"strictMatching_": strict, "invertMatching_": 0, "filter_": ("str", filt), pn: ("str", name_)}, calls=string_hooks())
        ev.pass_object = True
        try:
            ev.run_blocks(tf.entry, max_steps=200)
            got = getattr(ev, "ret", None)
        except Unknown as u:
            got = "unknown: %s" % u
        wit.append({"name": name_, "filter": filt, "strict": strict, "folded": got, "expected": want})
        okd = okd and got == want
    run.ob("R2", "TestFilter::match folded on strings: the candidate is compared with filter_ (the NAME contains the FILTER, not the other way round)", tf.site, okd, witness=wit)

    # ---------------- R3 ----------------------------------------------------
    ARR = "UtestShellPointerArray"
    ws = sorted({f.qn for f, n in field_writers(prog, ARR + "::arrayOfTests_") if "k" in n and ("[" in render(f, f.node(n.get("lhs"))) if n.get("lhs") is not None else False)})
    run.ob("R3", "array elements are written only by the constructor's fill loop and swap", "include/CppUTest/Utest.h:" + ARR, set(ws) <= {ARR + "::" + ARR, ARR + "::swap"}, witness=ws)
    sw = prog.fn(ARR + "::swap")
    run.analysed(sw)
    a, b = sw.params[0]["name"], sw.params[1]["name"]
    for ia, ib in ((2, 5), (5, 2), (3, 3)):
        env = {a: ia, b: ib, "arrayOfTests_[%d]" % ia: 100 + ia, "arrayOfTests_[%d]" % ib: 100 + ib}
        ev = Evaluator(prog, sw, env=env)
        try:
            ev.run_blocks(sw.entry)
            got = (ev.env.get("arrayOfTests_[%d]" % ia), ev.env.get("arrayOfTests_[%d]" % ib))
            others = [k for k, v in ev.stores if k.startswith("arrayOfTests_[") and k not in ("arrayOfTests_[%d]" % ia, "arrayOfTests_[%d]" % ib)]
        except Unknown as u:
            got, others = "unknown: %s" % u, []
        run.ob("R3", "swap(%d, %d) exchanges exactly those two entries" % (ia, ib), sw.site, got == (100 + ib, 100 + ia) and not others, witness={"after": got})
    sh = prog.fn(ARR + "::shuffle")
    run.analysed(sh)
    # fold shuffle for several array sizes and random streams: the swaps must be (i, r % (i+1)) for i = n-1 .. 1
    for n, stream in itertools.product((0, 1, 2, 5), ([0] * 8, [7, 123456789, 2147483647, 3, 1, 0, 99, 4], [2147483647] * 8)):
        ev = Evaluator(prog, sh, env={"count_": n, sh.params[0]["name"]: 42})
        it = iter(stream)
        swaps, relinks = [], []
        ev.calls["PlatformSpecificRand"] = lambda it=it: next(it)
        ev.calls["PlatformSpecificSrand"] = lambda *a: 0
        ev.calls[ARR + "::swap"] = lambda a_, b_, swaps=swaps: (swaps.append((a_, b_)), 0)[1]
        ev.calls[ARR + "::relinkTestsInOrder"] = lambda swaps=swaps, relinks=relinks: (relinks.append(len(swaps)), 0)[1]
        try:
            ev.run_blocks(sh.entry, max_steps=400)
            why = ""
        except Unknown as u:
            why = "cannot fold: %s" % u
        want = [(i, stream[k] % (i + 1)) for k, i in enumerate(range(n - 1, 0, -1))]
        ok = not why and swaps == want and all(0 <= a_ < max(n, 1) and 0 <= b_ < max(n, 1) for a_, b_ in swaps) and (relinks == [len(want)] if n else relinks in ([], [0]))
        run.ob("R3", "shuffle of %d entries with random stream %s" % (n, stream[:3]), sh.site, ok, witness={"swaps": swaps, "relinked_after_swaps": relinks},
               what=why or ("" if ok else "swaps %s (expected %s), relink after %s swaps: a drawn index can fall outside [0, count_), the walk does not cover the array, or the list is not rebuilt" % (swaps, want, relinks)))
    for fn_ in (sh, prog.fn(ARR + "::reverse")):
        run.analysed(fn_)
        loops = loop_blocks(fn_)
        rl = [c for c in fn_.calls() if prog.callee_name(fn_, c) == ARR + "::relinkTestsInOrder"]
        ok = len(rl) == 1 and fn_.where_enclosing(rl[0])[0] not in loops
        if ok:
            # reached on every path that swapped
            for p in enumerate_paths(fn_):
                names = [(prog.callee_name(fn_, c) or "").split("::")[-1] for c in path_calls(prog, fn_, p)]
                if "swap" in names and names.count("relinkTestsInOrder") != 1 and p.end == "return" and p.val().get("count_") is not False:
                    ok = False
        run.ob("R3", "%s relinks the list once after permuting the array" % fn_.name, fn_.site, ok,
               what="" if ok else "the linked list the registry walks is not rebuilt from the permuted array: tests are lost or duplicated")
    rv = prog.fn(ARR + "::reverse")
    bad = None
    for n in range(0, 7):
        swaps, relinks = [], []
        ev = Evaluator(prog, rv, env={"count_": n}, calls={ARR + "::swap": lambda *a_: (swaps.append(a_[-2:]), 0)[1], ARR + "::relinkTestsInOrder": lambda *a_: (relinks.append(len(swaps)), 0)[1]})
        try:
            ev.run_blocks(rv.entry, max_steps=600)
        except Unknown as u:
            run.broke("C02.R3: reverse cannot be folded: %s" % u)
            break
        arr = list(range(n))
        oob = [x for x in swaps if not (0 <= x[0] < max(n, 1) and 0 <= x[1] < max(n, 1))]
        for i_, j_ in swaps:
            if not oob:
                arr[i_], arr[j_] = arr[j_], arr[i_]
        if (oob or arr != list(range(n))[::-1] or (n > 0 and relinks != [len(swaps)])) and bad is None:
            bad = "%d entries: swaps %s give %s (relinked after %s swaps)" % (n, swaps, arr, relinks)
    run.ob("R3", "reverse folded for 0..6 entries: in-range swaps that produce the reversed array, list relinked once afterwards", rv.site, bad is None, witness=bad or "7 sizes", what=bad or "")
    rl = prog.fn(ARR + "::relinkTestsInOrder")
    run.analysed(rl)
    for n in range(0, 5):
        env = {"count_": n}
        for k in range(n):
            env["arrayOfTests_[%d]" % k] = 100 + k
        ev = Evaluator(prog, rl, env=env)
        ev.pass_object = True
        links = []
        ev.calls["UtestShell::addTest"] = lambda o, t, links=links: (links.append((o, t)), o)[1]
        try:
            ev.run_blocks(rl.entry, max_steps=400)
            got = links
        except Unknown as u:
            got = "unknown: %s" % u
        want = [(100 + k, (100 + k + 1) if k + 1 < n else 0) for k in range(n - 1, -1, -1)]
        run.ob("R3", "relink of %d entries chains entry k to entry k+1 and the last to NULL" % n, rl.site, got == want, witness={"links": got if isinstance(got, str) else [list(x) for x in got]})
    ge = prog.fn(ARR + "::get")
    run.analysed(ge)
    okg = True
    for p in enumerate_paths(ge):
        oob = p.val().get("(%s < count_)" % ge.params[0]["name"])
        r = render(ge, ge.node(p.ret.get("value"))) if p.ret is not None else None
        if oob is True:
            okg = okg and r == "arrayOfTests_[%s]" % ge.params[0]["name"]
        elif oob is False:
            okg = okg and r == "NULL"
        else:
            okg = False
    run.ob("R3", "get is bounds-checked against count_", ge.site, okg)
    gf = prog.fn(ARR + "::getFirstTest")
    rets = [render(gf, gf.node(n.get("value"))) for n in gf.walk() if n["k"] == "ReturnStmt"]
    run.ob("R3", "getFirstTest returns entry 0", gf.site, rets == ["get(0)"], witness=rets)
    for nm, op in (("shuffleTests", "shuffle"), ("reverseTests", "reverse")):
        f = prog.fn("TestRegistry::" + nm)
        run.analysed(f)
        seq = [render(f, c) for c in f.calls() if (prog.callee_name(f, c) or "").startswith(ARR)]
        asg = [(l, render(f, r)) for l, r, n in assignments(f)]
        arr = [k for k, v in local_inits(f).items()]
        ok = len(arr) == 1 and any(s.startswith("%s::%s(getFirstTest())" % (ARR, ARR)) or "getFirstTest()" in s for s in seq) and \
            ("tests_", "%s.getFirstTest()" % arr[0]) in asg and any(s.startswith("%s.%s(" % (arr[0], op)) for s in seq)
        run.ob("R3", "%s permutes an array built from the current list and stores its first test back" % nm, f.site, ok, witness={"calls": seq, "assign": asg})
    ct = [f for f in prog.methods_of(ARR) if f.kind == "ctor"][0]
    run.analysed(ct)
    bad = None
    for n in range(0, 5):
        ids = [100 + k for k in range(n)]
        ev = Evaluator(prog, ct, env={ct.params[0]["name"]: ids[0] if n else 0, "arrayOfTests_": 0, "count_": 0},
                       calls={"UtestShell::countTests": lambda o, n=n: n, "UtestShell::getNext": lambda o, ids=ids: (ids[ids.index(o) + 1] if o in ids and ids.index(o) + 1 < len(ids) else 0)})
        ev.pass_object = True
        try:
            for i in ct.d.get("inits", []):
                if i.get("field") in ("arrayOfTests_", "count_") and i.get("written"):
                    ev.env[i["field"]] = ev.ev(i["expr"])
            ev.run_blocks(ct.entry, max_steps=600)
        except Unknown as u:
            run.broke("C02.R3: the array constructor cannot be folded: %s" % u)
            break
        base = ev.env.get("arrayOfTests_")
        got = [ev.env.get("%s[%d]" % (base[1], base[2] + k)) for k in range(n)] if isinstance(base, tuple) else []
        extra = [k_ for k_, v_ in ev.stores if isinstance(base, tuple) and k_.startswith(base[1] + "[") and not (0 <= int(k_[len(base[1]) + 1:-1]) < n)]
        if (ev.env.get("count_") != n or got != ids or extra or (n == 0 and base not in (0, None))) and bad is None:
            bad = "list of %d tests: count_ = %s, entries %s (expected %s), writes outside the array %s" % (n, ev.env.get("count_"), got, ids, extra)
    run.ob("R3", "the array constructor folded on lists of 0..4 tests: count_ = countTests(), entry i = i-th element, no write outside the array", ct.site, bad is None, witness=bad or "5 lists", what=bad or "")

    group_balance(prog, run, "R4")


def group_balance(prog, run, rid):
    """per-iteration transition of the registry loop on groupStart / endOfGroup (shared with C20.R4)"""
    reg = prog.fn("TestRegistry::runAllTests")
    run.analysed(reg)
    head, body = loop_head_and_body(reg, lambda k: k == "test")
    if head is None:
        raise AnalysisBroken("registry loop over tests not found")
    for gs in (True, False):
        for p in enumerate_paths(reg, start_block=body, end_blocks={head["id"]}, init_val={"groupStart": gs}):
            names = [(prog.callee_name(reg, c) or "").split("::")[-1] for c in path_calls(prog, reg, p)]
            eog = p.val().get("endOfGroup(test)")
            asg = [(l, render(reg, r)) for l, r, n in assignments(reg, p) if l == "groupStart"]
            why = []
            if names.count("currentGroupStarted") != (1 if gs else 0):
                why.append("group start notified %d times with groupStart=%s" % (names.count("currentGroupStarted"), gs))
            if eog is None:
                why.append("endOfGroup(test) is not evaluated on this iteration path")
            else:
                if names.count("currentGroupEnded") != (1 if eog else 0):
                    why.append("group end notified %d times with endOfGroup=%s" % (names.count("currentGroupEnded"), eog))
                final = asg[-1][1] if asg else None
                state_after = {"true": True, "false": False}.get(final, gs)
                if state_after != bool(eog):
                    why.append("groupStart is %s after an iteration whose endOfGroup is %s" % (state_after, eog))
            if "currentGroupStarted" in names and "currentGroupEnded" in names and names.index("currentGroupStarted") > names.index("currentGroupEnded"):
                why.append("end notified before start")
            run.ob(rid, "iteration with groupStart=%s [%s]" % (gs, short(p.describe(reg), 90)), reg.site, not why, witness=[n for n in names if n.startswith("current")], what="; ".join(why))
    ini = {k: render(reg, v) for k, v in local_inits(reg).items()}
    run.ob(rid, "the first test opens a group", reg.site, ini.get("groupStart") == "true", witness=ini.get("groupStart"))
    eg = prog.fn("TestRegistry::endOfGroup")
    run.analysed(eg)
    t = eg.params[0]["name"]
    for tn, nn, same in itertools.product((0, 1), (0, 1), (0, 1)):
        ev = Evaluator(prog, eg, env={t: 5 if tn else 0})
        ev.pass_object = True
        ev.calls["UtestShell::getNext"] = lambda o, nn=nn: (6 if nn else 0)
        ev.calls["UtestShell::getGroup"] = lambda o: o
        ev.calls["operator!="] = lambda a, b, same=same: 0 if same else 1
        ev.calls["operator=="] = lambda a, b, same=same: 1 if same else 0
        try:
            ev.run_blocks(eg.entry)
            got = getattr(ev, "ret", None)
        except Unknown as u:
            got = "unknown: %s" % u
        want = 1 if (not tn or not nn or not same) else 0
        run.ob(rid, "endOfGroup(test=%d, has next=%d, same group=%d)" % (tn, nn, same), eg.site, got == want, witness={"folded": got, "oracle": want})

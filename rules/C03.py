"""C03 — each check fails exactly when its predicate is false: assert-family skeletons, doubles_equal over the
floating-point class partition, C entry points. DESIGN.md section 4, C03."""
import itertools
import math
import re
from .common import *
from cpv.ceval import Evaluator, Unknown
from cpv.ranges import type_range, cast_chain, apply_chain

NAN, INF = float("nan"), float("inf")


def same(a, b):
    return (a != a and b != b) or a == b


def de_oracle(d1, d2, t):
    if d1 != d1 or d2 != d2 or t != t:
        return 0
    if math.isinf(d1) or math.isinf(d2):
        if d1 == d2:
            return 1
        if math.isinf(d1) and math.isinf(d2):
            return 0                       # opposite infinities
        return 1 if t == INF else 0        # |inf - finite| = inf <= t only for t = inf
    return 1 if abs(d1 - d2) <= t else 0


def assert_rules(prog, run, rid, shell="UtestShell"):
    """every assert entry point folded on operand cases against its predicate: countCheck exactly once and first, a failure recorded
    (once, never returning) iff the predicate is false, operands reach the failure object in (expected, actual) order. Shared with C01
    (the summary's check count and the failure count are what these functions record)."""
    fold_assert, TABLE = assert_family(prog, shell)
    found = 0
    for name in sorted(TABLE) + ["assertDoublesEqual"]:
        fs = prog.fns("%s::%s" % (shell, name))
        if len(fs) != 1:
            run.broke("assert function %s::%s not found (or overloaded: %d)" % (shell, name, len(fs)))
            continue
        f = fs[0]
        found += 1
        run.analysed(f)
        try:
            if name == "assertDoublesEqual":
                for de_, want in ((1, False), (0, True)):
                    log, ctor = fold_assert(f, (1.5, 2.5, 0.25), {"doubles_equal": de_})
                    calls = [x for x in log if isinstance(x, tuple)]
                    flat = [x for x in log if not isinstance(x, tuple)]
                    why = ""
                    if flat.count("check") != 1 or flat[:1] != ["check"]:
                        why = "countCheck called %d times (first action %s)" % (flat.count("check"), flat[:1])
                    elif [c[1] for c in calls] != [(1.5, 2.5, 0.25)]:
                        why = "doubles_equal is asked about %s, expected (expected, actual, threshold) = (1.5, 2.5, 0.25)" % ([c[1] for c in calls],)
                    elif (flat.count("fail") == 1) != want:
                        why = "records %s although doubles_equal answers %d" % ("a failure" if "fail" in flat else "no failure", de_)
                    run.ob(rid, "%s folded [doubles_equal answers %d]" % (name, de_), f.site, not why, witness=log if not why else why, what=why)
                continue
            bad, ncase, order_bad = None, 0, None
            for vals, want, desc in TABLE[name](f):
                ncase += 1
                log, ctor = fold_assert(f, vals)
                why = ""
                if log.count("check") != 1:
                    why = "countCheck called %d times" % log.count("check")
                elif log[0] != "check":
                    why = "failure recorded before the check is counted"
                elif (log.count("fail") == 1) != bool(want) or log.count("fail") > 1:
                    why = "records %s although the predicate is %s" % ("a failure" if "fail" in log else "no failure", "false" if want else "true")
                if why and bad is None:
                    bad = "%s%s: %s" % (name, desc, why)
                if want and ctor and len(vals) >= 2 and vals[0] != vals[1] and name not in ("assertTrue", "assertCompare", "fail"):
                    args = ctor[-1]
                    ie = [i_ for i_, x in enumerate(args) if x == (vals[1] if name == "assertEquals" else vals[0])]
                    ia = [i_ for i_, x in enumerate(args) if x == (vals[2] if name == "assertEquals" else vals[1])]
                    if ie and ia and min(ie) > min(ia) and order_bad is None:
                        order_bad = "%s%s: the failure object is built from %s: the failure text would show the operands swapped" % (name, desc, args)
            run.ob(rid, "%s folded on %d operand cases: countCheck exactly once and first; a failure is recorded (once, never returning) iff the predicate is false" % (name, ncase), f.site, bad is None, witness=bad or "%d cases" % ncase, what=bad or "")
            if name not in ("assertTrue", "assertCompare", "fail"):
                run.ob(rid, "%s passes (expected, actual) to its failure object in that order" % name, f.site, order_bad is None, witness=order_bad or "ok", what=order_bad or "")
        except Unknown as u:
            run.broke("%s.%s: %s cannot be folded: %s" % (run.pid, rid, name, u))
    return found


def doubles_equal_rule(prog, run, rid):
    """doubles_equal folded over the floating-point class partition x thresholds against the IEEE oracle; the isinf seam answers 1
    for both infinities (the C++ <cmath> contract: non-zero, no sign). Shared with C09 (double parameters compare through it)."""
    de = prog.fn("doubles_equal")
    run.analysed(de)
    pn = [p["name"] for p in de.params]
    fin = [0.0, -0.0, 1.0, -1.0, 1.5, 1.25, 1e17, 1e17 + 16, 9007199254740992.0, 9007199254740994.0, 1.7e308, -1.7e308, 5e-324, 1e-310]
    vals = [NAN, INF, -INF] + fin
    ths = [NAN, 0.0, 5e-324, 0.25, 1.0, 10.0, 1e292, INF]
    # isinf only promises non-zero for an infinity: <cmath> answers 1 for both, the old glibc macro -1 / +1
    for (d1, d2), signed_isinf in itertools.product(itertools.product(vals, vals), (0, 1)):
        for t in ths:
            if signed_isinf and not (math.isinf(d1) or math.isinf(d2)):
                continue
            ev = Evaluator(prog, de, env={pn[0]: d1, pn[1]: d2, pn[2]: t})
            ev.calls["PlatformSpecificIsNan"] = lambda x: 1 if x != x else 0
            ev.calls["PlatformSpecificIsInf"] = (lambda x: (1 if x == INF else -1 if x == -INF else 0)) if signed_isinf else (lambda x: 1 if (x == INF or x == -INF) else 0)
            ev.calls["PlatformSpecificFabs"] = lambda x: abs(x)
            try:
                ev.run_blocks(de.entry, max_steps=200)
                got = getattr(ev, "ret", None)
                if isinstance(got, bool):
                    got = int(got)
            except Unknown as u:
                got = "unknown: %s" % u
            want = de_oracle(d1, d2, t)
            if got != want:
                run.ob(rid, "doubles_equal(%r, %r, %r)%s" % (d1, d2, t, " [isinf reports the sign]" if signed_isinf else ""), de.site, False, witness={"folded": got, "oracle": want},
                       what="returns %s, the property requires %s" % (got, "true" if want else "false"))
            else:
                run.ob(rid, "doubles_equal(%r, %r, %r)%s" % (d1, d2, t, " [isinf reports the sign]" if signed_isinf else ""), de.site, True, witness={"folded": got})


# oracles: valuation (atom key -> bool) -> should the check record a failure?
def _null_pair(v, e="expected", a="actual"):
    return v.get(e), v.get(a)


def assert_family(prog, shell="UtestShell"):
    """the fold machinery of R1, shared with C14.R3: returns (fold_assert(f, vals, answers) -> (log, failure constructions), TABLE)
    where TABLE maps an assert entry point to a generator of (leading argument values, predicate is false?, description)"""
    # ---------------- R1 ----------------------------------------------------
    # every assert entry point folded on operand cases against its predicate; the failure path never returns (C01.R3)
    from cpv.ceval import Evaluator, Unknown

    class Halt(Exception):
        pass

    def txt(v):
        return v[1] if isinstance(v, tuple) and v[0] == "str" else None

    def cmp3(a_, b_):
        return (a_ > b_) - (a_ < b_)

    def fold_assert(f, vals, answers=None):
        """vals: leading argument values by position. Returns (log, failure constructor arguments)"""
        log = []
        env = {}
        for i_, q in enumerate(f.params):
            env[q["name"]] = vals[i_] if i_ < len(vals) else 7000 + i_

        def failwith(*a_):
            log.append("fail")
            raise Halt()
        hooks = string_hooks({
            "TestResult::countCheck": lambda *a_: (log.append("check"), 0)[1], shell + "::failWith": failwith, shell + "::getTestResult": lambda *a_: 6000,
            "SimpleString::StrCmp": lambda a_, b_: None if txt(a_) is None or txt(b_) is None else cmp3(txt(a_), txt(b_)),
            "SimpleString::StrNCmp": lambda a_, b_, n_: None if txt(a_) is None or txt(b_) is None else cmp3(txt(a_)[:n_], txt(b_)[:n_]),
            "SimpleString::StrLen": lambda a_: None if txt(a_) is None else len(txt(a_)),
            "SimpleString::MemCmp": lambda a_, b_, n_: None if txt(a_) is None or txt(b_) is None else cmp3(txt(a_)[:n_], txt(b_)[:n_]),
            "doubles_equal": lambda *a_: (log.append(("doubles_equal", a_)), (answers or {}).get("doubles_equal", 1))[1]})
        ev = Evaluator(prog, f, env=env, calls=hooks)
        ev.pass_object = True
        try:
            ev.run_blocks(f.entry, max_steps=600)
        except Halt:
            pass
        ctor = [t[1] for t in ev.trace if t[0].startswith("construct ") and t[0].endswith("Failure")]
        fold_assert.last_classes = [t[0][len("construct "):] for t in ev.trace if t[0].startswith("construct ") and t[0].endswith("Failure")]
        return log, ctor

    def S(t):
        return ("str", t) if t is not None else 0
    STRS = [None, "abc", "abd", "ABC", "ab", "", "xabcx"]

    def int_cases(f):
        rng = type_range(prog, f.params[0]["ct"]) or (0, 1000)
        lo, hi = rng
        vs = sorted({lo, hi, 0 if lo <= 0 else lo, 5 if lo <= 5 <= hi else hi, 6 if lo <= 6 <= hi else lo} | ({1 << 32, (1 << 32) + 5} if hi >= (1 << 33) else set()) | ({-1} if lo < 0 else set()))
        for e_ in vs:
            for a_ in vs:
                yield (e_, a_), e_ != a_, "(%d, %d)" % (e_, a_)
    TABLE = {
        "assertTrue": lambda f: (((c,), not c, "(%d)" % c) for c in (0, 1)),
        "assertEquals": lambda f: (((c, S("e"), S("a")), bool(c), "(failed=%d)" % c) for c in (0, 1)),
        "assertCompare": lambda f: (((c,), not c, "(%d)" % c) for c in (0, 1)),
        "fail": lambda f: iter([((S("text"),), True, "()")]),
        "assertCstrEqual": lambda f: (((S(e_), S(a_)), (e_ is None) != (a_ is None) or (e_ is not None and e_ != a_), "(%r, %r)" % (e_, a_)) for e_ in STRS for a_ in STRS),
        "assertCstrNEqual": lambda f: (((S(e_), S(a_), n_), (e_ is None) != (a_ is None) or (e_ is not None and e_[:n_] != a_[:n_]), "(%r, %r, %d)" % (e_, a_, n_)) for e_ in STRS for a_ in STRS for n_ in (0, 2, 3, 6)),
        "assertCstrNoCaseEqual": lambda f: (((S(e_), S(a_)), (e_ is None) != (a_ is None) or (e_ is not None and e_.lower() != a_.lower()), "(%r, %r)" % (e_, a_)) for e_ in STRS for a_ in STRS),
        "assertCstrContains": lambda f: (((S(e_), S(a_)), (e_ is None) != (a_ is None) or (e_ is not None and e_ not in a_), "(%r, %r)" % (e_, a_)) for e_ in STRS for a_ in STRS),
        "assertCstrNoCaseContains": lambda f: (((S(e_), S(a_)), (e_ is None) != (a_ is None) or (e_ is not None and e_.lower() not in a_.lower()), "(%r, %r)" % (e_, a_)) for e_ in STRS for a_ in STRS),
        "assertBinaryEqual": lambda f: (((S(e_), S(a_), n_), n_ != 0 and ((e_ is None) != (a_ is None) or (e_ is not None and e_[:n_] != a_[:n_])), "(%r, %r, %d)" % (e_, a_, n_)) for e_ in (None, "abc", "abd") for a_ in (None, "abc", "abd") for n_ in (0, 2, 3)),
        "assertBitsEqual": lambda f: (((e_, a_, m_, 1), (e_ & m_) != (a_ & m_), "(%#x, %#x, mask %#x)" % (e_, a_, m_)) for e_ in (0xF0, 0x0F, (1 << 63) | 1) for a_ in (0xF0, 0xFF, 1) for m_ in (0, 0xF0, 0xFF, (1 << 64) - 1)),
        "assertLongsEqual": int_cases, "assertUnsignedLongsEqual": int_cases, "assertLongLongsEqual": int_cases, "assertUnsignedLongLongsEqual": int_cases, "assertSignedBytesEqual": int_cases,
        "assertPointersEqual": lambda f: (((e_, a_), e_ != a_, "(%d, %d)" % (e_, a_)) for e_ in (0, 4096, 1 << 40) for a_ in (0, 4096, (1 << 40) + (1 << 32))),
        "assertFunctionPointersEqual": lambda f: (((e_, a_), e_ != a_, "(%d, %d)" % (e_, a_)) for e_ in (0, 4096, 1 << 40) for a_ in (0, 4096, (1 << 40) + (1 << 32))),
    }
    return fold_assert, TABLE


def macro_layer(ctx, run):
    """R5: fold every witness function of witness/C03_macros.cpp against recording assert stubs"""
    import os
    from cpv.ceval import Evaluator, Unknown
    wpath = os.path.join(os.path.dirname(os.path.dirname(os.path.abspath(__file__))), "witness", "C03_macros.cpp")
    wp = ctx.witness(wpath)
    E, A, T = 0x111, 0x222, 0x33
    # macro -> (assert method, expected leading arguments as a function of (e, a, t))
    TABLE = {
        "STRCMP_EQUAL": ("assertCstrEqual", lambda e, a, t: (e, a)), "STRCMP_EQUAL_TEXT": ("assertCstrEqual", lambda e, a, t: (e, a)),
        "STRNCMP_EQUAL": ("assertCstrNEqual", lambda e, a, t: (e, a, t)), "STRCMP_NOCASE_EQUAL": ("assertCstrNoCaseEqual", lambda e, a, t: (e, a)),
        "STRCMP_CONTAINS": ("assertCstrContains", lambda e, a, t: (e, a)), "STRCMP_NOCASE_CONTAINS": ("assertCstrNoCaseContains", lambda e, a, t: (e, a)),
        "LONGS_EQUAL": ("assertLongsEqual", lambda e, a, t: (e, a)), "LONGS_EQUAL_TEXT": ("assertLongsEqual", lambda e, a, t: (e, a)),
        "UNSIGNED_LONGS_EQUAL": ("assertUnsignedLongsEqual", lambda e, a, t: (e, a)), "LONGLONGS_EQUAL": ("assertLongLongsEqual", lambda e, a, t: (e, a)),
        "UNSIGNED_LONGLONGS_EQUAL": ("assertUnsignedLongLongsEqual", lambda e, a, t: (e, a)), "BYTES_EQUAL": ("assertLongsEqual", lambda e, a, t: (e & 0xff, a & 0xff)),
        "SIGNED_BYTES_EQUAL": ("assertSignedBytesEqual", lambda e, a, t: (e, a)), "POINTERS_EQUAL": ("assertPointersEqual", lambda e, a, t: (e, a)),
        "FUNCTIONPOINTERS_EQUAL": ("assertFunctionPointersEqual", lambda e, a, t: (e, a)), "DOUBLES_EQUAL": ("assertDoublesEqual", lambda e, a, t: (float(e), float(a), float(t))),
        "MEMCMP_EQUAL": ("assertBinaryEqual", lambda e, a, t: (e, a, t)), "BITS_EQUAL": ("assertBitsEqual", lambda e, a, t: (e, a, t, 4)),
    }

    def fold(f, env):
        log = []
        hooks = {"UtestShell::getCurrent": lambda: 1, "StringFrom": lambda v, *r: ("str", str(v)) if isinstance(v, (int, float)) else None,
                 "SimpleString::asCharString": lambda v: v if isinstance(v, tuple) else None}
        for m in set(t[0] for t in TABLE.values()) | {"assertTrue", "assertEquals", "assertCompare", "print"}:
            hooks["UtestShell::" + m] = (lambda *a_, m=m: (log.append((m, a_[1:])), 0)[1])
        ev = Evaluator(wp, f, env=env, calls=hooks)
        ev.pass_object = True
        ev.run_blocks(f.entry, max_steps=400)
        return [x for x in log if x[0] != "print"]
    nf = 0
    for f in sorted(wp.functions.values(), key=lambda x: x.line):
        if not f.qn.startswith("w_"):
            continue
        nf += 1
        macro = f.qn[2:]
        site = "include/CppUTest/UtestMacros.h:%s" % macro
        pn = [q["name"] for q in f.params]
        why = ""
        try:
            if macro in TABLE:
                meth, want = TABLE[macro]
                vals = {"e": E, "a": A, "t": T}
                if macro == "SIGNED_BYTES_EQUAL":
                    vals = {"e": 0x11, "a": 0x22, "t": T}
                log = fold(f, {k: vals[k] for k in pn})
                w = want(vals["e"], vals["a"], vals["t"])
                if len(log) != 1 or log[0][0] != meth or tuple(log[0][1][:len(w)]) != tuple(w):
                    why = "%s(e, a%s) expands to %s; expected one %s(%s, ...)" % (macro, ", t" if "t" in pn else "", [(m, a_[:len(w)]) for m, a_ in log], meth, ", ".join(map(str, w)))
            elif macro.startswith("CHECK_FALSE") or macro in ("CHECK", "CHECK_TEXT", "CHECK_TRUE", "CHECK_TRUE_TEXT"):
                neg = macro.startswith("CHECK_FALSE")
                for c in (0, 1):
                    log = fold(f, {"c": c})
                    w = (0 if c else 1) if neg else c
                    if len(log) != 1 or log[0][0] != "assertTrue" or (1 if log[0][1][0] else 0) != w:
                        why = why or "%s(%d) expands to %s; expected assertTrue(%d, ...)" % (macro, c, [(m, a_[:1]) for m, a_ in log], w)
            elif macro in ("CHECK_EQUAL", "CHECK_EQUAL_TEXT", "ENUMS_EQUAL_INT", "ENUMS_EQUAL_INT_TEXT", "ENUMS_EQUAL_TYPE", "ENUMS_EQUAL_TYPE_TEXT", "CHECK_EQUAL_ZERO"):
                # (the typed enum checks compare in the type they are given: values that differ only above bit 31 differ)
                wide = ((0, 1 << 32), (7, (1 << 40) + 7), ((1 << 33) + 1, (1 << 33) + 1)) if macro.startswith("ENUMS_EQUAL_TYPE") else ()
                for e_, a_ in ((5, 5), (5, 6), (0, 0), (0, 7)) + wide:
                    if macro == "CHECK_EQUAL_ZERO":
                        if e_ != 0:
                            continue
                        log = fold(f, {"a": a_})
                    else:
                        log = fold(f, {"e": e_, "a": a_})
                    if e_ == a_:
                        okc = len(log) == 1 and log[0][0] == "assertLongsEqual" and log[0][1][0] == log[0][1][1]
                    else:
                        okc = len(log) == 1 and log[0][0] == "assertEquals" and log[0][1][0] == 1 and log[0][1][1:3] == (("str", str(e_)), ("str", str(a_)))
                    if not okc:
                        why = why or "%s(%d, %d) expands to %s; expected %s" % (macro, e_, a_, [(m, a2[:3]) for m, a2 in log], "a passing counted check" if e_ == a_ else "assertEquals(true, \"%d\", \"%d\", ...)" % (e_, a_))
            elif macro == "CHECK_COMPARE":
                for e_, a_ in ((1, 2), (2, 2), (3, 2)):
                    log = fold(f, {"e": e_, "a": a_})
                    fails = [x for x in log if x[0] == "assertCompare" and not x[1][0]]
                    if (len(fails) == 1) != (not e_ < a_) or len(log) != len(fails):
                        why = why or "CHECK_COMPARE(%d, <, %d) expands to %s" % (e_, a_, [(m, a2[:1]) for m, a2 in log])
            else:
                run.broke("C03.R5: witness function %s has no expectation in the rule table" % f.qn)
                continue
        except Unknown as u:
            run.broke("C03.R5: the expansion of %s cannot be folded: %s" % (macro, u))
            continue
        run.ob("R5", "macro %s" % macro, site, not why, witness=why or "ok", what=why)
    if nf < 25:
        run.broke("C03.R5: only %d witness functions were extracted" % nf)


def check(ctx, run):
    prog = ctx.program()
    run.assume("IEEE-754 binary64 arithmetic for double (Python floats fold with the same semantics); isnan/isinf/fabs have their C meaning")
    run.not_decided.append("value semantics of StrCmp/StrNCmp/MemCmp/equalsNoCase over all byte strings (loops over unbounded data; C13 folds them on bounded string sets; StrStr is folded here under R6 for haystacks up to 5 and needles up to 3 over a two-letter alphabet)")
    run.not_decided.append("macro expansions with operand types other than those instantiated in the witness unit (templates over StringFrom / operator!= for user types)")
    run.rule("R1", "assert family: every assert entry point folded on operand cases (NULL / equal / different / prefix / case / boundary and 2^32-alias values per operand type) against its predicate: countCheck exactly once and first, a failure recorded once iff the predicate is false, (expected, actual) reach the failure object in that order", floor=35, exhaustive=True)
    run.rule("R2", "doubles_equal folded over the floating-point class partition {NaN, -Inf, +Inf, finite lattice} x thresholds {NaN, 0, subnormal, small, large, Inf} equals: NaN => false; same infinity => true; opposite infinities => false; finite => |d1-d2| <= t", floor=300, exhaustive=True)
    run.rule("R3", "C entry points: each CHECK_*_C_LOCATION forwards to the assert of its type with value-preserving widening only, operands in (expected, actual) order, and the longjmp terminator", floor=18)

    run.rule("R5", "macro layer (witness unit witness/C03_macros.cpp parsed against the current headers, one function per public check macro, each folded): the expansion calls the assert entry point of its kind exactly once with (expected, actual[, third operand]) in that order, CHECK_FALSE negates, BYTES_EQUAL masks both sides, CHECK_EQUAL/ENUMS_EQUAL report iff the operands differ and count a check otherwise", floor=25)
    macro_layer(ctx, run)
    shell = "UtestShell"
    run.rule("R4", "PARTITION: the character classifiers the case-insensitive checks rely on (isUpper, ToLower) folded for all 256 char values", floor=1, exhaustive=True)
    from .shared import char_classifiers
    char_classifiers(prog, run, "R4", which=("isUpper", "ToLower"))
    run.rule("R6", "STRCMP_CONTAINS / STRCMP_NOCASE_CONTAINS decide through SimpleString::contains -> StrStr: StrStr folded on every haystack over {a,b} up to length 5 x every needle up to length 3 returns the first occurrence or NULL; equalsNoCase / containsNoCase folded on all pairs over {a, A, b} up to length 2 (shared with C13.R5)", floor=3, exhaustive=True)
    from .C13 import strstr_rule, string_query_rule
    strstr_rule(prog, run, "R6")
    # the case-insensitive checks decide through equalsNoCase / containsNoCase: folded on all pairs over {a, A, b} up to length 2
    string_query_rule(prog, run, "R6", "equalsNoCase", lambda a, b: 1 if a.lower() == b.lower() else 0, "true iff equal up to the case of the letters (a proper prefix is not equal)", maxlen=2, alpha=(97, 65, 98))
    string_query_rule(prog, run, "R6", "containsNoCase", lambda a, b: 1 if b.lower() in a.lower() else 0, "true iff the argument occurs up to the case of the letters", maxlen=2, alpha=(97, 65, 98))
    # ---------------- R1 ----------------------------------------------------
    found = assert_rules(prog, run, "R1", shell)
    for _ in range(0):
        pass
    # ---------------- R2 ----------------------------------------------------
    doubles_equal_rule(prog, run, "R2")
    # the slots really are isnan / isinf / fabs
    for slot, fn_ in (("PlatformSpecificIsNan", ("isnan", "__isnan", "__builtin_isnan")), ("PlatformSpecificIsInf", ("isinf", "__isinf", "__builtin_isinf", "__builtin_isinf_sign")), ("PlatformSpecificFabs", ("fabs",))):
        tg = prog.slots().get(slot, set())
        ok = False
        w = []
        for mn in tg:
            g = prog.functions.get(mn)
            if g is None:
                w.append(mn)
                ok = ok or mn in fn_
                continue
            cs = [(prog.callee_name(g, c) or render(g, c)) for c in g.calls()]
            w.append({g.qn: cs})
            ok = ok or any(any(x in (c or "") for x in fn_) for c in cs) or any(n["k"] == "DeclRefExpr" and n["name"] in fn_ for n in g.walk())
        run.ob("R2", "slot %s holds %s" % (slot, fn_[0]), "src/Platforms/Gcc/UtestPlatform.cpp:" + slot, ok and bool(tg), witness=w)

    # ---------------- R3 ----------------------------------------------------
    CTAB = {"CHECK_EQUAL_C_BOOL_LOCATION": "assertEquals", "CHECK_EQUAL_C_INT_LOCATION": "assertLongsEqual", "CHECK_EQUAL_C_UINT_LOCATION": "assertUnsignedLongsEqual",
            "CHECK_EQUAL_C_LONG_LOCATION": "assertLongsEqual", "CHECK_EQUAL_C_ULONG_LOCATION": "assertUnsignedLongsEqual", "CHECK_EQUAL_C_LONGLONG_LOCATION": "assertLongLongsEqual",
            "CHECK_EQUAL_C_ULONGLONG_LOCATION": "assertUnsignedLongLongsEqual", "CHECK_EQUAL_C_REAL_LOCATION": "assertDoublesEqual", "CHECK_EQUAL_C_CHAR_LOCATION": "assertEquals",
            "CHECK_EQUAL_C_UBYTE_LOCATION": "assertEquals", "CHECK_EQUAL_C_SBYTE_LOCATION": "assertEquals", "CHECK_EQUAL_C_STRING_LOCATION": "assertCstrEqual",
            "CHECK_EQUAL_C_POINTER_LOCATION": "assertPointersEqual", "CHECK_EQUAL_C_MEMCMP_LOCATION": "assertBinaryEqual", "CHECK_EQUAL_C_BITS_LOCATION": "assertBitsEqual",
            "FAIL_TEXT_C_LOCATION": "fail", "FAIL_C_LOCATION": "fail", "CHECK_C_LOCATION": "assertTrue"}
    # each entry point folded on operand vectors (boundary values of its own parameter types) against recording stubs of the assert
    # family: exactly one call, of the assert of its kind, on the current test, with the operands' mathematical values unchanged and in
    # (expected, actual[, third]) order, the caller's text / file / line, and the terminator that leaves by longjmp
    CUR, TERM, TEXT, FILE_, LINE, CONDSTR = 555, 556, ("str", "TEXT"), ("str", "FILE.c"), 4242, ("str", "cond-string")
    TRAIL = {"text": TEXT, "fileName": FILE_, "lineNumber": LINE, "conditionString": CONDSTR}
    for cname, meth in sorted(CTAB.items()):
        f = prog.fn(cname)
        run.analysed(f)
        ops = [q for q in f.params if q["name"] not in TRAIL]
        if len(ops) + sum(1 for q in f.params if q["name"] in TRAIL) != len(f.params) or not {"fileName", "lineNumber"} <= {q["name"] for q in f.params}:
            raise AnalysisBroken("C03.R3: %s has parameters the rule does not know: %s" % (cname, [q["name"] for q in f.params]))

        def lattice(q):
            ct = q["ct"]
            rng = type_range(prog, ct)
            if rng is not None:
                lo, hi = rng
                return sorted({lo, hi, 0, 1, 65, hi // 2 + 1} | ({-1} if lo < 0 else set()))
            if ct == "double":
                return [0.0, 1.5, -2.25]
            if ct.replace("const ", "").strip() == "char *":
                return [("str", "exp"), ("str", "act"), 0]
            if ct.endswith("*"):
                return [7001, 7002, 0]
            raise AnalysisBroken("C03.R3: %s: operand type %s is not modelled" % (cname, ct))
        lats = [lattice(q) for q in ops]
        # (expected, actual) run over the full square of their lattice, further operands over their own
        vectors = [tuple(v) for v in itertools.product(*lats)] if len(ops) <= 2 else [tuple(v) for v in itertools.product(lats[0][:4], lats[1][:4], *[l_[-3:] for l_ in lats[2:]])]
        why = []
        for vec in vectors:
            seen = []

            def rec(name):
                return lambda *a_: (seen.append((name,) + tuple(a_)), 0)[1]
            hooks = string_hooks({"UtestShell::getCurrent": lambda *a_: CUR, "UtestShell::getCurrentTestTerminatorWithoutExceptions": lambda *a_: TERM, "UtestShell::getCurrentTestTerminator": lambda *a_: 557,
                                  "StringFrom": lambda *a_: ("str", "<%s>" % (a_[-1],))})
            for g in prog.functions.values():
                if g.qn.startswith(shell + "::assert") or g.qn == shell + "::fail":
                    hooks[g.qn] = rec(g.name)
            env = {q["name"]: TRAIL[q["name"]] for q in f.params if q["name"] in TRAIL}
            env.update({q["name"]: v for q, v in zip(ops, vec)})
            ev = Evaluator(prog, f, env=env, calls=hooks)
            ev.pass_object = True
            ev.inline = {g.qn for g in prog.functions.values() if g.cls is None and g.file == f.file} - set(hooks)
            try:
                ev.run_blocks(f.entry, max_steps=600)
            except Unknown as u:
                raise AnalysisBroken("C03.R3: %s cannot be folded on %s: %s" % (cname, vec, u))
            if len(seen) != 1 or seen[0][0] != meth:
                why.append("on %s: calls %s, expected exactly one %s" % (vec, [x[0] for x in seen], meth))
                break
            call = seen[0]
            if call[1] != CUR:
                why.append("not called on the current test")
                break
            args = list(call[2:])
            if args[-1:] != [TERM]:
                why.append("terminator is not the longjmp terminator: a C test body must leave by longjmp")
                break
            tail_want = [TRAIL[q["name"]] for q in f.params if q["name"] in TRAIL and q["name"] != "conditionString"]
            if cname == "FAIL_C_LOCATION":
                tail_want = [("str", "")] + tail_want
            if args[-1 - len(tail_want):-1] != tail_want:
                why.append("text / file / line reach the assert as %s, the caller's are %s" % (args[-1 - len(tail_want):-1], tail_want))
                break
            head = args[:-1 - len(tail_want)]
            if meth == "assertEquals":
                is_bool = "BOOL" in cname
                e_, a_ = vec[0], vec[1]
                wantf = int(bool(e_) != bool(a_)) if is_bool else int(e_ != a_)
                wt = [("str", "true" if e_ else "false"), ("str", "true" if a_ else "false")] if is_bool else [("str", "<%s>" % e_), ("str", "<%s>" % a_)]
                if len(head) != 3 or int(bool(head[0])) != wantf or head[0] not in (0, 1, True, False):
                    why.append("failed flag for (expected=%s, actual=%s) is %s, expected %d" % (e_, a_, head[:1], wantf))
                    break
                if head[1:] != wt:
                    why.append("for (expected=%s, actual=%s) the texts shown are %s, expected %s in (expected, actual) order" % (e_, a_, head[1:], wt))
                    break
            elif meth == "assertTrue":
                if not head or head[0] not in (0, 1, True, False) or int(bool(head[0])) != int(vec[0] != 0) or CONDSTR not in head[1:]:
                    why.append("condition %s reaches assertTrue as %s" % (vec[0], head))
                    break
            elif meth == "fail":
                if head:
                    why.append("fail called with %s" % (head,))
                    break
            else:
                same = len(head) == len(vec) and all((h == v and type(h) == type(v)) or (isinstance(h, (int, float)) and isinstance(v, (int, float)) and not isinstance(h, bool) and h == v) for h, v in zip(head, vec))
                if not same:
                    why.append("operands %s reach %s as %s: not the same values in (expected, actual%s) order" % (vec, meth, tuple(head), ", ..." if len(vec) > 2 else ""))
                    break
        run.ob("R3", "%s -> %s (folded on %d operand vectors)" % (cname, meth, len(vectors)), f.site, not why, witness=why or "forwards in order with the values unchanged and the longjmp terminator", what="; ".join(why))

"""C07 — per-test leak verdict: the leak plugin's pre/post actions, period constants, bracketing and the final report.
Attribution for arbitrary programs rests on C04's undecided exactness. DESIGN.md section 4, C07."""
import itertools
from .common import *
from .C04 import stamping_rule

PL = "MemoryLeakWarningPlugin"
DET = "MemoryLeakDetector"


def check(ctx, run):
    prog = ctx.program()
    run.assume("blocks are entered and removed exactly (C04, decided there only as necessary conditions)")
    run.not_decided.append("attribution of leaks for arbitrary test programs (rests on the undecided exactness of the leak table over all histories, C04)")
    run.rule("R1", "plugin actions: pre = startChecking + remember failure count; post = stopChecking first, leaks counted for the checking period, failure added iff !ignore and expected != leaks and no new failure and overloads on, with the checking-period report; on EVERY exit the test's leaks are demoted and both flags reset", floor=10)
    run.rule("R2", "period constants: startChecking -> checking (buffer cleared), stopChecking/enable -> enabled, disable -> disabled, demotion rewrites checking -> enabled only; new records are stamped with the current period", floor=9)
    run.rule("R3", "bracketing: the plugin's pre action precedes createTest and its post action follows destroyTest; FinalReport uses the enabled period and is printed by RunAllTests iff the result is 0", floor=4)

    pre = prog.fn(PL + "::preTestAction")
    post = prog.fn(PL + "::postTestAction")
    run.analysed(pre)
    run.analysed(post)
    # ---------------- R1 ----------------------------------------------------
    rp = pre.params[1]["name"]
    for p in enumerate_paths(pre):
        names = [render(pre, c) for c in path_calls(prog, pre, p)]
        a = [(l, render(pre, r)) for l, r, n in assignments(pre, p)]
        ok = names.count("memLeakDetector_->startChecking()") == 1 and ("failureCount_", "%s.getFailureCount()" % rp) in a
        run.ob("R1", "preTestAction starts the checking period and remembers the failure count", pre.site, ok, witness={"calls": names, "assign": a})
    tp, rpn = post.params[0]["name"], post.params[1]["name"]
    for p in enumerate_paths(post):
        val = p.val()
        names = [render(post, c) for c in path_calls(prog, post, p)]
        short_names = [(prog.callee_name(post, c) or "").split("::")[-1] for c in path_calls(prog, post, p)]
        a = [(l, render(post, r)) for l, r, n in assignments(post, p)]
        why = []
        if short_names[:1] != ["stopChecking"]:
            why.append("stopChecking is not the first action (allocations of the framework itself would be charged to the test)")
        if "memLeakDetector_->totalMemoryLeaks(mem_leak_period_checking)" not in names:
            why.append("leaks are not counted for the checking period")
        ig = val.get("ignoreAllWarnings_")
        ne = None
        for k, v in val.items():
            if k in ("(expectedLeaks_ == leaks)", "(leaks == expectedLeaks_)"):
                ne = not v
        same = None
        for k, v in val.items():
            if "failureCount_" in k and "getFailureCount()" in k and "==" in k:
                same = v
        ov = [v for k, v in val.items() if k.endswith("areNewDeleteOverloaded()")]
        added = short_names.count("addFailure")
        decided = ig is False and ne is True and same is True and ov == [True]
        undecided_prefix = (ig is True) or (ig is False and ne is False) or (ig is False and ne is True and same is False) or (ig is False and ne is True and same is True and ov == [False])
        if not (decided or undecided_prefix):
            why.append("the verdict does not depend exactly on (ignore flag, expected != leaks, failure count unchanged, overloads on): atoms %s" % sorted(val))
        if added != (1 if decided else 0):
            why.append("failure added %d times for ignore=%s expected!=leaks=%s unchanged=%s overloaded=%s" % (added, ig, ne, same, ov))
        if decided and not any("memLeakDetector_->report(mem_leak_period_checking)" in n for n in names):
            why.append("the failure text is not the checking-period report")
        if decided and not any(n.startswith("TestFailure::TestFailure(&%s" % tp) or ("&%s" % tp) in n for n in names if "TestFailure" in n):
            why.append("the failure is not attached to the test that just ran")
        if short_names.count("markCheckingPeriodLeaksAsNonCheckingPeriod") != 1:
            why.append("the test's leaks are demoted %d times on this exit: they would be charged to the next test" % short_names.count("markCheckingPeriodLeaksAsNonCheckingPeriod"))
        if ("ignoreAllWarnings_", "false") not in a or ("expectedLeaks_", "0") not in a:
            why.append("ignore flag / expected count not reset on this exit")
        run.ob("R1", "postTestAction [%s]" % short(p.describe(post), 130), post.site, not why, witness={"calls": short_names}, what="; ".join(why))
    ini = {k: render(post, v) for k, v in local_inits(post).items()}
    run.ob("R1", "the number compared is the checking-period total", post.site, ini.get("leaks") == "memLeakDetector_->totalMemoryLeaks(mem_leak_period_checking)", witness=ini)
    for fn_, fld, val in (("ignoreAllLeaksInTest", "ignoreAllWarnings_", "true"), ("expectLeaksInTest", "expectedLeaks_", None)):
        f = prog.fn(PL + "::" + fn_)
        a = [(l, render(f, r)) for l, r, n in assignments(f)]
        want = [(fld, val if val else f.params[0]["name"])]
        run.ob("R1", "%s sets %s" % (fn_, fld), f.site, a == want, witness=a)

    # ---------------- R2 ----------------------------------------------------
    for fn_, val, extra in (("startChecking", "mem_leak_period_checking", "outputBuffer_.clear()"), ("stopChecking", "mem_leak_period_enabled", None),
                            ("enable", "mem_leak_period_enabled", None), ("disable", "mem_leak_period_disabled", None)):
        f = prog.fn(DET + "::" + fn_)
        run.analysed(f)
        a = [(l, render(f, r)) for l, r, n in assignments(f)]
        cs = [render(f, c) for c in f.calls()]
        ok = a == [("current_period_", val)] and (extra is None or extra in cs)
        run.ob("R2", "%s sets the current period to %s%s" % (fn_, val.replace("mem_leak_period_", ""), " and clears the report buffer" if extra else ""), f.site, ok, witness={"assign": a, "calls": cs})
    mk = prog.fn(DET + "::markCheckingPeriodLeaksAsNonCheckingPeriod")
    run.analysed(mk)
    a = [(l, render(mk, r)) for l, r, n in assignments(mk) if "period_" in l]
    cs = [render(mk, c) for c in mk.calls()]
    okm = a == [("leak->period_", "mem_leak_period_enabled")] and "memoryTable_.getFirstLeak(mem_leak_period_checking)" in cs and "memoryTable_.getNextLeak(leak, mem_leak_period_checking)" in cs
    for p in enumerate_paths(mk):
        wrote = [l for l, r, n in assignments(mk, p) if l == "leak->period_"]
        chk = [v for k, v in p.val().items() if "leak->period_" in k and "mem_leak_period_checking" in k]
        if wrote and chk != [True] and True not in chk:
            okm = False
    run.ob("R2", "demotion walks the checking-period leaks and rewrites checking -> enabled only", mk.site, okm, witness={"assign": a, "calls": cs})
    stamping_rule(prog, run, "R2")
    ct = [f for f in prog.methods_of(DET) if f.kind == "ctor"][0]
    a = [(l, render(ct, r)) for l, r, n in assignments(ct)]
    run.ob("R2", "a new detector starts disabled", ct.site, ("current_period_", "mem_leak_period_disabled") in a, witness=a)

    # ---------------- R3 ----------------------------------------------------
    ro = prog.fn("UtestShell::runOneTestInCurrentProcess")
    for p in enumerate_paths(ro):
        if p.end != "return":
            continue
        seq = [(prog.callee_name(ro, c) or "").split("::")[-1] for c in path_calls(prog, ro, p)]
        seq = [s for s in seq if s in ("runAllPreTestAction", "createTest", "run", "destroyTest", "runAllPostTestAction")]
        run.ob("R3", "pre actions precede createTest (setup allocations are inside the period) and post actions follow destroyTest", ro.site, seq == ["runAllPreTestAction", "createTest", "run", "destroyTest", "runAllPostTestAction"], witness=seq)
    fr = prog.fn(PL + "::FinalReport")
    run.analysed(fr)
    okf = True
    for p in enumerate_paths(fr):
        names = [render(fr, c) for c in path_calls(prog, fr, p)]
        eq = None
        for k, v in p.val().items():
            if "leaks" in k and fr.params[0]["name"] in k:
                eq = v
        r = render(fr, fr.node(p.ret.get("value"))) if p.ret is not None else None
        if "memLeakDetector_->totalMemoryLeaks(mem_leak_period_enabled)" not in names:
            okf = False
        if eq is False and r != "memLeakDetector_->report(mem_leak_period_enabled)":
            okf = False
        if eq is True and r != '""':
            okf = False
    run.ob("R3", "FinalReport reports the enabled period (every test's demoted leaks) unless the count is the expected one", fr.site, okf)
    ra = [f for f in prog.fns("CommandLineTestRunner::RunAllTests") if "const char *const *" in f.d["sig"]][0]
    run.analysed(ra)
    okr = True
    for p in enumerate_paths(ra):
        z = None
        for k, v in p.val().items():
            if k in ("result", "(0 == result)", "(result == 0)"):
                z = (not v) if k == "result" else v
        names = [render(ra, c) for c in path_calls(prog, ra, p)]
        printed = any("FinalReport(0)" in n for n in names)
        if z is None or printed != z:
            okr = False
    run.ob("R3", "the final leak report is printed iff the run result is 0", ra.site, okr)
    cs = [render(ra, c) for c in ra.calls()]
    ok = any("installPlugin(&memLeakWarn)" in c for c in cs) and any("removePluginByName" in c for c in cs)
    run.ob("R3", "RunAllTests installs the leak plugin for the run and removes it afterwards", ra.site, ok, witness=[c for c in cs if "lugin" in c])

"""C07 — per-test leak verdict: the leak plugin's pre/post actions, period constants, bracketing and the final report.
Attribution for arbitrary programs rests on C04's undecided exactness. DESIGN.md section 4, C07."""
import itertools
from .common import *
from .C04 import list_total_rule, stamping_rule, table_walk_rules
from cpv.ceval import Evaluator, Unknown

PL = "MemoryLeakWarningPlugin"
DET = "MemoryLeakDetector"


def check(ctx, run):
    prog = ctx.program()
    run.assume("blocks are entered and removed exactly (C04, decided there only as necessary conditions)")
    run.not_decided.append("attribution of leaks for arbitrary test programs (rests on the undecided exactness of the leak table over all histories, C04)")
    run.rule("R1", "plugin actions: pre = startChecking + remember failure count; post = stopChecking first, leaks counted for the checking period, failure added iff !ignore and expected != leaks and no new failure and overloads on, with the checking-period report; on EVERY exit the test's leaks are demoted and both flags reset", floor=10)
    run.rule("R2", "period constants: startChecking -> checking (buffer cleared), stopChecking/enable -> enabled, disable -> disabled, demotion rewrites checking -> enabled only; new records are stamped with the current period", floor=9)
    run.rule("R3", "bracketing: the plugin's pre action precedes createTest and its post action follows destroyTest; FinalReport uses the enabled period and is printed by RunAllTests iff the result is 0", floor=4)
    run.rule("R5", "the leak plugin's actions are reached whatever stands in front of it: the plugin-chain walkers folded over chains of 1..3 plugins x every enabled pattern run each enabled plugin's action once, and a disabled plugin skips only its own (shared with C17.R3)", floor=6)
    from .shared import plugin_chain_order
    plugin_chain_order(prog, run, "R5")

    pre = prog.fn(PL + "::preTestAction")
    post = prog.fn(PL + "::postTestAction")
    run.analysed(pre)
    run.analysed(post)
    # ---------------- R1 ----------------------------------------------------
    per = {e["name"]: e["v"] for en in prog.enums.values() if en["qn"].endswith("MemLeakPeriod") for e in en["enumerators"]}
    if len(per) < 4:
        raise AnalysisBroken("MemLeakPeriod enumerators not found")
    CHECKING, ENABLED, DISABLED = per["mem_leak_period_checking"], per["mem_leak_period_enabled"], per["mem_leak_period_disabled"]

    def hooks(seq, answers):
        def mk(name):
            return lambda *a_: (seq.append((name, a_)), answers.get(name, 0))[1]
        names = [DET + "::startChecking", DET + "::stopChecking", DET + "::totalMemoryLeaks", DET + "::report", DET + "::markCheckingPeriodLeaksAsNonCheckingPeriod",
                 "TestResult::getFailureCount", "TestResult::addFailure", "TestResult::print", PL + "::areNewDeleteOverloaded"]
        return {n_: mk(n_.split("::")[-1]) for n_ in names}
    seq = []
    ev = Evaluator(prog, pre, env={"failureCount_": 999}, calls=hooks(seq, {"getFailureCount": 17}))
    try:
        ev.run_blocks(pre.entry, max_steps=200)
        okp = [k for k, a_ in seq].count("startChecking") == 1 and ev.env.get("failureCount_") == 17
    except Unknown as u:
        run.broke("C07.R1: preTestAction cannot be folded: %s" % u)
        okp = False
    run.ob("R1", "preTestAction folded: starts the checking period and remembers the result's failure count", pre.site, okp, witness={"calls": [k for k, a_ in seq], "failureCount_": ev.env.get("failureCount_")})
    tp, rpn = post.params[0]["name"], post.params[1]["name"]
    for ig, exp, leaks, before, now, ov in itertools.product((0, 1), (0, 2), (0, 2, 3), (17,), (17, 18), (0, 1)):
        seq = []
        ev = Evaluator(prog, post, env={"ignoreAllWarnings_": ig, "expectedLeaks_": exp, "failureCount_": before, tp: 100, rpn: 200},
                       calls=hooks(seq, {"totalMemoryLeaks": leaks, "getFailureCount": now, "areNewDeleteOverloaded": ov, "report": ("str", "report")}))
        ev.inline = {g.qn for g in prog.functions.values() if g.qn.startswith(PL + "::")} - set(ev.calls)
        try:
            ev.run_blocks(post.entry, max_steps=400)
        except Unknown as u:
            if str(u).startswith("branch on unknown") and "call " in str(u):
                # the verdict consults something that is none of its four inputs
                run.ob("R1", "postTestAction folded [ignore=%d expected=%d leaks=%d failures %d->%d overloaded=%d]" % (ig, exp, leaks, before, now, ov), post.site, False, witness=str(u),
                       what="the verdict does not depend exactly on (ignore flag, expected != leaks, failure count unchanged, overloads on): %s" % u)
                continue
            run.broke("C07.R1: postTestAction cannot be folded: %s" % u)
            break
        kinds = [k for k, a_ in seq]
        decided = (not ig) and exp != leaks and before == now and bool(ov)
        why = []
        if kinds[:1] != ["stopChecking"]:
            why.append("stopChecking is not the first action (allocations of the framework itself would be charged to the test)")
        tl = [a_ for k, a_ in seq if k == "totalMemoryLeaks"]
        if not tl or any(a_[-1] != CHECKING for a_ in tl):
            why.append("leaks are not counted for the checking period")
        if kinds.count("addFailure") != (1 if decided else 0):
            why.append("failure added %d times for ignore=%s expected=%s leaks=%s failures before/after=%s/%s overloaded=%s" % (kinds.count("addFailure"), ig, exp, leaks, before, now, ov))
        if decided and [a_[-1] for k, a_ in seq if k == "report"] != [CHECKING]:
            why.append("the failure text is not the checking-period report")
        if kinds.count("markCheckingPeriodLeaksAsNonCheckingPeriod") != 1:
            why.append("the test's leaks are demoted %d times on this exit: they would be charged to the next test" % kinds.count("markCheckingPeriodLeaksAsNonCheckingPeriod"))
        if decided:
            built = [t[1] for t in ev.trace if t[0] == "construct TestFailure" and len(t[1]) >= 2]
            if not built or any(b_[0] != 100 for b_ in built):
                why.append("the leak failure is not attached to the test that just ran (constructed from %s)" % ([b_[:1] for b_ in built],))
        if ev.env.get("ignoreAllWarnings_") != 0 or ev.env.get("expectedLeaks_") != 0:
            why.append("ignore flag / expected count not reset on this exit")
        run.ob("R1", "postTestAction folded [ignore=%d expected=%d leaks=%d failures %d->%d overloaded=%d]" % (ig, exp, leaks, before, now, ov), post.site, not why, witness={"calls": kinds}, what="; ".join(why))
    # IGNORE_ALL_LEAKS_IN_TEST / EXPECT_N_LEAKS reach "the" plugin through getFirstPlugin(): the cell it reads, folded against the
    # constructor and the destructor of a SECOND plugin (tests create temporary plugins): the first plugin stays the first
    ct_ = [g for g in prog.methods_of(PL) if g.kind == "ctor"]
    dt_ = [g for g in prog.methods_of(PL) if g.kind == "dtor"]
    gfp = prog.fn(PL + "::getFirstPlugin")
    for g in ct_ + dt_ + [gfp]:
        run.analysed(g)
    FIRST, SECOND = 4100, 4200
    hooks_ = string_hooks({PL + "::getGlobalDetector": lambda *a_: 555, DET + "::enable": lambda *a_: 0, PL + "::turnOffNewDeleteOverloads": lambda *a_: 0, PL + "::destroyGlobalDetector": lambda *a_: 0,
                           "TestPlugin::TestPlugin": lambda *a_: 0, "TestPlugin::~TestPlugin": lambda *a_: 0})

    def first_after(f_, this_, cell, flag=0):
        env = {"this": this_, "firstPlugin_": cell, "destroyGlobalDetectorAndTurnOfMemoryLeakDetectionInDestructor_": flag}
        env.update({q["name"]: (("str", "n") if "SimpleString" in q["ct"] else 0) for q in f_.params})
        ev = Evaluator(prog, f_, env=env, calls=hooks_)
        ev.pass_object = True
        ev.heap_mode = True
        ev.objects = True
        ev.optional_stubs = set(hooks_)
        try:
            ev.run_blocks(f_.entry, max_steps=600)
        except Unknown as u:
            raise AnalysisBroken("C07.R1: %s cannot be folded: %s" % (f_.qn, u))
        ev2 = Evaluator(prog, gfp, env={"firstPlugin_": ev.env.get("firstPlugin_")})
        ev2.run_blocks(gfp.entry, max_steps=50)
        return getattr(ev2, "ret", None)
    for c_ in ct_:
        got = (first_after(c_, FIRST, 0), first_after(c_, SECOND, FIRST))
        run.ob("R1", "plugin constructor folded: the first plugin constructed becomes getFirstPlugin(), a later one does not replace it", c_.site, got == (FIRST, FIRST), witness={"first after (first ctor, second ctor)": got})
    for d_ in dt_:
        got = tuple(first_after(d_, SECOND, FIRST, fl_) for fl_ in (0, 1))
        run.ob("R1", "plugin destructor folded on a plugin that is not the first one: getFirstPlugin() still answers the first plugin", d_.site, got == (FIRST, FIRST), witness={"first plugin after destroying another one": got},
               what="" if got == (FIRST, FIRST) else "after a temporary second plugin is destroyed getFirstPlugin() answers %s: IGNORE_ALL_LEAKS_IN_TEST / EXPECT_N_LEAKS of later tests silently do nothing" % (got,))
    for fn_, fld, val in (("ignoreAllLeaksInTest", "ignoreAllWarnings_", 1), ("expectLeaksInTest", "expectedLeaks_", None)):
        f = prog.fn(PL + "::" + fn_)
        ev = Evaluator(prog, f, env=dict({"ignoreAllWarnings_": 0, "expectedLeaks_": 0}, **{q["name"]: 5 for q in f.params}))
        try:
            ev.run_blocks(f.entry, max_steps=100)
            got = ev.env.get(fld)
        except Unknown as u:
            got = "unknown: %s" % u
        run.ob("R1", "%s sets %s" % (fn_, fld), f.site, got == (val if val is not None else 5), witness=got)

    # ---------------- R2 ----------------------------------------------------
    # the mode switches, judged by the period the NEXT record is stamped with: detectors are built by the constructor and
    # the public switches themselves (whatever private state holds the mode), then one allocation is folded
    from .shared import detector_state
    from .C04 import stamp_of
    START = {"disabled": [], "enabled": [("enable", [])], "checking": [("startChecking", [])]}
    for fn_, val, extra in (("startChecking", CHECKING, True), ("stopChecking", ENABLED, False), ("enable", ENABLED, False), ("disable", DISABLED, False)):
        f = prog.fn(DET + "::" + fn_)
        run.analysed(f)
        ok, wit = True, {}
        for sname, steps_ in START.items():
            cleared = []
            try:
                from .common import object_state
                st = object_state(prog, DET, ["MemoryLeakFailure *"], [55], steps=steps_ + [(fn_, [])],
                                  hooks={"SimpleMutex::SimpleMutex": lambda *a_: 0, "MemoryLeakOutputStringBuffer::clear": lambda *a_: (cleared.append(1), 0)[1]},
                                  inline={g.qn for g in prog.functions.values() if g.qn.startswith(DET + "::")})
                got = stamp_of(prog, st).get("period_")
            except Unknown as u:
                got = "unknown: %s" % u
            want_clears = (1 if extra else 0) + (1 if sname == "checking" else 0)
            wit[sname] = {"next record stamped": got, "buffer cleared": len(cleared)}
            ok = ok and got == val and (len(cleared) == want_clears)
        run.ob("R2", "%s folded from every period: the next record is stamped %s%s" % (fn_, [k for k, v in per.items() if v == val][0].replace("mem_leak_period_", ""), " and the report buffer is cleared" if extra else ""), f.site, ok, witness=wit)
    try:
        got = stamp_of(prog, detector_state(prog, [])).get("period_")
    except Unknown as u:
        got = "unknown: %s" % u
    run.ob("R2", "a new detector starts disabled", f.site, got == DISABLED, witness={"a record of a new detector is stamped": got})
    mk = prog.fn(DET + "::markCheckingPeriodLeaksAsNonCheckingPeriod")
    run.analysed(mk)
    badm = None
    for periods in itertools.product(sorted(per.values()), repeat=2):
        for walk_all in (False, True):
            nodes = [5000 + 100 * i for i in range(len(periods))]
            env = {"@%d.period_" % a_: p_ for a_, p_ in zip(nodes, periods)}
            # the table walk: answers the nodes of the asked period (or all of them, which the loop body must still filter)
            asked = []

            def first(*a_, nodes=nodes, periods=periods, walk_all=walk_all):
                asked.append(a_[-1])
                c = [n_ for n_, p_ in zip(nodes, periods) if walk_all or p_ == a_[-1]]
                return c[0] if c else 0

            def nxt(*a_, nodes=nodes, periods=periods, walk_all=walk_all):
                asked.append(a_[-1])
                c = [n_ for n_, p_ in zip(nodes, periods) if walk_all or p_ == a_[-1]]
                cur = a_[-2]
                later = c[c.index(cur) + 1:] if cur in c else []
                return later[0] if later else 0
            ev = Evaluator(prog, mk, env=env, calls={"MemoryLeakDetectorTable::getFirstLeak": first, "MemoryLeakDetectorTable::getNextLeak": nxt})
            ev.heap_mode = True
            try:
                ev.run_blocks(mk.entry, max_steps=600)
            except Unknown as u:
                run.broke("C07.R2: markCheckingPeriodLeaksAsNonCheckingPeriod cannot be folded: %s" % u)
                break
            after = tuple(ev.env.get("@%d.period_" % a_) for a_ in nodes)
            want = tuple(ENABLED if p_ == CHECKING else p_ for p_ in periods)
            if walk_all and after != want and badm is None:
                badm = "records with periods %s become %s, expected %s" % (periods, after, want)
            if not walk_all and (after != want or any(x != CHECKING for x in asked)) and badm is None:
                badm = "records with periods %s become %s (walk asked for periods %s), expected %s" % (periods, after, asked, want)
    run.ob("R2", "demotion folded over every pair of records x periods: exactly the checking-period records become enabled, the walk asks for the checking period", mk.site, badm is None, witness=badm or "32 cases", what=badm or "")
    stamping_rule(prog, run, "R2")
    # the demotion (and the report) walk the table with getFirstLeak/getNextLeak: a walker that skips records leaves
    # their checking-period stamp for the next test
    table_walk_rules(prog, run, "R2", "R2", only=("getFirstLeak", "getNextLeak"))
    # the verdict counts through getTotalLeaks: table level (every bucket asked with the period) and list level
    table_walk_rules(prog, run, "R1", "R1", only=("getTotalLeaks",))
    list_total_rule(prog, run, "R1")

    # ---------------- R3 ----------------------------------------------------
    # pre actions precede createTest (setup allocations are inside the period) and post actions follow destroyTest: the runner folded
    from .C01 import bracketing_rule
    bracketing_rule(prog, run, "R3")
    # with tests run in separate processes the leak verdict is a failure added to the RESULT in the child (the plugin never marks the
    # shell): what the child reports to the parent must be "failures were added", whatever the shell says (shared with C11.R2/R3)
    from .C11 import separate_process_rules
    separate_process_rules(prog, run, "R3", "R3")
    fr = prog.fn(PL + "::FinalReport")
    run.analysed(fr)
    okf = True
    wit = []
    for leaks, tbd in ((0, 0), (3, 3), (3, 0), (0, 2)):
        seq = []
        ev = Evaluator(prog, fr, env={fr.params[0]["name"]: tbd}, calls=hooks(seq, {"totalMemoryLeaks": leaks, "report": ("str", "report")}))
        try:
            ev.run_blocks(fr.entry, max_steps=200)
            r = getattr(ev, "ret", None)
        except Unknown as u:
            run.broke("C07.R3: FinalReport cannot be folded: %s" % u)
            break
        tl = [a_[-1] for k, a_ in seq if k == "totalMemoryLeaks"]
        rp_ = [a_[-1] for k, a_ in seq if k == "report"]
        want = ("str", "") if leaks == tbd else ("str", "report")
        wit.append({"leaks": leaks, "expected": tbd, "returns": r})
        if tl != [ENABLED] or r != want or (leaks != tbd and rp_ != [ENABLED]):
            okf = False
    run.ob("R3", "FinalReport folded: reports the enabled period (every test's demoted leaks) unless the count is the expected one", fr.site, okf, witness=wit)
    ra = [f for f in prog.fns("CommandLineTestRunner::RunAllTests") if "const char *const *" in f.d["sig"]][0]
    run.analysed(ra)
    okr = True
    plug = [d["name"] for n in ra.walk() if n["k"] == "DeclStmt" for d in n.get("decls", []) if d.get("ct") == PL]
    for p in enumerate_paths(ra):
        rv = render(ra, ra.node(p.ret.get("value"))) if p.ret is not None and p.ret.get("value") is not None else None
        z = None
        for k, v in p.val().items():
            if rv is not None and k in (rv, "(0 == %s)" % rv, "(%s == 0)" % rv):
                z = (not v) if k == rv else v
        names = [rx(ra, c) for c in path_calls(prog, ra, p)]
        printed = any(".FinalReport(0)" in n for n in names)
        if z is None or printed != z:
            okr = False
    run.ob("R3", "the final leak report is printed iff the run result is 0", ra.site, okr)
    cs = [render(ra, c) for c in ra.calls()]
    ok = len(plug) == 1 and any("installPlugin(&%s)" % plug[0] in c for c in cs) and any("removePluginByName" in c for c in cs)
    run.ob("R3", "RunAllTests installs the leak plugin for the run and removes it afterwards", ra.site, ok, witness=[c for c in cs if "lugin" in c])

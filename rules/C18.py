"""C18 — string buffer cache: size classes, list moves, clears, adaptor (folded over a small heap model).
The no-aliasing clause over ALL alloc/release histories is not decided. DESIGN.md section 4, C18."""
import itertools
import re
from .common import *
from cpv.ceval import Evaluator, Unknown

CA = "SimpleStringInternalCache"
UNIT = "src/CppUTest/SimpleStringInternalCache.cpp"


def chain_of(env, head_key):
    out, k, n = [], env.get(head_key, 0), 0
    while k and n < 20:
        out.append(k)
        k = env.get("@%d.next_" % k, 0)
        n += 1
    return out


def blocks_env(lists):
    """lists: {head_key: [block ids]}; block b has memory_ = 1000 + b"""
    env = {}
    for hk, ids in lists.items():
        env[hk] = ids[0] if ids else 0
        for i, b in enumerate(ids):
            env["@%d.next_" % b] = ids[i + 1] if i + 1 < len(ids) else 0
            env["@%d.memory_" % b] = 1000 + b
    return env


def check(ctx, run):
    prog = ctx.program()
    run.assume("the underlying allocator returns distinct blocks; block ids in the folded heaps stand for arbitrary distinct addresses")
    run.not_decided.append("absence of aliasing for ALL alloc/release histories (heap shape over unbounded histories); decided: the effect of every primitive on every short list, the size-class table and the clear/teardown coverage")
    run.rule("R1", "size classes: class sizes ascending, isCached bound = largest class, getIndexForCache folded for every size 0..300 = smallest class >= size; alloc/dealloc/hasFreeBlocksOfSize classify through it; new blocks are allocated with the class size", floor=300, exhaustive=True)
    run.rule("R2", "moves folded on every used list of 0..3 blocks x every target: reserve = pop free + push used; release = unlink exactly the addressed block from used + push free; unknown pointer = lists untouched + the one-shot warning", floor=15, exhaustive=True)
    run.rule("R3", "clears folded: clearCache destroys every class's free list with the class size and resets every head; clearAll also destroys used lists and non-cached blocks; neither re-arms the one-time warning; destroying a list frees every block once (memory and header), reading next before freeing", floor=6)
    run.rule("R4", "adaptor and teardown: the allocator adaptor forwards (size) / (memory, size); alloc/dealloc skeletons; the global cache restores the string allocator and returns everything (also buffers still in use) before it goes away", floor=6)

    # ---------------- R1 ----------------------------------------------------
    cr = prog.fn(CA + "::createInternalCacheNodes")
    run.analysed(cr)
    ncls = [e["v"] for en in prog.enums.values() for e in en["enumerators"] if e["name"] == "amountOfInternalCacheNodes"]
    if not ncls:
        raise AnalysisBroken("amountOfInternalCacheNodes not found")
    ncls = ncls[0]
    ev = Evaluator(prog, cr, env={"allocator_": 77})
    ev.heap_mode = True
    ev.pass_object = True
    ev.calls["TestMemoryAllocator::alloc_memory"] = lambda o, s, *a: 5000
    try:
        ev.run_blocks(cr.entry, max_steps=500)
        # (element i of the block is written as block[i] or through a walking pointer block + i: one location, two spellings)
        def cell(i, m):
            return ev.env.get("@5000[%d].%s" % (i, m), ev.env.get("@%d.%s" % (5000 + i, m)))
        sizes = [cell(i, "size_") for i in range(ncls)]
        heads = [(cell(i, "freeMemoryHead_"), cell(i, "usedMemoryHead_")) for i in range(ncls)]
    except Unknown as u:
        raise AnalysisBroken("C18.R1: size class table could not be folded: %s" % u)
    if any(not isinstance(s_, int) for s_ in sizes) or any(not isinstance(h_, int) for hh in heads for h_ in hh):
        # (the table may be completed by the constructor that calls createInternalCacheNodes: fold the constructor whole)
        ct = prog.fn(CA + "::" + CA)
        run.analysed(ct)
        ev = Evaluator(prog, ct, env={})
        ev.heap_mode = True
        ev.pass_object = True
        ev.calls["TestMemoryAllocator::alloc_memory"] = lambda o, s, *a: 5000
        ev.calls["defaultMallocAllocator"] = lambda *a: 77
        ev.inline = {g.qn for g in prog.functions.values() if g.qn.startswith(CA + "::")} - {ct.qn}
        try:
            ev.run_blocks(ct.entry, max_steps=1500)
        except Unknown as u:
            raise AnalysisBroken("C18.R1: size class table could not be folded: %s" % u)

        def cell2(i, m):
            for k_ in ("@5000[%d].%s" % (i, m), "@%d.%s" % (5000 + i, m), "cache_[%d].%s" % (i, m)):
                if k_ in ev.env:
                    return ev.env[k_]
            return None
        sizes = [cell2(i, "size_") for i in range(ncls)]
        heads = [(cell2(i, "freeMemoryHead_"), cell2(i, "usedMemoryHead_")) for i in range(ncls)]
    if any(not isinstance(s_, int) for s_ in sizes) or any(not isinstance(h_, int) for hh in heads for h_ in hh):
        raise AnalysisBroken("C18.R1: size class table could not be folded: the class array is not written through the block the allocator returned (sizes %s)" % sizes)
    ok = all(isinstance(s, int) for s in sizes) and sizes == sorted(sizes) and len(set(sizes)) == ncls and all(h == (0, 0) for h in heads)
    run.ob("R1", "class table: %d ascending sizes, all lists start empty" % ncls, cr.site, ok, witness={"sizes": sizes, "heads": heads})
    if not ok:
        raise AnalysisBroken("size class table could not be folded")
    cenv = {"cache_[%d].size_" % i: s for i, s in enumerate(sizes)}
    ic = prog.fn(CA + "::isCached")
    gi = prog.fn(CA + "::getIndexForCache")
    run.analysed(ic)
    run.analysed(gi)
    for size in range(0, 301):
        e1 = Evaluator(prog, ic, env={ic.params[0]["name"]: size})
        e2 = Evaluator(prog, gi, env=dict(cenv, **{gi.params[0]["name"]: size}))
        try:
            e1.run_blocks(ic.entry)
            e2.run_blocks(gi.entry, max_steps=300)
            c, idx = getattr(e1, "ret", None), getattr(e2, "ret", None)
        except Unknown as u:
            c, idx = "unknown: %s" % u, None
        wantc = 1 if size <= sizes[-1] else 0
        wanti = next((i for i, s in enumerate(sizes) if size <= s), None)
        ok = c == wantc and (wantc == 0 or idx == wanti)
        run.ob("R1", "size %d: cached=%s class=%s" % (size, bool(wantc), wanti), gi.site, ok, witness={"isCached": c, "index": idx},
               what="" if ok else "a %d-byte request is served from class %s (size %s)" % (size, idx, sizes[idx] if isinstance(idx, int) and idx < len(sizes) else "?"))
    gc = prog.fn(CA + "::getCacheNodeFromSize")
    hf = prog.fn(CA + "::hasFreeBlocksOfSize")
    run.analysed(gc)
    run.analysed(hf)
    CINL = {CA + "::getIndexForCache", CA + "::getCacheNodeFromSize", CA + "::isCached"}
    penv = {"cache_": ("ptr", "CACHE", 0)}
    penv.update({"CACHE[%d].size_" % i: s_ for i, s_ in enumerate(sizes)})
    badn, badf = None, None
    probe = sorted({0, 1} | {s_ + d for s_ in sizes for d in (-1, 0, 1) if 0 <= s_ + d <= sizes[-1]})
    try:
        for size in probe:
            wanti = next(i for i, s_ in enumerate(sizes) if size <= s_)
            ev = Evaluator(prog, gc, env=dict(penv, **{gc.params[0]["name"]: size}))
            ev.heap_mode = True
            ev.inline = CINL
            ev.run_blocks(gc.entry, max_steps=600)
            r = getattr(ev, "ret", None)
            if r != ("ptr", "CACHE", wanti) and badn is None:
                badn = "size %d: node %s, expected class %d" % (size, r, wanti)
            for own_free in (0, 1):
                env = dict(penv, **{hf.params[0]["name"]: size})
                for i in range(ncls):
                    env["CACHE[%d].freeMemoryHead_" % i] = (4242 if own_free else 0) if i == wanti else (0 if own_free else 4242)
                ev = Evaluator(prog, hf, env=env)
                ev.heap_mode = True
                ev.inline = CINL
                ev.run_blocks(hf.entry, max_steps=600)
                r = getattr(ev, "ret", None)
                if r != own_free and badf is None:
                    badf = "size %d with the own class %s and every other class %s: answers %s" % (size, "non-empty" if own_free else "empty", "empty" if own_free else "non-empty", r)
    except Unknown as u:
        run.broke("C18.R1: getCacheNodeFromSize / hasFreeBlocksOfSize cannot be folded: %s" % u)
    run.ob("R1", "getCacheNodeFromSize folded at every class boundary: the node of the smallest class >= size", gc.site, badn is None, witness=badn or "%d sizes" % len(probe), what=badn or "")
    run.ob("R1", "hasFreeBlocksOfSize folded at every class boundary: looks at the free list of the request's own class only", hf.site, badf is None, witness=badf or "%d sizes x 2" % len(probe), what=badf or "")
    an = prog.fn(CA + "::allocateNewCacheBlockFrom")
    run.analysed(an)
    cs = [render(an, c) for c in an.calls() if "createSimpleStringMemoryBlock" in render(an, c)]
    run.ob("R1", "a new cached block is allocated with its class size (>= any request of the class)", an.site, len(cs) == 1 and cs[0].startswith("createSimpleStringMemoryBlock(%s->size_," % an.params[0]["name"]), witness=cs)

    # ---------------- R2 ----------------------------------------------------
    rs = prog.fn(CA + "::reserveCachedBlockFrom")
    rl = prog.fn(CA + "::releaseCachedBlockFrom")
    ad = prog.fn(CA + "::addToSimpleStringMemoryBlockList")
    pu = prog.fn(CA + "::printDeallocatingUnknownMemory")
    for f in (rs, rl, ad, pu):
        run.analysed(f)
    INL = {CA + "::addToSimpleStringMemoryBlockList"}
    for free, used in (([1], []), ([1, 2], [3]), ([1, 2, 3], [4, 5])):
        env = blocks_env({"N.freeMemoryHead_": free, "N.usedMemoryHead_": used})
        env[rs.params[0]["name"]] = "N"
        ev = Evaluator(prog, rs, env=env)
        ev.heap_mode = True
        ev.inline = INL
        try:
            ev.run_blocks(rs.entry)
            got = (chain_of(ev.env, "N.freeMemoryHead_"), chain_of(ev.env, "N.usedMemoryHead_"), getattr(ev, "ret", None))
        except Unknown as u:
            got = "unknown: %s" % u
        want = (free[1:], [free[0]] + used, free[0])
        run.ob("R2", "reserve with free=%s used=%s" % (free, used), rs.site, got == want, witness={"free, used, returned": got},
               what="" if got == want else "expected free=%s used=%s returning block %d" % (want[0], want[1], want[2]))
    for used in ([], [1], [1, 2], [1, 2, 3]):
        for target in used + [9]:
            free = [7]
            env = blocks_env({"N.freeMemoryHead_": free, "N.usedMemoryHead_": used})
            env[rl.params[1]["name"]] = "N"
            env[rl.params[0]["name"]] = 1000 + target
            env["hasWarnedAboutDeallocations"] = 0
            ev = Evaluator(prog, rl, env=env)
            ev.heap_mode = True
            ev.inline = INL
            warned = []
            ev.calls[CA + "::printDeallocatingUnknownMemory"] = lambda m, warned=warned: (warned.append(m), 0)[1]
            try:
                ev.run_blocks(rl.entry, max_steps=600)
                got = (chain_of(ev.env, "N.freeMemoryHead_"), chain_of(ev.env, "N.usedMemoryHead_"), len(warned))
                why = ""
            except Unknown as u:
                got, why = "unknown", str(u)
            if target in used:
                want = ([target] + free, [b for b in used if b != target], 0)
            else:
                want = (free, used, 1)
            if got != want and not why:
                why = "free/used/warnings are %s, expected %s" % (got, want)
            run.ob("R2", "release block %s from used=%s" % (target if target in used else "(foreign)", used), rl.site, got == want, witness={"free, used, warnings": got}, what=why)
    # buffers above the largest class: the same move on the non-cached list
    rn = prog.fn(CA + "::releaseNonCachedMemory")
    run.analysed(rn)
    for blocks in ([], [1], [1, 2], [1, 2, 3]):
        for target in blocks + [9]:
            env = blocks_env({"nonCachedAllocations_": blocks})
            env[rn.params[0]["name"]] = 1000 + target
            env[rn.params[1]["name"]] = 300
            env["hasWarnedAboutDeallocations"] = 0
            ev = Evaluator(prog, rn, env=env)
            ev.heap_mode = True
            warned, destroyed = [], []
            ev.calls[CA + "::printDeallocatingUnknownMemory"] = lambda m, warned=warned: (warned.append(m), 0)[1]
            ev.calls[CA + "::destroySimpleStringMemoryBlock"] = lambda b, sz, destroyed=destroyed: (destroyed.append((b, sz)), 0)[1]
            try:
                ev.run_blocks(rn.entry, max_steps=600)
                got = (chain_of(ev.env, "nonCachedAllocations_"), destroyed, len(warned))
                why = ""
            except Unknown as u:
                got, why = "unknown", str(u)
            want = ([b for b in blocks if b != target], [(target, 300)], 0) if target in blocks else (blocks, [], 1)
            if got != want and not why:
                why = "list/destroyed/warnings are %s, expected %s" % (got, want)
            run.ob("R2", "release large buffer %s from non-cached=%s" % (target if target in blocks else "(foreign)", blocks), rn.site, got == want, witness={"list, destroyed, warnings": str(got)}, what=why)
    for flag in (0, 1):
        ev = Evaluator(prog, pu, env={"hasWarnedAboutDeallocations": flag, pu.params[0]["name"]: 1234})
        ev.pass_object = False
        printed = []
        seq = []
        ev.calls["UtestShell::print"] = lambda *a: (printed.append(1), seq.append(("print", ev.env.get("hasWarnedAboutDeallocations"))), 0)[2]
        ev.calls["UtestShell::getCurrent"] = lambda: 55
        try:
            ev.run_blocks(pu.entry)
            after = ev.env.get("hasWarnedAboutDeallocations")
        except Unknown as u:
            after = "unknown: %s" % u
        ok = after == 1 and len(printed) == (0 if flag else 1) and all(x[1] == 1 for x in seq)
        run.ob("R2", "unknown-pointer warning with flag=%d: printed %s, flag set before printing" % (flag, "once" if not flag else "never"), pu.site, ok, witness={"printed": len(printed), "flag_after": after})

    # ---------------- R3 ----------------------------------------------------
    dl = prog.fn(CA + "::destroySimpleStringMemoryBlockList")
    db = prog.fn(CA + "::destroySimpleStringMemoryBlock")
    cc = prog.fn(CA + "::clearCache")
    ca_ = prog.fn(CA + "::clearAllIncludingCurrentlyUsedMemory")
    for f in (dl, db, cc, ca_):
        run.analysed(f)
    for ids in ([], [1], [1, 2, 3]):
        env = blocks_env({"H": ids})
        env[dl.params[0]["name"]] = ids[0] if ids else 0
        env[dl.params[1]["name"]] = 64
        ev = Evaluator(prog, dl, env=env)
        ev.heap_mode = True
        destroyed = []

        def destroy(b, s, ev=ev, destroyed=destroyed):
            destroyed.append((b, s))
            ev.env.pop("@%d.next_" % b, None)       # the block is gone: reading next_ afterwards is a use-after-free
            return 0
        ev.calls[CA + "::destroySimpleStringMemoryBlock"] = destroy
        try:
            ev.run_blocks(dl.entry, max_steps=400)
            got = destroyed
            why = ""
        except Unknown as u:
            got, why = "unknown", "reads a block after destroying it or cannot fold: %s" % u
        want = [(b, 64) for b in ids]
        run.ob("R3", "destroying the list %s frees each block once with the given size" % ids, dl.site, got == want, witness=got, what=why)
    # destroySimpleStringMemoryBlock folded against a recording allocator: the block's buffer goes back with the class size, then the
    # header with its own size, once each, and the header is not read after it was freed
    freed = []
    BLK, BUF = 3000, 5000
    sz = prog.types.get("SimpleStringMemoryBlock", {}).get("size")

    def free_hook(o=None, *a_):
        mem, size_ = (a_[0], a_[1]) if len(a_) >= 2 else (None, None)
        freed.append((mem, size_))
        if mem == BLK:
            for k_ in [k_ for k_ in list(evd.env) if k_.startswith("@%d." % BLK)]:
                evd.env.pop(k_)           # the header is gone: reading it afterwards is a use-after-free
        return 0
    evd = Evaluator(prog, db, env={db.params[0]["name"]: BLK, db.params[1]["name"]: 64, "@%d.memory_" % BLK: BUF, "@%d.next_" % BLK: 0, "allocator_": 700}, calls={"TestMemoryAllocator::free_memory": free_hook})
    evd.heap_mode = True
    evd.pass_object = True
    try:
        evd.run_blocks(db.entry, max_steps=300)
        why = ""
    except Unknown as u:
        why = "reads the block after freeing it, or cannot be folded: %s" % u
    ok = not why and [m_ for m_, s_ in freed] == [BUF, BLK] and freed[0][1] == 64 and (sz is None or freed[1][1] == sz)
    run.ob("R3", "destroying a block folded: frees its buffer (with the size) and then its header (with the header's size), once each", db.site, ok, witness=[str(x) for x in freed], what=why)

    def fold_clear(f, free_empty=(), used_empty=()):
        lists = {}
        for i in range(ncls):
            lists["cache_[%d].freeMemoryHead_" % i] = [] if i in free_empty else [10 * (i + 1) + 1, 10 * (i + 1) + 2]
            lists["cache_[%d].usedMemoryHead_" % i] = [] if i in used_empty else [10 * (i + 1) + 5]
        lists["nonCachedAllocations_"] = [91, 92]
        env = blocks_env(lists)
        for k_, v_ in lists.items():
            if not v_:
                env[k_] = 0
        env.update(cenv)
        env["cache_"] = ("ptr", "cache_", 0)
        env["hasWarnedAboutDeallocations"] = 1      # (the one-time warning has been given: a clear must not re-arm it)
        ev = Evaluator(prog, f, env=env)
        ev.heap_mode = True
        calls = []
        ev.calls[CA + "::destroySimpleStringMemoryBlockList"] = lambda h, s: (calls.append((h, s)), 0)[1]
        ev.run_blocks(f.entry, max_steps=1500)
        return ev.env, [c_ for c_ in calls if c_[0] != 0]      # (destroying an empty list is a no-op)
    EMPTY = [(), (0,), (ncls // 2,), (ncls - 1,), tuple(range(ncls)), tuple(range(0, ncls, 2)), tuple(range(1, ncls, 2))]
    for f_, everything, label in ((cc, False, "clearCache destroys the free list of every class with its class size, resets every free head, leaves used buffers alone"),
                                  (ca_, True, "clearAllIncludingCurrentlyUsedMemory destroys free, used and non-cached lists of everything and resets every head")):
        bad, ncase = None, 0
        try:
            for fe in EMPTY:
                for ue in ((), (0,), tuple(range(ncls))):
                    ncase += 1
                    env, calls = fold_clear(f_, fe, ue)
                    want = [(10 * (i + 1) + 1, sizes[i]) for i in range(ncls) if i not in fe]
                    heads = [env.get("cache_[%d].freeMemoryHead_" % i) for i in range(ncls)]
                    used = [env.get("cache_[%d].usedMemoryHead_" % i) for i in range(ncls)]
                    if everything:
                        want += [(10 * (i + 1) + 5, sizes[i]) for i in range(ncls) if i not in ue] + [(91, 0)]
                        good = sorted(calls) == sorted(want) and all(h == 0 for h in heads + used) and env.get("nonCachedAllocations_") == 0
                    else:
                        good = sorted(calls) == sorted(want) and heads == [0] * ncls and used == [0 if i in ue else 10 * (i + 1) + 5 for i in range(ncls)] and env.get("nonCachedAllocations_") == 91
                    if good and env.get("hasWarnedAboutDeallocations") != 1 and bad is None:
                        bad = "the latch of the one-time warning is %s after the clear (it was set before): the warning about an unknown buffer would be given again" % env.get("hasWarnedAboutDeallocations")
                    if not good and bad is None:
                        bad = "classes with an empty free list %s / empty used list %s: destroys %s, expected %s; free heads afterwards %s (a destroyed list that keeps its head is handed out again, a list that is skipped is never returned to the allocator)" % (list(fe), list(ue), sorted(calls), sorted(want), heads)
        except Unknown as u:
            run.broke("%s cannot be folded (%s): restructured beyond what R3 decides" % (f_.name, u))
            continue
        run.ob("R3", label + " (folded over %d patterns of empty and non-empty lists)" % ncase, f_.site, bad is None, witness=bad or "%d patterns" % ncase, what=bad or "")

    # ---------------- R4 ----------------------------------------------------
    al = prog.fn(CA + "::alloc")
    de = prog.fn(CA + "::dealloc")
    run.analysed(al)
    run.analysed(de)
    def fold_cache_entry(f, vals, own_free):
        log = []
        env = dict(penv)
        env.update(dict(zip([q["name"] for q in f.params], vals)))
        env["nonCachedAllocations_"] = 7000
        size = vals[-1] if f is de else vals[0]
        wanti = next((i for i, s_ in enumerate(sizes) if size <= s_), None)
        for i in range(ncls):
            env["CACHE[%d].freeMemoryHead_" % i] = (4242 if own_free else 0) if i == wanti else (0 if own_free else 4242)
        env.update({"@8000.memory_": 18000, "@8100.memory_": 18100, "@8200.memory_": 18200})
        hooks = {CA + "::reserveCachedBlockFrom": lambda *a_: (log.append(("reserve", a_[-1])), 8000)[1], CA + "::allocateNewCacheBlockFrom": lambda *a_: (log.append(("new", a_[-1])), 8100)[1],
                 CA + "::createSimpleStringMemoryBlock": lambda *a_: (log.append(("create", a_[-2], a_[-1])), 8200)[1],
                 CA + "::releaseCachedBlockFrom": lambda *a_: (log.append(("release", a_[-2], a_[-1])), 0)[1], CA + "::releaseNonCachedMemory": lambda *a_: (log.append(("release-large", a_[-2], a_[-1])), 0)[1]}
        ev = Evaluator(prog, f, env=env, calls=hooks)
        ev.heap_mode = True
        ev.inline = CINL | {CA + "::hasFreeBlocksOfSize"}
        ev.run_blocks(f.entry, max_steps=800)
        return getattr(ev, "ret", None), log, ev.env.get("nonCachedAllocations_"), wanti
    bad_a, bad_d = None, None
    try:
        for size in probe + [sizes[-1] + 1, 1000]:
            for own_free in (0, 1):
                r, log, nc, wanti = fold_cache_entry(al, (size,), own_free)
                if wanti is not None:
                    want = ([("reserve", ("ptr", "CACHE", wanti))], 18000) if own_free else ([("new", ("ptr", "CACHE", wanti))], 18100)
                    okc = (log, r) == want and nc == 7000
                else:
                    okc = log == [("create", size, 7000)] and nc == 8200 and r == 18200
                if not okc and bad_a is None:
                    bad_a = "alloc(%d) with its class %s: does %s and returns %s" % (size, "non-empty" if own_free else "empty", log, r)
            r, log, nc, wanti = fold_cache_entry(de, (55555, size), 0)
            want = [("release", 55555, ("ptr", "CACHE", wanti))] if wanti is not None else [("release-large", 55555, size)]
            if log != want and bad_d is None:
                bad_d = "dealloc(memory, %d) does %s, expected %s" % (size, log, want)
    except Unknown as u:
        run.broke("C18.R4: alloc/dealloc cannot be folded: %s" % u)
    run.ob("R4", "alloc folded at every class boundary and above the largest class: reserve from the own class when it has free blocks, else a new block of that class; large sizes get a block of exactly that size pushed on the non-cached list",
           al.site, bad_a is None, witness=bad_a or "ok", what=bad_a or "")
    run.ob("R4", "dealloc folded: releases into the class of the given size, large sizes through the non-cached list", de.site, bad_d is None, witness=bad_d or "ok", what=bad_d or "")
    A = "SimpleStringCacheAllocator"
    f = prog.fn(A + "::alloc_memory")
    run.analysed(f)
    asked = []
    ev = Evaluator(prog, f, env=dict(zip([q["name"] for q in f.params], (48, ("str", "file"), 7))), calls={CA + "::alloc": lambda *a_: (asked.append(a_[-1]), 5150)[1]})
    try:
        ev.run_blocks(f.entry, max_steps=200)
        r = getattr(ev, "ret", None)
    except Unknown as u:
        r = "unknown: %s" % u
    run.ob("R4", "adaptor alloc_memory folded: asks the cache for the size and returns its buffer", f.site, asked == [48] and r == 5150, witness={"asked": asked, "returns": r})
    f = prog.fn(A + "::free_memory")
    run.analysed(f)
    asked = []
    ev = Evaluator(prog, f, env=dict(zip([q["name"] for q in f.params], (5150, 48, ("str", "file"), 7))), calls={CA + "::dealloc": lambda *a_: (asked.append(tuple(a_[-2:])), 0)[1]})
    try:
        ev.run_blocks(f.entry, max_steps=200)
    except Unknown as u:
        asked.append("unknown: %s" % u)
    run.ob("R4", "adaptor free_memory folded: hands (memory, size) to the cache in that order, once", f.site, asked == [(5150, 48)], witness=[str(x) for x in asked])
    # the global cache folded against a model of the "current string allocator" cell: installing puts an adaptor in front of the
    # allocator that was current (the cache gets its memory from that one); tearing down puts that allocator back, returns every
    # buffer - also those still in use - exactly once, and only then deletes the adaptor
    G = "GlobalSimpleStringCache"
    gct = [f_ for f_ in prog.methods_of(G) if f_.kind == "ctor"][0]
    gd = [f_ for f_ in prog.methods_of(G) if f_.kind == "dtor"][0]
    run.analysed(gct)
    run.analysed(gd)
    cur, seq = {"v": 7000}, []
    hooks = string_hooks({"SimpleString::getStringAllocator": lambda *a_: cur["v"], "SimpleString::setStringAllocator": lambda *a_: (cur.__setitem__("v", a_[-1]), seq.append(("set", a_[-1])), 0)[2],
                          CA + "::setAllocator": lambda *a_: (seq.append(("cache allocator", a_[-1])), 0)[1],
                          CA + "::clearAllIncludingCurrentlyUsedMemory": lambda *a_: (seq.append(("clear all",)), 0)[1], CA + "::clearCache": lambda *a_: (seq.append(("clear free only",)), 0)[1]})
    AINL = {g.qn for g in prog.functions.values() if g.qn.startswith((A + "::", G + "::"))}

    def fold_global(f_, env):
        ev = Evaluator(prog, f_, env=dict(env, this=50), calls=hooks)
        ev.heap_mode = True
        ev.pass_object = True
        ev.objects = True
        ev.inline = AINL - {f_.qn}
        ev.optional_stubs = set(hooks)
        ev.run_blocks(f_.entry, max_steps=3000)
        return ev
    try:
        ev = fold_global(gct, {})
        adaptor = cur["v"]
        fed = [x[1] for x in seq if x[0] == "cache allocator"]
        ok = isinstance(adaptor, int) and adaptor != 7000 and fed[-1:] == [7000]
        run.ob("R4", "global cache installation folded: an adaptor becomes the current string allocator and the cache draws its memory from the allocator that was current", gct.site, ok,
               witness={"current string allocator": adaptor, "the cache's underlying allocator": fed})
        state = {k_: v_ for k_, v_ in ev.env.items() if k_ != "this"}
        del seq[:]
        ev2 = fold_global(gd, state)
        dels = list(getattr(ev2, "deleted", []))
        order = [x[0] for x in seq if x[0] in ("clear all", "clear free only")]
        t_clear = next((i_ for i_, t_ in enumerate(ev2.trace) if str(t_[0]).endswith("clearAllIncludingCurrentlyUsedMemory")), None)
        t_del = next((i_ for i_, t_ in enumerate(ev2.trace) if t_[0] == "delete"), None)
        why = ""
        if cur["v"] != 7000:
            why = "the string allocator that was current before the cache is not put back (current: %s)" % cur["v"]
        elif order != ["clear all"]:
            why = "buffers still held by live strings are not returned to the underlying allocator exactly once (%s)" % (order or "nothing cleared")
        elif dels != [adaptor] or t_clear is None or t_del is None or t_del < t_clear:
            why = "the adaptor is not deleted once, after the buffers were returned (deleted: %s)" % dels
        run.ob("R4", "global cache teardown folded: the previous string allocator is put back, every buffer (also those still in use) is returned once, then the adaptor is deleted", gd.site, not why,
               witness={"calls": [list(x) for x in seq], "deleted": dels}, what=why)
    except Unknown as u:
        raise AnalysisBroken("C18.R4: the global cache cannot be folded: %s" % u)
    cd = prog.fn(CA + "::~" + CA)
    cs = [render(cd, c) for c in cd.calls()]
    run.ob("R4", "the cache returns its class table when destroyed", cd.site, "destroyInternalCacheNode(cache_)" in cs, witness=cs)

"""C13 — string operations: buffer ownership and size pairing, unsigned-underflow guards, printable size agreement,
bounded copies, NUL-terminated scans, format fast path, character classifiers.
Textbook equivalence for all byte strings is NOT decided. DESIGN.md section 4, C13."""
import itertools
import re
from .common import *
from cpv.ceval import Evaluator, Unknown
from cpv.graph import field_writers
from .shared import char_classifiers

SS = "SimpleString"
UNIT = "src/CppUTest/SimpleString.cpp"
SIZE_MAX = (1 << 64) - 1
UNDERFLOW_UNITS = ("src/CppUTest/SimpleString.cpp", "src/CppUTest/CommandLineArguments.cpp", "src/CppUTest/TestRegistry.cpp", "src/CppUTest/TestFailure.cpp", "src/CppUTest/TestFilter.cpp")
# frozen exceptions for R2: (function qn, rendered subtraction) -> reason
UNDERFLOW_EXC = {
    ("CommandLineArguments::addGroupDotNameFilter", "(collection[0].size() - 1)"): "split(\".\") produced exactly two parts (dominating fact), so part 0 ends with the delimiter and is at least 1 long",
    ("SimpleString::subStringFromTill", "(endPos - beginPos)"): "endPos = findFrom(beginPos, ...) starts its scan at beginPos and only counts upwards (checked structurally in R5), so endPos >= beginPos",
    ("StringFromBinary", "(result.size() - 1)"): "the value is only the `amount` of subString(0, amount): a wrapped value clamps nothing and the empty result stays empty",
    ("HexStringFrom", "(size - (8 / 4))"): "only evaluated for negative values, whose %x rendering of the promoted int has 8 hex digits (size >= 8 > 2)",
    ("SimpleString::copyToNewBuffer", "(bufferSize - 1)"): "every caller passes a size >= 1 (each call site is checked in R4)",
    ("SimpleString::replace", "((len + (withlen * c)) - (tolen * c))"): "c counts non-overlapping occurrences with stride tolen (checked structurally below), so tolen * c <= len",
}


def R(f, n, **kw):
    """render without the class qualifier of static SimpleString members"""
    return render(f, n, **kw).replace("SimpleString::", "")


def loops_of(f):
    return [n for n in f.walk() if n["k"] in ("ForStmt", "WhileStmt", "DoStmt")]


def check(ctx, run):
    prog = ctx.program()
    run.assume("char is signed 8-bit on the analysed target; the string allocator returns blocks of at least the requested size")
    run.not_decided.append("that every operation returns the result of its textbook definition for ALL byte strings and positions (functional correctness over unbounded data); decided: ownership/size pairing of every buffer, absence of unsigned wrap in every index/length computation, agreement of the printable size pre-computation with the writer for every char value, bounded copies, NUL-bounded scans, classifier tables")
    run.rule("R1", "buffer ownership and size pairing: buffer_/bufferSize_ written only by the internal-buffer family, each pairing size N with a buffer allocated with N; every setter releases the old buffer first with its recorded size; setInternalBufferTo receives buffers allocated with the same size variable; formatted construction allocates and frees with one variable", floor=14)
    run.rule("R2", "unsigned-underflow guard: every size_t subtraction in the anchored units is dominated by a fact that excludes wrap, or is a frozen exception with a checked reason", floor=10)
    run.rule("R3", "printable size agreement folded for all 256 char values: bytes written per char by printable() = 1 + size increment in getPrintableSize(), copy lengths equal the index advance, escape table index inside its extent", floor=256, exhaustive=True)
    run.rule("R4", "bounded copies folded over the (buffer size, string size) lattice: copyToBuffer writes [0, min(size, bufferSize-1)] and terminates there; copyToNewBuffer is always called with a size >= 1; subString truncates inside its own string", floor=20)
    run.rule("R5", "C-string scans stop at NUL: every loop of the primitives has a condition that is false when the advancing pointer points at NUL (folded), MemCmp is bounded by n, findFrom by the string's size", floor=9)
    run.rule("R6", "format fast path: the constant compared with the vsnprintf result equals the extent of the stack buffer handed to it; the slow path passes one size variable to allocation, vsnprintf and release", floor=3)
    run.rule("R7", "character classifiers folded for all 256 char values against their tables", floor=6, exhaustive=True)

    # ---------------- R1 ----------------------------------------------------
    FAMILY = {SS + "::deallocateInternalBuffer", SS + "::setInternalBufferAsEmptyString", SS + "::copyBufferToNewInternalBuffer", SS + "::setInternalBufferToNewBuffer", SS + "::setInternalBufferTo", SS + "::" + SS}
    for fld in ("buffer_", "bufferSize_"):
        ws = set()
        for f, n in field_writers(prog, SS + "::" + fld):
            if "k" in n and n.get("lhs") is not None and "[" in render(f, f.node(n["lhs"])):
                continue    # content write buffer_[i] = ...
            ws.add(f.qn)
        run.ob("R1", "%s is (re)assigned only by the internal-buffer family" % fld, "include/CppUTest/SimpleString.h:%s::%s" % (SS, fld), ws <= FAMILY, witness=sorted(ws))
    da = prog.fn(SS + "::deallocateInternalBuffer")
    run.analysed(da)
    for p in enumerate_paths(da):
        has = p.val().get("buffer_")
        cs = [R(da, c) for c in path_calls(prog, da, p) if "deallocStringBuffer" in R(da, c)]
        a = [(l, render(da, r)) for l, r, n in assignments(da, p)]
        if has:
            ok = len(cs) == 1 and cs[0].startswith("deallocStringBuffer(buffer_, bufferSize_,") and ("buffer_", "NULL") in a and ("bufferSize_", "0") in a
        else:
            ok = not cs
        run.ob("R1", "deallocateInternalBuffer [%s]: frees with the recorded size once, then forgets the buffer" % p.describe(da), da.site, ok, witness={"free": cs, "assign": a})
    setters = {
        "setInternalBufferAsEmptyString": ("1", "getEmptyString()"),
        "setInternalBufferToNewBuffer": (None, None),
        "setInternalBufferTo": (None, None),
    }
    for f in prog.functions.values():
        if f.cls != SS or f.name not in ("setInternalBufferAsEmptyString", "setInternalBufferToNewBuffer", "setInternalBufferTo", "copyBufferToNewInternalBuffer"):
            continue
        a = [(l, R(f, r)) for l, r, n in assignments(f) if l in ("buffer_", "bufferSize_")]
        if not a:
            continue    # the 1-argument overloads only delegate
        run.analysed(f)
        ok = True
        why = ""
        for p in enumerate_paths(f):
            seq = []
            for e in p.trace:
                if isinstance(e, int):
                    n = f.nodes[e]
                    if n["k"] == "CXXMemberCallExpr" and (prog.callee_name(f, n) or "") == SS + "::deallocateInternalBuffer":
                        seq.append("release")
                    if n["k"] == "BinaryOperator" and n.get("op") == "=" and render(f, f.node(n["lhs"])) in ("buffer_", "bufferSize_"):
                        seq.append(render(f, f.node(n["lhs"])))
            if seq[:1] != ["release"] or seq.count("release") != 1 or sorted(seq[1:]) != ["bufferSize_", "buffer_"]:
                ok, why = False, "sequence is %s (expected: release the old buffer once, then set size and buffer)" % seq
        d = dict(a)
        pn = [q["name"] for q in f.params]
        if f.name == "setInternalBufferAsEmptyString":
            pair = d.get("bufferSize_") == "1" and d.get("buffer_") == "getEmptyString()"
        elif f.name == "setInternalBufferToNewBuffer":
            pair = d.get("bufferSize_") == pn[0] and (d.get("buffer_") or "").startswith("allocStringBuffer(bufferSize_,")
        elif f.name == "copyBufferToNewInternalBuffer":
            pair = d.get("bufferSize_") == pn[1] and d.get("buffer_") == "copyToNewBuffer(%s, bufferSize_)" % pn[0]
        else:
            pair = d.get("bufferSize_") == pn[1] and d.get("buffer_") == pn[0]
        if not pair:
            ok, why = False, "size and buffer are not paired: %s" % d
        run.ob("R1", "%s(%s) releases first and pairs the recorded size with the new buffer" % (f.name, ", ".join(q["ct"] for q in f.params)), f.site, ok, witness=d, what=why)
    ge = prog.fn(SS + "::getEmptyString")
    cs = [R(ge, c) for c in ge.calls() if (prog.callee_name(ge, c) or "") == SS + "::allocStringBuffer"]
    run.ob("R1", "the empty string is a 1-byte buffer", ge.site, len(cs) == 1 and cs[0].startswith("allocStringBuffer(1,"), witness=cs)
    cn = prog.fn(SS + "::copyToNewBuffer")
    cs = [R(cn, c) for c in cn.calls() if (prog.callee_name(cn, c) or "") == SS + "::allocStringBuffer"]
    run.ob("R1", "copyToNewBuffer allocates exactly the size it is given", cn.site, len(cs) == 1 and cs[0].startswith("allocStringBuffer(%s," % cn.params[1]["name"]), witness=cs)
    for f in prog.functions.values():
        if not f.file.startswith(("src/", "include/")):
            continue
        for c in f.calls():
            if (prog.callee_name(f, c) or "") == SS + "::setInternalBufferTo":
                b, s = [render(f, x) for x in f.args(c)]
                ini = {k: R(f, v) for k, v in local_inits(f).items()}
                src = ini.get(b, "")
                ok = src.startswith("allocStringBuffer(%s," % s) or src.endswith(", %s)" % s) and src.startswith("copyToNewBuffer(")
                run.analysed(f)
                run.ob("R1", "%s hands setInternalBufferTo a buffer allocated with the same size variable" % f.qn, f.site, ok, witness={"buffer": b, "allocated_by": src, "size": s},
                       what="" if ok else "the recorded size differs from the allocated size: the buffer would be released with the wrong size")
    ds = prog.fn(SS + "::~" + SS)
    cs = [(prog.callee_name(ds, c) or "") for c in ds.calls()]
    run.ob("R1", "the destructor releases the buffer once", ds.site, cs.count(SS + "::deallocateInternalBuffer") == 1, witness=cs)
    vf = prog.fn("VStringFromFormat")
    run.analysed(vf)
    al = [R(vf, c) for c in vf.calls() if (prog.callee_name(vf, c) or "") == SS + "::allocStringBuffer"]
    fr = [R(vf, c) for c in vf.calls() if (prog.callee_name(vf, c) or "") == SS + "::deallocStringBuffer"]
    ok = len(al) == 1 and len(fr) == 1
    if ok:
        sv = re.match(r"^allocStringBuffer\((\w+),", al[0])
        fv = re.match(r"^deallocStringBuffer\((\w+), (\w+),", fr[0])
        ini = {k: R(vf, v) for k, v in local_inits(vf).items()}
        ok = bool(sv and fv) and sv.group(1) == fv.group(2) and ini.get(fv.group(1), "").startswith("allocStringBuffer(")
    run.ob("R1", "VStringFromFormat releases its temporary buffer with the size it was allocated with", vf.site, ok, witness={"alloc": al, "free": fr},
           what="" if ok else "the temporary buffer is returned with a different size than requested")

    # ---------------- R2 ----------------------------------------------------
    def wraps_excluded(f, n):
        a, b = render(f, f.node(n["lhs"])), render(f, f.node(n["rhs"]))
        bc = const_value(f, f.node(n["rhs"]))
        facts = facts_at(f, f.where_enclosing(n))
        if ("(%s < %s)" % (a, b), False) in facts or ("(%s < %s)" % (b, a), True) in facts or ("(%s == %s)" % tuple(sorted((a, b))), True) in facts:
            return "dominated by %s >= %s" % (a, b)
        if bc is not None:
            for k, v in facts:
                if k == a and v and bc <= 1:
                    return "dominated by %s != 0" % a
                m = re.match(r"^\((\d+) < %s\)$" % re.escape(a), k)
                if m and v and int(m.group(1)) + 1 >= bc:
                    return "dominated by %s > %s" % (a, m.group(1))
                m = re.match(r"^\(%s < (\d+)\)$" % re.escape(a), k)
                if m and not v and int(m.group(1)) >= bc:
                    return "dominated by %s >= %s" % (a, m.group(1))
            if bc == 1:
                for k, v in facts:
                    m = re.match(r"^\((.+) < %s\)$" % re.escape(a), k)
                    if m and v:
                        return "dominated by %s < %s (so %s >= 1)" % (m.group(1), a, a)
            # X.size() - 1 under X.endsWith(non-empty literal)
            m = re.match(r"^(\w+)\.size\(\)$", a)
            if m and bc == 1:
                for k, v in facts:
                    if v and k.startswith("%s.endsWith(" % m.group(1)) and '""' not in k:
                        return "dominated by %s ends with a non-empty literal" % m.group(1)
        # loop idiom n - i - 1 with i < n
        return None
    nsub = 0
    for f in sorted(prog.functions.values(), key=lambda x: (x.file, x.line)):
        if f.file not in UNDERFLOW_UNITS:
            continue
        for n in f.walk():
            if n["k"] == "BinaryOperator" and n.get("op") == "-" and n.get("ct") in ("unsigned long", "unsigned int"):
                nsub += 1
                run.analysed(f)
                txt = render(f, n)
                why = wraps_excluded(f, n)
                if why:
                    run.ob("R2", "%s: %s" % (f.qn, txt), f.site, True, witness=why)
                elif (f.qn, txt) in UNDERFLOW_EXC:
                    run.ob("R2", "%s: %s (frozen exception)" % (f.qn, txt), f.site, True, witness=UNDERFLOW_EXC[(f.qn, txt)])
                else:
                    run.ob("R2", "%s: %s" % (f.qn, txt), f.site, False, witness=sorted("%s%s" % ("" if v else "!", k) for k, v in facts_at(f, f.where_enclosing(n))),
                           what="unsigned subtraction without a dominating fact that excludes wrap-around; the result is used as an index, length or bound")
    # reasons of the frozen exceptions that are themselves checkable
    rp = [f for f in prog.fns(SS + "::replace") if f.params and f.params[0]["ct"] == "const char *"]
    if rp:
        rp = rp[0]
        run.analysed(rp)
        strides = [render(rp, n) for n in rp.walk() if n["k"] in ("BinaryOperator", "CompoundAssignOperator") and "tolen" in render(rp, n) and n.get("op") in ("+", "+=")]
        count_loop = [render(rp, f_.get("inc") and rp.node(f_["inc"])) for f_ in rp.walk() if f_["k"] == "ForStmt" and "StrStr" in render(rp, rp.node(f_.get("inc")) if f_.get("inc") is not None else f_)]
        ok = any("StrStr((next + tolen), to)" in c or "+ tolen" in c for c in count_loop) and any(s == "(i += tolen)" for s in strides) and not any((prog.callee_name(rp, c) or "").endswith("::count") for c in rp.calls())
        run.ob("R2", "replace counts the occurrences it replaces: the counting scan and the copy loop both advance by tolen per match", rp.site, ok, witness={"count_loop_step": count_loop, "copy_strides": strides},
               what="" if ok else "the size is computed from a different number of occurrences than the copy loop consumes: the new buffer is too small for self-overlapping patterns")
        z = [p for p in enumerate_paths(rp) if p.val().get("tolen") is False or p.val().get("(0 == tolen)") is True or p.val().get("(tolen == 0)") is True]
        okz = bool(z) and all(not [c for c in path_calls(prog, rp, p) if "allocStringBuffer" in render(rp, c)] for p in z)
        run.ob("R2", "an empty pattern is a no-op (it would match at every position without advancing)", rp.site, okz)

    # ---------------- R3 ----------------------------------------------------
    gp = prog.fn(SS + "::getPrintableSize")
    pr = prog.fn(SS + "::printable")
    run.analysed(gp)
    run.analysed(pr)
    INL = {SS + "::isControl", SS + "::isControlWithShortEscapeSequence"}

    def body_of(f, var_hint):
        loops = loop_blocks(f)
        for b in f.blocks.values():
            if b["id"] in loops and b.get("cond") is not None and len(b["succ"]) == 2:
                key, pol = atom(f, f.nodes[b["cond"]])
                if re.match(r"^\(i < \w+\)$", key):
                    return b, (b["succ"][0] if pol else b["succ"][1])
        return None, None
    hg, bg = body_of(gp, "i")
    hp_, bp = body_of(pr, "i")
    if hg is None or hp_ is None:
        raise AnalysisBroken("per-character loops of getPrintableSize/printable not found")
    table = [n for n in pr.walk() if n["k"] == "DeclStmt" and any(d["name"] == "shortEscapeCodes" for d in n.get("decls", []))]
    text = prog.types.get(table[0]["decls"][0]["ct"], {}).get("extent") if table else None
    for c in range(-128, 128):
        if c == 0:
            continue
        e1 = Evaluator(prog, gp, env={"buffer_[0]": c, "i": 0, "str_size": 1, "printable_str_size": 0})
        e1.inline = INL
        e2 = Evaluator(prog, pr, env={"buffer_[0]": c, "i": 0, "str_size": 1, "j": 0})
        e2.inline = INL
        copies = []
        idxs = []
        e2.calls[SS + "::StrNCpy"] = lambda d, s, n, copies=copies: (copies.append(n), 0)[1]
        try:
            e1.run_blocks(bg, stop_blocks={hg["id"]}, max_steps=200)
            e2.run_blocks(bp, stop_blocks={hp_["id"]}, max_steps=200)
            inc = e1.env.get("printable_str_size")
            j = e2.env.get("j")
            direct = [k for k, v in e2.stores if k.startswith("result.buffer_[")]
            for nm, args, node in e2.trace:
                pass
            # table subscripts evaluated during the fold
            sub = [n for n in pr.walk() if n["k"] == "ArraySubscriptExpr" and render(pr, pr.node(n["base"])) == "shortEscapeCodes"]
            tix = None
            if copies and copies[0] == 2 and sub:
                e3 = Evaluator(prog, pr, env={"c": c})
                tix = e3.ev(pr.node(sub[0]["idx"]))
            why = ""
            if j != 1 + inc:
                why = "char %d: printable() writes %s bytes, getPrintableSize() reserves %s" % (c, j, 1 + inc)
            elif copies and copies[0] != j:
                why = "char %d: copy length %s differs from the index advance %s" % (c, copies[0], j)
            elif tix is not None and text is not None and not (0 <= tix < text):
                why = "char %d: escape table index %s outside [0, %s)" % (c, tix, text)
            ok = not why
        except Unknown as u:
            ok, why, inc, j = False, "cannot fold: %s" % u, None, None
        run.ob("R3", "char value %d" % c, pr.site, ok, witness={"reserved": None if inc is None else 1 + inc, "written": j, "copies": copies}, what=why)
    run.ob("R3", "char value 0 never occurs inside a string (loops run to size())", pr.site, True, witness="str_size = size()")
    ini = {k: render(pr, v) for k, v in local_inits(pr).items()}
    cs = [render(pr, c) for c in pr.calls() if "setInternalBufferToNewBuffer" in render(pr, c)]
    run.ob("R3", "printable() allocates getPrintableSize() + 1 bytes and terminates at the write index", pr.site, cs == ["result.setInternalBufferToNewBuffer((getPrintableSize() + 1))"] and ("result.buffer_[j]", "0") in [(l, render(pr, r)) for l, r, n in assignments(pr)], witness=cs)

    # ---------------- R4 ----------------------------------------------------
    cb = prog.fn(SS + "::copyToBuffer")
    run.analysed(cb)
    bp_, bs_ = cb.params[0]["name"], cb.params[1]["name"]
    for bsz, ssz in itertools.product((0, 1, 2, 5, 100), (0, 1, 4, 5, 6, 200)):
        ev = Evaluator(prog, cb, env={bp_: 4242, bs_: bsz})
        ev.heap_mode = True
        cp = []
        ev.calls[SS + "::size"] = lambda ssz=ssz: ssz
        ev.calls[SS + "::getBuffer"] = lambda: 777
        ev.calls[SS + "::StrNCpy"] = lambda d, s, n, cp=cp: (cp.append((d, n)), d)[1]
        try:
            ev.run_blocks(cb.entry, max_steps=200)
            stores = [(k, v) for k, v in ev.stores if k.startswith("@4242[")]
            wr = list(getattr(ev, "wraps", []))
            want = min(ssz, bsz - 1) if bsz else None
            if bsz == 0:
                ok = not cp and not stores
            else:
                ok = cp == [(4242, want)] and stores == [("@4242[%d]" % want, 0)] and not wr
            why = "" if ok else "copies %s and terminates at %s for a %d-byte buffer and a %d-char string" % (cp, stores, bsz, ssz)
        except Unknown as u:
            ok, why = False, "cannot fold: %s" % u
        run.ob("R4", "copyToBuffer(bufferSize=%d) of a %d-char string" % (bsz, ssz), cb.site, ok, what=why)
    for f in prog.functions.values():
        if not f.file.startswith(("src/", "include/")):
            continue
        for c in f.calls():
            if (prog.callee_name(f, c) or "") == SS + "::copyToNewBuffer":
                a = f.args(c)[1]
                r = render(f, a)
                ini = {k: render(f, v) for k, v in local_inits(f).items()}
                src = ini.get(r, r)
                # bufferSize_ of a live string is >= 1 by R1; otherwise the expression must add 1
                chain = [src] + [ini.get(t, "") for t in re.findall(r"\w+", src)]
                ok = any("+ 1)" in s_ for s_ in chain) or r == "bufferSize_"
                run.ob("R4", "%s calls copyToNewBuffer with a size >= 1 (%s)" % (f.qn, r), f.site, ok, witness=chain[:3],
                       what="" if ok else "copyToNewBuffer writes the terminator at bufferSize-1: a size of 0 writes before the buffer")
    for f in prog.functions.values():
        if f.cls == SS and f.name == "copyBufferToNewInternalBuffer" and len(f.params) == 1:
            cs = [render(f, c) for c in f.calls() if "copyBufferToNewInternalBuffer(" in render(f, c)]
            ok = len(cs) == 1 and "+ 1)" in cs[0]
            run.ob("R4", "copyBufferToNewInternalBuffer(%s) sizes the copy as length + 1" % f.params[0]["ct"], f.site, ok, witness=cs)
    sub = [f for f in prog.fns(SS + "::subString") if len(f.params) == 2][0]
    run.analysed(sub)
    for l, r, n in assignments(sub):
        if l.startswith("newString.buffer_["):
            facts = facts_at(sub, sub.where_enclosing(n))
            idx = l[len("newString.buffer_["):-1]
            ok = ("(%s < newString.size())" % idx, True) in facts
            run.ob("R4", "subString truncates at an index below the new string's size", sub.site, ok, witness=sorted("%s%s" % ("" if v else "!", k) for k, v in facts))
    okb = False
    for p in enumerate_paths(sub):
        v = p.val()
        if v.get("(beginPos < size())") is False:
            okb = render(sub, sub.node(p.ret.get("value")), keep_explicit_casts=False) in ('SimpleString("")', '""') if p.ret is not None else False
    facts_new = None
    for n in sub.walk():
        if n["k"] == "DeclStmt" and any(d["name"] == "newString" for d in n.get("decls", [])):
            facts_new = facts_at(sub, sub.where_enclosing(n))
    run.ob("R4", "subString builds from buffer + beginPos only when beginPos < size()", sub.site, facts_new is not None and ("(beginPos < size())", True) in facts_new, witness=sorted("%s%s" % ("" if v else "!", k) for k, v in (facts_new or [])),
           what="" if facts_new is not None and ("(beginPos < size())", True) in facts_new else "a start position at or beyond the end reads outside the buffer (an empty string has size 0)")

    # ---------------- R5 ----------------------------------------------------
    PRIMS = {"StrCmp": ["s1"], "StrNCmp": ["s1"], "StrLen": ["str"], "StrStr": ["s1"], "StrNCpy": ["s1"], "AtoI": ["str"], "AtoU": ["str"]}
    INL5 = {SS + "::isSpace", SS + "::isDigit"}
    for name, ptrs in PRIMS.items():
        f = prog.fn(SS + "::" + name)
        run.analysed(f)
        for i, lp in enumerate(loops_of(f)):
            cond = f.node(lp.get("cond"))
            if cond is None:
                run.ob("R5", "%s loop #%d has a condition" % (name, i + 1), f.site, False, what="unbounded loop")
                continue
            okl = False
            why = ""
            for ptr in ptrs:
                env = {"*" + ptr: 0, "*" + ptr + "++": 0, "*s2": 65, "n": 5, ptr: 1000, "s2": 2000}
                ev = Evaluator(prog, f, env=env)
                ev.inline = INL5
                try:
                    v = ev.ev(cond)
                    if not v:
                        okl = True
                except Unknown as u:
                    why = str(u)
            run.ob("R5", "%s loop #%d stops when the scanned pointer reaches NUL" % (name, i + 1), f.site, okl, witness=render(f, cond), what="" if okl else "condition stays true at NUL (%s)" % why)
    mc = prog.fn(SS + "::MemCmp")
    run.analysed(mc)
    conds = [render(mc, mc.node(lp.get("cond"))) for lp in loops_of(mc)]
    run.ob("R5", "MemCmp is bounded by n", mc.site, conds == ["n--"], witness=conds)
    ff = prog.fn(SS + "::findFrom")
    run.analysed(ff)
    ini = {k: render(ff, v) for k, v in local_inits(ff).items()}
    lps = loops_of(ff)
    ok = len(lps) == 1
    w = {"init": ini}
    if ok:
        c = render(ff, ff.node(lps[0].get("cond")))
        m = re.match(r"^\((\w+) < (\w+)\)$", c)
        inc = render(ff, ff.node(lps[0].get("inc"))) if lps[0].get("inc") is not None else ""
        w.update({"cond": c, "inc": inc})
        ok = bool(m) and ini.get(m.group(2)) == "size()" and ini.get(m.group(1)) == ff.params[0]["name"] and inc in ("%s++" % m.group(1), "++%s" % m.group(1))
        rets = [render(ff, ff.node(n.get("value"))) for n in ff.walk() if n["k"] == "ReturnStmt"]
        ok = ok and sorted(rets) == sorted([m.group(1), "npos"]) if m else False
    run.ob("R5", "findFrom scans [starting_position, size()) upwards and returns an index in that range or npos", ff.site, ok, witness=w,
           what="" if ok else "a start position beyond the end scans past the terminating NUL")

    # ---------------- R6 ----------------------------------------------------
    vs = [c for c in vf.calls() if (prog.callee_name(vf, c) or "") == "PlatformSpecificVSNprintf"]
    ok = len(vs) == 2
    w = [render(vf, c) for c in vs]
    if ok:
        a0 = vf.args(vs[0])
        ext = prog.types.get(a0[0].get("ct", ""), {})
        # the first argument decays from the local array: find its declaration extent
        decl = [d for n in vf.walk() if n["k"] == "DeclStmt" for d in n.get("decls", []) if d["name"] == render(vf, a0[0])]
        extent = prog.types.get(decl[0]["ct"], {}).get("extent") if decl else None
        passed = const_value(vf, a0[1])
        cmpc = None
        for b in vf.blocks.values():
            if b.get("cond") is not None:
                cn = vf.strip(vf.nodes[b["cond"]], casts=False)
                if cn is not None and cn["k"] == "BinaryOperator" and cn.get("op") == "<" and render(vf, vf.node(cn["lhs"])) == "size":
                    cmpc = const_value(vf, vf.node(cn["rhs"]))
        ok = extent is not None and extent == passed == cmpc
        w = {"extent": extent, "passed_to_vsnprintf": passed, "compared_with": cmpc}
    run.ob("R6", "fast path: buffer extent = size passed to vsnprintf = constant the result is compared with", vf.site, ok, witness=w,
           what="" if ok else "a result that does not fit the stack buffer would be taken as complete (truncated text)")
    if len(vs) == 2:
        a1 = [render(vf, x) for x in vf.args(vs[1])]
        ini = {k: render(vf, v) for k, v in local_inits(vf).items()}
        ok = a1[1] == "newBufferSize" and ini.get("newBufferSize") == "(size + 1)" and ini.get(a1[0], "").replace("SimpleString::", "").startswith("allocStringBuffer(newBufferSize,")
        run.ob("R6", "slow path: one size variable (result length + 1) for allocation and vsnprintf", vf.site, ok, witness={"vsnprintf": a1, "init": {k: v for k, v in ini.items() if "uffer" in k}})
    ini = {k: render(vf, v, keep_explicit_casts=False) for k, v in local_inits(vf).items()}
    run.ob("R6", "the length that selects the path is the first vsnprintf's result", vf.site, ini.get("size", "").startswith("PlatformSpecificVSNprintf(defaultBuffer,"), witness=ini.get("size"))

    # ---------------- R7 ----------------------------------------------------
    char_classifiers(prog, run, "R7")

"""C13 — string operations: buffer ownership and size pairing, unsigned-underflow guards, printable size agreement,
bounded copies, NUL-terminated scans, format fast path, character classifiers.
Textbook equivalence for all byte strings is NOT decided. DESIGN.md section 4, C13."""
import itertools
import re
from .common import *
from cpv.ceval import Evaluator, Unknown, DECLINE
from cpv.graph import field_writers
from cpv.model import TRANSPARENT, CAST_KINDS
from .shared import char_classifiers

SS = "SimpleString"
UNIT = "src/CppUTest/SimpleString.cpp"
SIZE_MAX = (1 << 64) - 1
UNDERFLOW_UNITS = ("src/CppUTest/SimpleString.cpp", "src/CppUTest/CommandLineArguments.cpp", "src/CppUTest/TestRegistry.cpp", "src/CppUTest/TestFailure.cpp", "src/CppUTest/TestFilter.cpp")
# frozen exceptions for R2: (function qn, alpha-normalised origin rendering of the subtraction) -> reason.
# Local names are replaced by v0, v1, ... in order of appearance, single-assignment locals by their initialisers.
UNDERFLOW_EXC = {
    ("HexStringFrom", "(v0.size() - (8 / 4))"): "only evaluated for negative values, whose %x rendering of the promoted int has 8 hex digits (size >= 8 > 2)",
}


def R(f, n, **kw):
    """render without the class qualifier of static SimpleString members"""
    return render(f, n, **kw).replace("SimpleString::", "")


def loops_of(f):
    return [n for n in f.walk() if n["k"] in ("ForStmt", "WhileStmt", "DoStmt")]


def strstr_rule(prog, run, rid, hay_len=5, needle_len=3):
    """SimpleString::StrStr folded on every haystack over {a,b} up to hay_len x every needle up to needle_len (bytes behind
    a terminator do not exist): the first occurrence or NULL. Self-overlapping needles and near-misses directly before the
    real occurrence are in the domain (a search that does not back up far enough after a partial match fails there).
    Shared with C02 (name filters use contains) and C03 (STRCMP_CONTAINS)."""
    f = prog.fn(SS + "::StrStr")
    run.analysed(f)
    inl = {g.qn for g in prog.functions.values() if g.qn.startswith(SS + "::")}
    bad, ncase = None, 0
    for L in range(hay_len + 1):
        for a_ in itertools.product("ab", repeat=L):
            for M in range(needle_len + 1):
                for b_ in itertools.product("ab", repeat=M):
                    ncase += 1
                    env = {f.params[0]["name"]: ("ptr", "A", 0), f.params[1]["name"]: ("ptr", "B", 0)}
                    for i_, ch in enumerate("".join(a_) + "\0"):
                        env["A[%d]" % i_] = ord(ch)
                    for i_, ch in enumerate("".join(b_) + "\0"):
                        env["B[%d]" % i_] = ord(ch)
                    ev = Evaluator(prog, f, env=env)
                    ev.inline = inl
                    try:
                        ev.run_blocks(f.entry, max_steps=4000)
                        r = getattr(ev, "ret", None)
                        if isinstance(r, tuple) and r and r[0] == "unknown":
                            raise Unknown(r[1])
                    except Unknown as u:
                        oob = [k_ for k_ in getattr(ev, "absent_reads", []) if re.match(r"^[AB]\[", k_)]
                        if not oob:
                            raise AnalysisBroken("%s.%s: StrStr cannot be folded on (%r, %r): %s" % (run.pid, rid, "".join(a_), "".join(b_), u))
                        r = "reads %s, outside the string" % oob[0]
                    pos = "".join(a_).find("".join(b_))
                    want = 0 if pos < 0 else ("ptr", "A", pos)
                    if r != want and bad is None:
                        bad = "StrStr(%r, %r) folds to %s, expected %s" % ("".join(a_), "".join(b_), r, "NULL" if pos < 0 else "haystack + %d" % pos)
    run.ob(rid, "StrStr folded on %d (haystack, needle) pairs over {a,b}: first occurrence or NULL, also for needles that overlap themselves or follow a near-miss" % ncase, f.site, bad is None,
           witness=bad or "%d pairs" % ncase, what="" if bad is None else "a substring that is there is not found (or one that is not there is): " + bad)


def string_query_rule(prog, run, rid, name, oracle, text, maxlen=3, alpha=(97, 98)):
    """a SimpleString query taking another string, folded on every (string, argument) pair over `alpha` up to `maxlen`: textbook answer,
    reads inside the two buffers only (bytes behind a terminator and in front of a buffer are absent). Shared with C03 (the
    case-insensitive string checks decide through equalsNoCase / containsNoCase)."""
    INL5 = {g.qn for g in prog.functions.values() if g.qn.startswith(SS + "::")}

    def strings(maxlen_, alpha_):
        for L in range(maxlen_ + 1):
            for t in itertools.product(alpha_, repeat=L):
                yield list(t)

    def put(env, base, vals):
        for i_, v_ in enumerate(list(vals) + [0]):
            env["%s[%d]" % (base, i_)] = v_
    f = prog.fn(SS + "::" + name)
    run.analysed(f)
    on = f.params[0]["name"]
    bad, ncase = None, 0
    for a_ in strings(maxlen, alpha):
        for b_ in strings(maxlen, alpha):
            ncase += 1
            env = {"buffer_": ("ptr", "A", 0), "bufferSize_": len(a_) + 1, on + ".buffer_": ("ptr", "B", 0), on + ".bufferSize_": len(b_) + 1}
            put(env, "A", a_)
            put(env, "B", b_)
            ta, tb = "".join(map(chr, a_)), "".join(map(chr, b_))
            # (string temporaries - the lower-case copies of the case-insensitive queries - are string values; a query written
            # in place reads the two buffers)
            sh_ = string_hooks()
            env[on] = 222
            qh = {SS + "::lowerCase": lambda o=None, *a_, ta=ta, tb=tb: ("str", (tb if o == 222 else ta).lower()), "operator==": sh_["operator=="], "operator!=": sh_["operator!="],
                  SS + "::contains": lambda o=None, x=None, *a_: (1 if isinstance(o, tuple) and isinstance(x, tuple) and x[1] in o[1] else 0) if isinstance(o, tuple) else None}
            tmpn = []

            def chars_of(ev_, o=None, *a_, tmpn=tmpn):
                """the text of a string temporary as a C string in memory of its own; the two real strings are left to the real getter"""
                if not (isinstance(o, tuple) and o and o[0] == "str"):
                    return DECLINE
                base = "T%d" % len(tmpn)
                tmpn.append(base)
                for i_, ch_ in enumerate(o[1] + "\0"):
                    ev_.env["%s[%d]" % (base, i_)] = ord(ch_)
                    ev_.stores.append(("%s[%d]" % (base, i_), ord(ch_)))
                return ("ptr", base, 0)
            chars_of.wants_ev = True
            qh[SS + "::asCharString"] = chars_of
            qh[SS + "::getBuffer"] = chars_of
            qh[SS + "::size"] = lambda o=None, *a_: len(o[1]) if isinstance(o, tuple) and o and o[0] == "str" else DECLINE
            qh[SS + "::isEmpty"] = lambda o=None, *a_: int(not o[1]) if isinstance(o, tuple) and o and o[0] == "str" else DECLINE
            ev = Evaluator(prog, f, env=env, calls={k_: v_ for k_, v_ in qh.items() if k_ != f.qn})
            ev.pass_object = True
            ev.optional_stubs = set(ev.calls)
            ev.inline = INL5 - set(ev.calls)
            try:
                ev.run_blocks(f.entry, max_steps=6000)
                r = getattr(ev, "ret", None)
                if isinstance(r, tuple) and r and r[0] == "unknown":
                    raise Unknown(r[1])
                if isinstance(r, bool):
                    r = int(r)
                why = "" if r == oracle(ta, tb) else "folds to %s, expected %s" % (r, oracle(ta, tb))
            except Unknown as u:
                oob = [k_ for k_ in getattr(ev, "absent_reads", []) if re.match(r"^[AB]\[", k_)] or re.findall(r"(?:^|[ :])([AB]\[-?\d+\])$", str(u))
                if not oob:
                    raise AnalysisBroken("%s.%s: %s cannot be folded on (%r, %r): %s" % (run.pid, rid, name, ta, tb, u))
                why = "reads %s, outside the string (behind its terminator or before its start)" % oob[0]
            if why and bad is None:
                bad = '"%s".%s("%s"): %s' % (ta, name, tb, why)
    run.ob(rid, "%s folded on %d (string, argument) pairs over {a,b} up to length %d: %s" % (name, ncase, maxlen, text), f.site, bad is None, witness=bad or "%d pairs" % ncase, what=bad or "")


def printable_size_rule(prog, run, rid):
    """printable() against getPrintableSize(), folded for all 256 char values, pairs of class representatives and the empty string: the
    buffer is allocated with the reserved size + 1, every byte written lies inside it, the terminator sits at the reserved index and
    the escape table is indexed inside its extent. Shared with C14 (failure messages render string operands through printable())."""
    gp = prog.fn(SS + "::getPrintableSize")
    pr = prog.fn(SS + "::printable")
    run.analysed(gp)
    run.analysed(pr)
    table = [n for n in pr.walk() if n["k"] == "DeclStmt" and any("[" in d.get("ct", "") and "char" in d.get("ct", "") for d in n.get("decls", []))]
    tname = table[0]["decls"][0]["name"] if table else None
    text = prog.types.get(table[0]["decls"][0]["ct"], {}).get("extent") if table else None
    if text is None:
        raise AnalysisBroken("escape table of printable() not found")
    INL = {g.qn for g in prog.functions.values() if g.qn.startswith(SS + "::")}

    def fold_printable(chars):
        """fold getPrintableSize() and printable() on the string `chars`: reserved size, bytes written, table subscripts"""
        env = {"buffer_": ("ptr", "S", 0), "bufferSize_": len(chars) + 1, "result.buffer_": ("ptr", "R", 0)}
        for i_, c_ in enumerate(list(chars) + [0]):
            env["S[%d]" % i_] = c_
        e1 = Evaluator(prog, gp, env=env)
        e1.inline = INL
        e1.run_blocks(gp.entry, max_steps=4000)
        reserved = getattr(e1, "ret", None)
        alloc, copies, subs = [], [], []
        e2 = Evaluator(prog, pr, env=env, calls={SS + "::setInternalBufferToNewBuffer": lambda *a_: (alloc.append(a_[-1]), 0)[1],
                                                   SS + "::StrNCpy": lambda d_, s_, n_: (copies.append((d_, n_)), d_ if d_ is not None else 0)[1]})
        e2.inline = INL - set(e2.calls)
        e2.on_subscript = lambda base, idx, n_: subs.append(idx) if base == tname else None
        e2.run_blocks(pr.entry, max_steps=8000)
        direct = [(int(k[2:-1]), v) for k, v in e2.stores if k.startswith("R[")]
        return reserved, alloc, copies, direct, subs

    def judge(chars):
        reserved, alloc, copies, direct, subs = fold_printable(chars)
        if not isinstance(reserved, int):
            raise Unknown("getPrintableSize() folds to %s" % (reserved,))
        if alloc != [reserved + 1]:
            return "printable() allocates %s bytes, getPrintableSize() + 1 = %s" % (alloc, reserved + 1), reserved, None
        written = set(k for k, v in direct)
        for d_, n_ in copies:
            if not (isinstance(d_, tuple) and d_[1] == "R" and isinstance(n_, int)):
                raise Unknown("copy target %s" % (d_,))
            written |= set(range(d_[2], d_[2] + n_))
        top = max(written) if written else -1
        if top >= alloc[0]:
            return "printable() writes index %d of a %d-byte buffer (getPrintableSize() reserves %d)" % (top, alloc[0], reserved), reserved, top
        if written != set(range(0, reserved + 1)) or (reserved, 0) not in direct:
            return "printable() writes bytes %s and terminates at %s; getPrintableSize() reserves %d and the terminator belongs at that index" % (sorted(written), [k for k, v in direct if v == 0], reserved), reserved, top
        bad = [i_ for i_ in subs if not (0 <= i_ < text)]
        if bad:
            return "escape table index %s outside [0, %s)" % (bad[0], text), reserved, top
        return "", reserved, top
    for c in range(-128, 128):
        if c == 0:
            continue
        try:
            why, reserved, top = judge([c])
            ok = not why
            why = why and "char %d: %s" % (c, why)
        except Unknown as u:
            run.broke("%s.%s: " % (run.pid, rid) + "printable()/getPrintableSize() cannot be folded for char %d: %s" % (c, u))
            break
        run.ob(rid, "char value %d" % c, pr.site, ok, witness={"reserved": reserved, "last_index_written": top}, what=why)
    reps = [7, 13, 1, 31, 32, 65, 127, -1, -128]
    bad2 = None
    for c1 in reps:
        for c2 in reps:
            try:
                why, reserved, top = judge([c1, c2])
            except Unknown as u:
                run.broke("%s.%s: " % (run.pid, rid) + "cannot fold the two-char string (%d, %d): %s" % (c1, c2, u))
                why = ""
            if why and bad2 is None:
                bad2 = "chars (%d, %d): %s" % (c1, c2, why)
    run.ob(rid, "two-char strings over one representative of every class (%d pairs): the write index accumulates like the reserved size" % (len(reps) ** 2), pr.site, bad2 is None, witness=bad2 or reps, what=bad2 or "")
    try:
        why, reserved, top = judge([])
    except Unknown as u:
        why = "cannot fold: %s" % u
    run.ob(rid, "the empty string: one byte reserved, terminator at index 0", pr.site, not why, what=why)



def printable_text_rule(prog, run, rid):
    """SimpleString::printable() folded for every single byte value and for byte pairs: each byte is shown as itself, as its short
    escape, or as the hex escape of ITS OWN value, so that two different strings never share a printable form because of the escaping.
    Shared with C14 (failure messages show string operands through printable())."""
    pr = prog.fn(SS + "::printable")
    run.analysed(pr)
    INL = {g.qn for g in prog.functions.values() if g.qn.startswith(SS + "::")}
    def printable_text(chars):
        env = {"buffer_": ("ptr", "S", 0), "bufferSize_": len(chars) + 1, "result.buffer_": ("ptr", "R", 0)}
        for i_, c_ in enumerate(list(chars) + [0]):
            env["S[%d]" % i_] = c_
        sh_ = string_hooks()
        hooks = {SS + "::setInternalBufferToNewBuffer": lambda *a_: 0, "StringFromFormat": sh_["StringFromFormat"],
                 SS + "::asCharString": lambda *a_: a_[0] if a_ and isinstance(a_[0], tuple) and a_[0][0] == "str" else None}
        e2 = Evaluator(prog, pr, env=env, calls=hooks)
        e2.pass_object = True
        e2.inline = INL - set(hooks)
        e2.run_blocks(pr.entry, max_steps=8000)
        out, i_ = [], 0
        while e2.env.get("R[%d]" % i_) not in (None, 0):
            out.append(e2.env["R[%d]" % i_] & 0xFF)
            i_ += 1
        if e2.env.get("R[%d]" % i_) != 0:
            raise Unknown("the rendering is not terminated")
        return bytes(out)

    def reference(chars):
        alts = [b""]
        for c_ in chars:
            u = c_ & 0xFF
            if 7 <= u <= 13:
                opts = [("\\" + "abtnvfr"[u - 7]).encode()]
            elif u < 32 or u == 127:
                opts = [("\\x%02X" % u).encode()]
            elif u >= 128:
                opts = [bytes([u]), ("\\x%02X" % u).encode()]       # (a high byte is a control char where char is signed, a plain one where it is not)
            else:
                opts = [bytes([u])]
            alts = [a_ + o_ for a_ in alts for o_ in opts]
        return alts
    badt, nt = None, 0
    try:
        for chars in [[c_] for c_ in range(-128, 128) if c_ != 0] + [[99, -23], [99, -24], [-23, -24], [1, -1], [31, 127]]:
            nt += 1
            got = printable_text(chars)
            if got not in reference(chars) and badt is None:
                badt = "bytes %s are rendered as %r, expected %s" % ([c_ & 0xFF for c_ in chars], got.decode("latin-1"), " or ".join(repr(r_.decode("latin-1")) for r_ in reference(chars)))
    except Unknown as u:
        raise AnalysisBroken("%s.%s: the text printable() writes cannot be folded: %s" % (run.pid, rid, u))
    run.ob(rid, "printable() text folded for every single byte value and for byte pairs: each byte is shown as itself, as its short escape or as the hex escape of its own value", pr.site, badt is None,
           witness=badt or "%d strings" % nt, what="" if badt is None else "two different operands can be shown as the same text: " + badt)



def replace_rule(prog, run, rid, alphabet="ab", patterns=("", "a", "b", "aa", "ab", "ba", "bb"), replacements=("", "a", "ab", "bbb"), maxlen=4):
    """SimpleString::replace(const char*, const char*) folded over every string of the alphabet up to maxlen x patterns x
    replacements against Python's non-overlapping left-to-right replacement (shared with C16: the XML escaper is built on it)"""
    # replace(const char*, const char*): folded for every string over {a,b} up to 4 chars, 7 patterns, 4 replacements
    rp = [f for f in prog.fns(SS + "::replace") if f.params and f.params[0]["ct"] == "const char *"]
    if rp:
        rp = rp[0]
        run.analysed(rp)

        def fold_replace(s_, t_, w_):
            env = {"buffer_": ("ptr", "S", 0), "bufferSize_": len(s_) + 1, rp.params[0]["name"]: ("ptr", "T", 0), rp.params[1]["name"]: ("ptr", "W", 0)}
            for nm, st in (("S", s_), ("T", t_), ("W", w_)):
                for i_, ch in enumerate(st + "\0"):
                    env["%s[%d]" % (nm, i_)] = ord(ch)
            allocs, res = [], {}

            def alloc(n_, *a_):
                allocs.append(n_)
                return ("ptr", "N", 0)

            def setbuf(p_, n_):
                res["set"] = (p_, n_)
                return 0

            def setempty():
                res["empty"] = True
                return 0
            ev = Evaluator(prog, rp, env=env, calls={SS + "::allocStringBuffer": alloc, SS + "::setInternalBufferTo": setbuf, SS + "::setInternalBufferAsEmptyString": setempty})
            ev.inline = {g.qn for g in prog.functions.values() if g.qn.startswith(SS + "::")} - set(ev.calls)
            ev.run_blocks(rp.entry, max_steps=8000)
            st = [(int(k[2:-1]), v) for k, v in ev.stores if k.startswith("N[")]
            if not allocs and not res:
                return s_, None
            if res.get("empty"):
                return "", None
            if len(allocs) != 1 or "set" not in res:
                return None, "allocations %s, installed %s" % (allocs, res)
            if res["set"] != (("ptr", "N", 0), allocs[0]):
                return None, "allocated %d bytes, installed %s" % (allocs[0], (res["set"],))
            oob = [k for k, v in st if k >= allocs[0] or k < 0]
            if oob:
                return None, "allocated %d bytes, writes index %d" % (allocs[0], oob[0])
            mem = dict(st)
            got, i_ = "", 0
            while mem.get(i_):
                got += chr(mem[i_])
                i_ += 1
            if mem.get(i_) != 0:
                return None, "the new buffer is not NUL-terminated inside its %d bytes" % allocs[0]
            return got, None
        bad, ncase, unk = None, 0, None
        for L in range(0, maxlen + 1):
            for s_ in map("".join, itertools.product(alphabet, repeat=L)):
                for t_ in patterns:
                    for w_ in replacements:
                        ncase += 1
                        try:
                            got, err = fold_replace(s_, t_, w_)
                        except Unknown as u:
                            unk = unk or "replace(%r, %r) on %r: %s" % (t_, w_, s_, u)
                            continue
                        want = s_.replace(t_, w_) if t_ else s_
                        if bad is None and (err or got != want):
                            bad = {"string": s_, "to": t_, "with": w_, "folded": got, "expected": want, "error": err}
        if unk:
            run.broke("%s.%s: replace cannot be folded: %s" % (run.pid, rid, unk))
        run.ob(rid, "replace folded for every string over {%s} of up to %d chars x %d patterns (incl. empty, self-overlapping, repeated) x %d replacements:" % (",".join(alphabet), maxlen, len(patterns), len(replacements)) + " one allocation, every write inside it, NUL-terminated, installed with its size, content = non-overlapping left-to-right replacement; empty pattern is a no-op", rp.site, bad is None,
               witness=bad or "%d cases" % ncase, what="" if bad is None else "replace(%r, %r) on %r: %s" % (bad["to"], bad["with"], bad["string"], bad["error"] or "gives %r, expected %r" % (bad["folded"], bad["expected"])))



def substring_bound_rule(prog, run, rid):
    """every subString overload forms a pointer into the buffer at a caller-given offset only under offset < size()
    (shared with C12: the command-line slicing relies on subString being total)"""
    # every overload: a pointer into the buffer at a caller-given offset is formed only under offset < size()
    for ov in prog.fns(SS + "::subString"):
        run.analysed(ov)
        b0 = ov.params[0]["name"]
        for n in ov.walk():
            if n["k"] == "BinaryOperator" and n.get("op") == "+" and (n.get("ct") or "").endswith("*"):
                txt = rx(ov, n)
                if re.search(r"\b%s\b" % re.escape(b0), txt) and ("getBuffer()" in txt or "buffer_" in txt):
                    fa = facts_at(ov, ov.where_enclosing(n), subst=True)
                    okp = ("(%s < size())" % b0, True) in fa
                    run.ob(rid, "subString(%s) forms %s only when %s < size()" % (", ".join(q["ct"] for q in ov.params), txt, b0), ov.site, okp, witness=sorted("%s%s" % ("" if v else "!", k) for k, v in fa),
                           what="" if okp else "a start position at or beyond the end reads outside the buffer (an empty string has size 0)")


def size_ge1(prog, f, n, depth=4):
    """why the size expression n of function f is at least 1, or None: a sum with a literal >= 1, a literal >= 1, bufferSize_ of a live
    string (>= 1 by R1), or a parameter / single-assignment local all of whose sources are (call sites are followed `depth` levels)"""
    o = f.strip(n)
    if o is None or depth < 0:
        return None
    k = o["k"]
    if k == "IntegerLiteral":
        return "literal %s" % o["v"] if int(o["v"]) >= 1 else None
    if k == "BinaryOperator" and o.get("op") == "+":
        for side in (f.node(o["lhs"]), f.node(o["rhs"])):
            t = f.strip(side)
            if t is not None and t["k"] == "IntegerLiteral" and int(t["v"]) >= 1:
                return "a length plus %s" % t["v"]
        for side in (f.node(o["lhs"]), f.node(o["rhs"])):
            w = size_ge1(prog, f, side, depth - 1)
            if w:
                return "a sum with " + w
        return None
    if k == "MemberExpr" and o.get("name") == "bufferSize_":
        return "bufferSize_ of a live string (>= 1 by R1)"
    if k == "ParenExpr":
        return size_ge1(prog, f, o["c"][0], depth)
    if k == "DeclRefExpr":
        si = f.single_inits()
        if o.get("did") in si:
            return size_ge1(prog, f, si[o["did"]], depth - 1)
        idx = [i for i, q in enumerate(f.params) if q["name"] == o.get("name")]
        if idx:
            # (a parameter that the function itself re-assigns is not followed)
            for x in f.walk():
                if x["k"] in ("BinaryOperator", "CompoundAssignOperator") and x.get("op", "").endswith("=") and x["op"] not in ("==", "!=", "<=", ">="):
                    t = f.strip(f.node(x["lhs"]))
                    if t is not None and t["k"] == "DeclRefExpr" and t.get("name") == o["name"]:
                        return None
            sites = []
            for g in prog.functions.values():
                for c in g.calls():
                    cc = c.get("callee")
                    if cc and cc.get("mn") == f.mn:
                        sites.append((g, c))
            if not sites:
                return None
            for g, c in sites:
                if g.mn == f.mn:
                    continue
                a = g.args(c)
                if len(a) <= idx[0] or not size_ge1(prog, g, a[idx[0]], depth - 1):
                    return None
            return "parameter %s: each of the %d call sites of %s passes a size >= 1" % (o["name"], len(sites), f.qn)
    return None


def buffer_family_rule(prog, run, rid, family):
    """the functions that own buffer_/bufferSize_, folded whole from a string that owns a buffer and from one that owns none (allocation,
    release and copy primitives are recording stubs): the old buffer is released exactly once with its recorded size, the string ends up
    owning exactly one buffer whose allocated size is the recorded size, nothing allocated on the way is lost, and the new buffer is
    terminated inside its extent"""
    INL = {g.qn for g in prog.functions.values() if g.qn.startswith(SS + "::")}
    names = sorted({q.split("::")[-1] for q in family} - {SS})

    def fold(f, old, args):
        log = {"alloc": [], "free": [], "copy": [], "install": []}
        ctr = [5000]

        def alloc(n, *a_):
            ctr[0] += 100
            log["alloc"].append((ctr[0], n))
            return ctr[0]
        env = {"buffer_": old[0], "bufferSize_": old[1]}
        env.update(args)
        ev = Evaluator(prog, f, env=env, calls={
            SS + "::allocStringBuffer": alloc,
            SS + "::deallocStringBuffer": lambda p_, n, *a_: log["free"].append((p_, n)),
            SS + "::StrNCpy": lambda d, s_, n: (log["copy"].append((d, s_, n)), d)[1],
            SS + "::StrLen": lambda s_: 5,
            SS + "::size": lambda *a_: 5,
            SS + "::getBuffer": lambda *a_: 777})
        ev.heap_mode = True
        ev.inline = INL - set(ev.calls)
        ev.optional_stubs = set(ev.calls)
        ev.run_blocks(f.entry, max_steps=600)
        skipped = [t for t in ev.trace if t[0] == "call" and str(t[1]).startswith(SS + "::") and t[1] not in ev.calls]
        if skipped:
            raise Unknown("call of %s was not folded" % skipped[0][1])
        zero = sorted(k_ for k_, v_ in ev.stores if k_.startswith("@") and "[" in k_ and v_ == 0)
        return log, (ev.env.get("buffer_"), ev.env.get("bufferSize_")), zero, getattr(ev, "ret", None)

    nfold = 0
    for f in sorted(prog.functions.values(), key=lambda g: (g.qn, len(g.params), g.params[0]["ct"] if g.params else "")):
        if f.cls != SS or f.name not in names or not f.file.startswith(("src/", "include/")):
            continue
        run.analysed(f)
        sig = ", ".join(q["ct"] for q in f.params)
        args, size, ext = {}, None, None
        for q in f.params:
            ct = q["ct"].replace(" ", "")
            if ct == "char*":
                args[q["name"]], ext = 8000, 8000
            elif ct == "constchar*":
                args[q["name"]] = 777
            elif ct in ("size_t", "unsignedlong", "unsignedint", "unsignedlonglong"):
                args[q["name"]], size = 13, 13
            elif ct.startswith("constSimpleString&"):
                args[q["name"] + ".buffer_"], args[q["name"] + ".bufferSize_"] = 777, 6
            else:
                raise AnalysisBroken("%s.%s: %s(%s): unexpected parameter type" % (run.pid, rid, f.name, sig))
        want_size = 1 if f.name == "setInternalBufferAsEmptyString" else size if size is not None else 6
        for old in ((9000, 7), (0, 0)):
            nfold += 1
            try:
                log, fin, zero, _ = fold(f, old, args)
            except Unknown as u:
                raise AnalysisBroken("%s.%s: %s(%s) cannot be folded: %s" % (run.pid, rid, f.name, sig, u))
            why = ""
            wf = [old] if old[0] else []
            if log["free"] != wf:
                why = "releases %s (expected: %s)" % (log["free"], wf or "nothing, the string owns no buffer")
            elif f.name == "deallocateInternalBuffer":
                if fin != (0, 0) or log["alloc"]:
                    why = "leaves (buffer, size) = %s behind (expected: none, 0)" % (fin,)
            elif ext is not None:
                if fin != (ext, size) or log["alloc"]:
                    why = "records (buffer, size) = %s for the buffer %d of %d bytes it was given" % (fin, ext, size)
            else:
                al = dict(log["alloc"])
                if len(log["alloc"]) != 1:
                    why = "%d allocations (expected one): a buffer is lost or the string owns none" % len(log["alloc"])
                elif fin[0] not in al:
                    why = "ends up with buffer %s, which was not allocated here" % (fin[0],)
                elif al[fin[0]] != fin[1]:
                    why = "records size %s for a buffer allocated with %s: it would be released with the wrong size" % (fin[1], al[fin[0]])
                elif fin[1] != want_size:
                    why = "allocates %s bytes (expected %s)" % (fin[1], want_size)
                elif f.name.startswith("copyBuffer") and log["copy"] != [(fin[0], 777, want_size)]:
                    why = "copies %s (expected: %d bytes of the source into the new buffer)" % (log["copy"], want_size)
                elif "@%d[%d]" % (fin[0], want_size - 1 if f.name.startswith("copyBuffer") else 0) not in zero:
                    why = "the new buffer is not terminated (zero stores: %s)" % zero
            run.ob(rid, "%s(%s) from a string that owns %s: the old buffer is released once with its recorded size; the recorded size is the allocated size of the one buffer owned afterwards" % (f.name, sig, "a 7-byte buffer" if old[0] else "no buffer"),
                   f.site, not why, witness={"log": {k_: v_ for k_, v_ in log.items() if v_}, "final": fin}, what=why)
    if nfold < 10:
        raise AnalysisBroken("%s.%s: only %d folds of the internal-buffer family (%s)" % (run.pid, rid, nfold, ", ".join(names)))
    # the two allocating helpers on their own
    for nm, args, want in (("getEmptyString", {}, 1), ("copyToNewBuffer", None, 13)):
        g = prog.fn(SS + "::" + nm)
        run.analysed(g)
        if args is None:
            args = {g.params[0]["name"]: 777, g.params[1]["name"]: 13}
        try:
            log, fin, zero, ret = fold(g, (9000, 7), args)
        except Unknown as u:
            raise AnalysisBroken("%s.%s: %s cannot be folded: %s" % (run.pid, rid, nm, u))
        ok = len(log["alloc"]) == 1 and log["alloc"][0][1] == want and ret == log["alloc"][0][0] and "@%d[%d]" % (log["alloc"][0][0], want - 1) in zero and not log["free"]
        ok = ok and (nm != "copyToNewBuffer" or log["copy"] == [(ret, 777, 13)])
        run.ob(rid, "%s allocates exactly %s, terminates the buffer at its last byte and returns it" % (nm, "1 byte" if want == 1 else "the size it is given"), g.site, ok, witness={"log": log, "returns": ret, "zero": zero})
    # callers outside the family that install a buffer they built themselves
    for f in prog.functions.values():
        if not f.file.startswith(("src/", "include/")) or f.qn in family:
            continue
        if not any((prog.callee_name(f, c) or "") == SS + "::setInternalBufferTo" for c in f.calls()):
            continue
        run.analysed(f)
        if f.qn == SS + "::replace":
            run.ob(rid, "%s installs a buffer it allocated with the installed size (decided by the replace fold of R2 on every bounded case)" % f.qn, f.site, True)
            continue
        inst = []
        log = {"alloc": []}
        ctr = [5000]

        def alloc(n, *a_):
            ctr[0] += 100
            log["alloc"].append((ctr[0], n))
            return ctr[0]
        env = {"buffer_": 9000, "bufferSize_": 4}
        for q in f.params:
            env[q["name"]] = 777
        ev = Evaluator(prog, f, env=env, calls={
            SS + "::allocStringBuffer": alloc, SS + "::deallocStringBuffer": lambda *a_: None,
            SS + "::StrNCpy": lambda d, *a_: d, SS + "::StrLen": lambda s_: 5, SS + "::size": lambda *a_: 3, SS + "::getBuffer": lambda *a_: 9000,
            SS + "::setInternalBufferTo": lambda b_, n: inst.append((b_, n))})
        ev.heap_mode = True
        ev.inline = INL - set(ev.calls) - family
        ev.optional_stubs = set(ev.calls)
        try:
            ev.run_blocks(f.entry, max_steps=600)
        except Unknown as u:
            raise AnalysisBroken("%s.%s: %s cannot be folded: %s" % (run.pid, rid, f.qn, u))
        al = dict(log["alloc"])
        ok = len(inst) == 1 and inst[0][0] in al and al[inst[0][0]] == inst[0][1] and len(al) == 1
        run.ob(rid, "%s hands setInternalBufferTo the one buffer it allocated, with the size it was allocated with" % f.qn, f.site, ok, witness={"allocated": log["alloc"], "installed": inst},
               what="" if ok else "the recorded size differs from the allocated size: the buffer would be released with the wrong size")



def check(ctx, run):
    prog = ctx.program()
    DEEP = 1 if ctx.thorough else 0      # thorough tier: one more character in every folded string domain
    if DEEP:
        run.configs.append("thorough: folded string domains one character longer (replace up to 5 chars, primitives up to 3/4)")
    run.assume("char is signed 8-bit on the analysed target; the string allocator returns blocks of at least the requested size")
    run.not_decided.append("that every operation returns the result of its textbook definition for ALL byte strings and positions (functional correctness over unbounded data); decided: ownership/size pairing of every buffer, absence of unsigned wrap in every index/length computation, agreement of the printable size pre-computation with the writer for every char value, bounded copies, NUL-bounded scans, classifier tables")
    run.rule("R1", "buffer ownership and size pairing: buffer_/bufferSize_ written only by the internal-buffer family, each pairing size N with a buffer allocated with N; every setter releases the old buffer first with its recorded size; setInternalBufferTo receives buffers allocated with the same size variable; formatted construction allocates and frees with one variable", floor=14)
    run.rule("R2", "unsigned-underflow guard: every size_t subtraction in the anchored units is dominated by a fact that excludes wrap, matches a structural clause whose reason is checked (split part, findFrom result minus its start, clamped subString amount, copyToNewBuffer size), or is a frozen exception; replace(const char*, const char*) is folded over every bounded case against non-overlapping left-to-right replacement", floor=10)
    run.rule("R3", "printable size agreement folded for all 256 char values: bytes written per char by printable() = 1 + size increment in getPrintableSize(), copy lengths equal the index advance, escape table index inside its extent", floor=256, exhaustive=True)
    run.rule("R4", "bounded copies folded over the (buffer size, string size) lattice: copyToBuffer writes [0, min(size, bufferSize-1)] and terminates there; copyToNewBuffer is always called with a size >= 1; subString truncates inside its own string", floor=20)
    run.rule("R5", "C-string primitives folded on every small string (bytes behind the terminator are absent, so a read past NUL cannot be folded and is reported): StrCmp, StrNCmp, StrLen, StrStr, StrNCpy, AtoI, AtoU, MemCmp, findFrom agree with their textbook definition on the bounded domain and read/write inside the buffers only", floor=9, exhaustive=True)
    run.rule("R6", "VStringFromFormat folded per vsnprintf result (0, 1, extent-1, extent, extent+1, 4*extent, INT_MAX): below the stack buffer's extent only that buffer is used, bounded by its extent; otherwise result+1 bytes are allocated, formatted into with that bound, and released with that size", floor=3)
    run.rule("R7", "character classifiers folded for all 256 char values against their tables", floor=4, exhaustive=True)

    # ---------------- R1 ----------------------------------------------------
    FAMILY = {SS + "::deallocateInternalBuffer", SS + "::setInternalBufferAsEmptyString", SS + "::copyBufferToNewInternalBuffer", SS + "::setInternalBufferToNewBuffer", SS + "::setInternalBufferTo", SS + "::" + SS}
    for fld in ("buffer_", "bufferSize_"):
        ws = set()
        for f, n in field_writers(prog, SS + "::" + fld):
            if "k" in n and n.get("lhs") is not None and "[" in render(f, f.node(n["lhs"])):
                continue    # content write buffer_[i] = ...
            ws.add(f.qn)
        run.ob("R1", "%s is (re)assigned only by the internal-buffer family" % fld, "include/CppUTest/SimpleString.h:%s::%s" % (SS, fld), ws <= FAMILY, witness=sorted(ws))
    buffer_family_rule(prog, run, "R1", FAMILY)
    ds = prog.fn(SS + "::~" + SS)
    cs = [(prog.callee_name(ds, c) or "") for c in ds.calls()]
    run.ob("R1", "the destructor releases the buffer once", ds.site, cs.count(SS + "::deallocateInternalBuffer") == 1, witness=cs)
    vf = prog.fn("VStringFromFormat")
    run.analysed(vf)

    def fold_format(r_):
        """fold VStringFromFormat with the first vsnprintf returning r_: the calls it makes, in order, with folded arguments"""
        seq = []
        ev = Evaluator(prog, vf, env={}, calls={
            "PlatformSpecificVSNprintf": lambda *a_: (seq.append(("vsnprintf", a_)), r_)[1],
            SS + "::allocStringBuffer": lambda *a_: (seq.append(("alloc", a_)), ("ptr", "H", 0))[1],
            SS + "::deallocStringBuffer": lambda *a_: (seq.append(("free", a_)), 0)[1]})
        ev.run_blocks(vf.entry, max_steps=400)
        nodes = [n_ for nm_, a_, n_ in ev.trace if nm_ == "PlatformSpecificVSNprintf"]
        return seq, nodes
    first = [c for c in vf.calls() if (prog.callee_name(vf, c) or "") == "PlatformSpecificVSNprintf"]
    extent = None
    if first:
        a0 = vf.strip(vf.args(first[0])[0])
        extent = (prog.types.get(a0.get("ct", ""), {}) or {}).get("extent") if a0 is not None else None
    fmt_bad, fmt_free_bad, fmt_cases = None, None, []
    if extent is None:
        run.broke("C13: the stack buffer handed to the first vsnprintf of VStringFromFormat was not found")
    else:
        for r_ in sorted({0, 1, extent - 1, extent, extent + 1, 4 * extent, (1 << 31) - 1}):
            try:
                seq, nodes = fold_format(r_)
            except Unknown as u:
                run.broke("C13: VStringFromFormat cannot be folded for a vsnprintf result of %d: %s" % (r_, u))
                break
            fmt_cases.append(r_)
            kinds = [k for k, a_ in seq]
            if r_ < extent:
                okc = kinds == ["vsnprintf"] and seq[0][1][1] == extent
                why = "a result of %d fits the %d-byte stack buffer: expected one vsnprintf bounded by %d and no allocation, folded %s" % (r_, extent, extent, [(k, a_[:2]) for k, a_ in seq])
            else:
                okc = kinds == ["vsnprintf", "alloc", "vsnprintf", "free"] and seq[0][1][1] == extent and seq[1][1][0] == r_ + 1 and seq[2][1][1] == r_ + 1 and isinstance(seq[2][1][0], tuple) and seq[2][1][0] == ("ptr", "H", 0)
                why = "a result of %d does not fit the %d-byte stack buffer: expected a second vsnprintf into a fresh buffer of %d bytes, folded %s" % (r_, extent, r_ + 1, [(k, a_[:2]) for k, a_ in seq])
                if okc and not (seq[3][1][0] == seq[2][1][0] and seq[3][1][1] == r_ + 1) and fmt_free_bad is None:
                    fmt_free_bad = "for a result of %d the buffer of %d bytes is released as %s" % (r_, r_ + 1, (seq[3][1][:2],))
            if not okc and fmt_bad is None:
                fmt_bad = why
    run.ob("R1", "VStringFromFormat releases its temporary buffer with the size it was allocated with (folded per vsnprintf result)", vf.site, fmt_free_bad is None and fmt_bad is None, witness=fmt_free_bad or fmt_bad or {"results": fmt_cases},
           what=fmt_free_bad or fmt_bad or "")

    # ---------------- R2 ----------------------------------------------------
    def origin_node(f, n, depth=6):
        n = f.strip(n)
        while n is not None and depth > 0 and n["k"] == "DeclRefExpr" and n.get("dk") == "Var":
            init = f.single_inits().get(n.get("did"))
            if init is None:
                break
            n = f.strip(init)
            depth -= 1
        return n

    def local_names(f):
        names = [q["name"] for q in f.params]
        for n in f.walk():
            if n["k"] == "DeclStmt":
                names += [d["name"] for d in n.get("decls", [])]
        return set(names)

    def akey(f, n):
        txt = rx(f, n)
        loc = local_names(f)
        seen = {}

        def sub(m):
            w = m.group(0)
            if w in loc:
                return seen.setdefault(w, "v%d" % len(seen))
            return w
        return re.sub(r"(?<![\w\"%.>])[A-Za-z_]\w*(?!\w*\()", sub, txt)

    def size_receiver(f, n):
        """origin node of X when n originates from X.size() (SimpleString or collection), else None"""
        o = origin_node(f, n)
        if o is not None and o["k"] == "CXXMemberCallExpr" and (prog.callee_name(f, o) or "").endswith("::size") and o.get("obj") is not None:
            return f.node(o["obj"])
        return None

    def wraps_excluded(f, n):
        ln, rn = f.node(n["lhs"]), f.node(n["rhs"])
        a, b = render(f, ln), render(f, rn)
        bc = const_value(f, rn)
        facts = facts_at(f, f.where_enclosing(n))
        if ("(%s < %s)" % (a, b), False) in facts or ("(%s < %s)" % (b, a), True) in facts or ("(%s == %s)" % tuple(sorted((a, b))), True) in facts:
            return "dominated by %s >= %s" % (a, b)
        if bc is not None:
            for k, v in facts:
                if k == a and v and bc <= 1:
                    return "dominated by %s != 0" % a
                m = re.match(r"^\((\d+) < %s\)$" % re.escape(a), k)
                if m and v and int(m.group(1)) + 1 >= bc:
                    return "dominated by %s > %s" % (a, m.group(1))
                m = re.match(r"^\(%s < (\d+)\)$" % re.escape(a), k)
                if m and not v and int(m.group(1)) >= bc:
                    return "dominated by %s >= %s" % (a, m.group(1))
            if bc == 1:
                for k, v in facts:
                    m = re.match(r"^\((.+) < %s\)$" % re.escape(a), k)
                    if m and v:
                        return "dominated by %s < %s (so %s >= 1)" % (m.group(1), a, a)
            # X.size() - 1 under X.endsWith(non-empty literal)
            m = re.match(r"^(\w+)\.size\(\)$", a)
            if m and bc == 1:
                for k, v in facts:
                    if v and k.startswith("%s.endsWith(" % m.group(1)) and '""' not in k:
                        return "dominated by %s ends with a non-empty literal" % m.group(1)
            recv = size_receiver(f, ln)
            if recv is not None and bc == 1:
                # part k of a collection filled by split(non-empty literal): every part but the last ends with the delimiter
                ro = origin_node(f, recv)
                if ro is not None and ro["k"] == "CXXOperatorCallExpr" and len(f.args(ro)) == 2:
                    coll, idx = render(f, f.args(ro)[0]), const_value(f, f.args(ro)[1])
                    filled = [c for c in f.calls() if (prog.callee_name(f, c) or "") == SS + "::split" and len(f.args(c)) == 2 and render(f, f.args(c)[1]) == coll
                              and re.match(r'^(SimpleString\()?"[^"]+"\)?$', render(f, f.args(c)[0]))]
                    count = [int(m2.group(1)) for k, v in facts for m2 in [re.match(r"^\((\d+) == %s\.size\(\)\)$" % re.escape(coll), k)] if m2 and v]
                    if filled and idx is not None and count and idx < count[0] - 1:
                        return "%s was filled by split(%s) and has %d parts (dominating fact): part %d is not the last one, so it ends with the delimiter" % (coll, render(f, f.args(filled[0])[0]), count[0], idx)
                # the amount of X.subString(0, X.size() - 1): a wrapped amount clamps nothing and the empty string stays empty
                uses = [n]
                for did, init in f.single_inits().items():
                    if f.strip(init) is f.strip(n):
                        uses = [x for x in f.walk() if x["k"] == "DeclRefExpr" and x.get("did") == did]

                def is_amount(u):
                    par = next((x for x in f.ancestors(u) if x["k"] not in TRANSPARENT and x["k"] not in CAST_KINDS), None)
                    return par is not None and par["k"] == "CXXMemberCallExpr" and (prog.callee_name(f, par) or "") == SS + "::subString" and len(f.args(par)) == 2 \
                        and const_value(f, f.args(par)[0]) == 0 and f.strip(f.args(par)[1]) is f.strip(u) and rx(f, f.node(par["obj"])) == rx(f, recv)
                if uses and all(is_amount(u) for u in uses):
                    return "only the `amount` of %s.subString(0, amount): subString clamps the amount to the string, the empty string stays empty" % render(f, recv)
            # parameter of copyToNewBuffer minus one: every call site passes a size >= 1 (R4)
            lo = f.strip(ln)
            if f.qn == SS + "::copyToNewBuffer" and bc == 1 and lo is not None and lo["k"] == "DeclRefExpr" and len(f.params) == 2 and lo.get("name") == f.params[1]["name"]:
                return "size parameter of copyToNewBuffer: every caller passes a size >= 1 (each call site is checked in R4)"
        # findFrom(p, c) - p under result != npos: findFrom returns an index >= its start (checked structurally in R5)
        lo = origin_node(f, ln)
        if lo is not None and lo["k"] == "CXXMemberCallExpr" and (prog.callee_name(f, lo) or "") == SS + "::findFrom" and f.args(lo):
            if rx(f, f.args(lo)[0]) == rx(f, rn) and (("(%s == npos)" % a, False) in facts or ("(npos == %s)" % a, False) in facts or ("(%s == SimpleString::npos)" % a, False) in facts):
                return "%s = findFrom(%s, ...) is not npos (dominating fact), and findFrom only counts upwards from its start (R5)" % (a, b)
        if f.qn == SS + "::replace" and f.params and f.params[0]["ct"] == "const char *":
            return "the size arithmetic of replace is decided by folding (below): the allocated size equals the bytes written for every bounded case"
        return None
    # the subtractions of the reference tree (alpha-normalised origin forms, frozen by CPV_FREEZE_C13=1 ./check C13): one of THOSE
    # losing its justification is a violation (a guard was dropped); a subtraction the reference tree does not have is new code whose
    # safety this syntactic rule cannot judge - it says so (the folds of R3-R5 decide the functions they cover)
    import json as _json, os as _os
    subs_path = _os.path.join(_os.path.dirname(_os.path.abspath(__file__)), "c13_subtractions.json")
    freeze_subs = bool(_os.environ.get("CPV_FREEZE_C13"))
    known_subs = None if freeze_subs or not _os.path.exists(subs_path) else {tuple(x) for x in _json.load(open(subs_path))}
    seen_subs = []

    def induction_clause(f, n):
        """i - c with i a local that starts at a constant >= c and is only ever incremented"""
        ln, rn = f.strip(f.node(n["lhs"])), f.node(n["rhs"])
        c_ = const_value(f, rn)
        if c_ is None or ln is None or ln["k"] != "DeclRefExpr" or ln.get("dk") != "Var":
            return None
        did = ln.get("did")
        init = None
        for x in f.walk():
            if x["k"] == "DeclStmt":
                for d in x.get("decls", []):
                    if d.get("did") == did and d.get("init") is not None:
                        init = const_value(f, f.node(d["init"]) if isinstance(d["init"], int) else d["init"])
        if init is None or init < c_:
            return None
        for x in f.walk():
            tgt = None
            if x["k"] == "UnaryOperator" and x.get("op") in ("++", "--"):
                tgt = f.strip(x["c"][0])
                if tgt is not None and tgt.get("did") == did and x.get("op") == "--":
                    return None
            elif x["k"] in ("BinaryOperator", "CompoundAssignOperator") and x.get("op") in ("=", "+=", "-=", "*=", "/=", "%=", "<<=", ">>=", "&=", "|=", "^="):
                tgt = f.strip(f.node(x["lhs"]))
                if tgt is not None and tgt["k"] == "DeclRefExpr" and tgt.get("did") == did:
                    if not (x.get("op") == "+=" and (const_value(f, f.node(x["rhs"])) or -1) >= 0):
                        return None
            elif x["k"] == "UnaryOperator" and x.get("op") == "&":
                tgt = f.strip(x["c"][0])
                if tgt is not None and tgt["k"] == "DeclRefExpr" and tgt.get("did") == did:
                    return None
        return "%s starts at %d and is only incremented, so it is >= %d" % (ln.get("name"), init, c_)
    nsub = 0
    for f in sorted(prog.functions.values(), key=lambda x: (x.file, x.line)):
        if f.file not in UNDERFLOW_UNITS:
            continue
        for n in f.walk():
            if n["k"] == "BinaryOperator" and n.get("op") == "-" and n.get("ct") in ("unsigned long", "unsigned int"):
                nsub += 1
                run.analysed(f)
                txt = render(f, n)
                seen_subs.append((f.qn, akey(f, n)))
                why = wraps_excluded(f, n) or induction_clause(f, n)
                if why:
                    run.ob("R2", "%s: %s" % (f.qn, txt), f.site, True, witness=why)
                elif (f.qn, akey(f, n)) in UNDERFLOW_EXC:
                    run.ob("R2", "%s: %s (frozen exception)" % (f.qn, txt), f.site, True, witness=UNDERFLOW_EXC[(f.qn, akey(f, n))])
                elif known_subs is not None and (f.qn, akey(f, n)) not in known_subs:
                    run.broke("C13.R2: %s has a size_t subtraction the reference tree does not have, %s, and no dominating fact or structural clause excludes wrap-around: this rule cannot judge new arithmetic" % (f.qn, txt))
                else:
                    run.ob("R2", "%s: %s" % (f.qn, txt), f.site, False, witness={"facts": sorted("%s%s" % ("" if v else "!", k) for k, v in facts_at(f, f.where_enclosing(n))), "origin": akey(f, n)},
                           what="unsigned subtraction without a dominating fact that excludes wrap-around; the result is used as an index, length or bound")
    if freeze_subs:
        _json.dump(sorted(set(seen_subs)), open(subs_path, "w"), indent=0)
    replace_rule(prog, run, "R2", maxlen=4 + DEEP)

    # ---------------- R3 ----------------------------------------------------
    printable_size_rule(prog, run, "R3")
    printable_text_rule(prog, run, "R3")

    # ---------------- R4 ----------------------------------------------------
    cb = prog.fn(SS + "::copyToBuffer")
    run.analysed(cb)
    bp_, bs_ = cb.params[0]["name"], cb.params[1]["name"]
    for bsz, ssz in itertools.product((0, 1, 2, 5, 100), (0, 1, 4, 5, 6, 200)):
        ev = Evaluator(prog, cb, env={bp_: 4242, bs_: bsz})
        ev.heap_mode = True
        cp = []
        ev.calls[SS + "::size"] = lambda ssz=ssz: ssz
        ev.calls[SS + "::getBuffer"] = lambda: 777
        ev.calls[SS + "::StrNCpy"] = lambda d, s, n, cp=cp: (cp.append((d, n)), d)[1]
        try:
            ev.run_blocks(cb.entry, max_steps=200)
            stores = [(k, v) for k, v in ev.stores if k.startswith("@4242[")]
            wr = list(getattr(ev, "wraps", []))
            want = min(ssz, bsz - 1) if bsz else None
            if bsz == 0:
                ok = not cp and not stores
            else:
                ok = cp == [(4242, want)] and stores == [("@4242[%d]" % want, 0)] and not wr
            why = "" if ok else "copies %s and terminates at %s for a %d-byte buffer and a %d-char string" % (cp, stores, bsz, ssz)
        except Unknown as u:
            ok, why = False, "cannot fold: %s" % u
        run.ob("R4", "copyToBuffer(bufferSize=%d) of a %d-char string" % (bsz, ssz), cb.site, ok, what=why)
    for f in prog.functions.values():
        if not f.file.startswith(("src/", "include/")):
            continue
        for c in f.calls():
            if (prog.callee_name(f, c) or "") == SS + "::copyToNewBuffer":
                a = f.args(c)[1]
                why = size_ge1(prog, f, a)
                run.ob("R4", "%s calls copyToNewBuffer with a size >= 1 (%s)" % (f.qn, render(f, a)), f.site, why is not None, witness=why or rx(f, a),
                       what="" if why else "copyToNewBuffer writes the terminator at bufferSize-1: a size of 0 writes before the buffer")
    # subString(begin, amount) folded with the new string object modelled (its buffer comes from the allocation stub): the text is the
    # textbook slice, the buffer is sized for it, every write stays inside it and nothing is read outside the source
    sub = [f for f in prog.fns(SS + "::subString") if len(f.params) == 2][0]
    run.analysed(sub)
    SINL = {g.qn for g in prog.functions.values() if g.qn.startswith(SS + "::")}
    bad, ncase = None, 0
    NPOS = (1 << 64) - 1
    for text in ("", "a", "ab", "abc"):
        for b_ in (0, 1, 2, 3, 4, NPOS):
            for am in (0, 1, 2, 3, 5, NPOS):
                ncase += 1
                env = {"buffer_": ("ptr", "A", 0), "bufferSize_": len(text) + 1, sub.params[0]["name"]: b_, sub.params[1]["name"]: am}
                for i_, ch in enumerate(text + "\0"):
                    env["A[%d]" % i_] = ord(ch)
                allocs = []
                ev = Evaluator(prog, sub, env=env, calls={SS + "::allocStringBuffer": lambda n_, *a_: (allocs.append(n_), ("ptr", "N%d" % len(allocs), 0))[1], SS + "::deallocStringBuffer": lambda *a_: 0})
                ev.objects = True
                ev.inline = SINL - set(ev.calls)
                want = text[b_:b_ + am] if b_ < len(text) else ""
                why = ""
                try:
                    ev.run_blocks(sub.entry, max_steps=8000)
                    oob = [k_ for k_ in getattr(ev, "absent_reads", []) if re.match(r"^A\[", k_)]
                    if oob:
                        why = "reads %s, outside the string" % oob[0]
                    elif not allocs:
                        r = getattr(ev, "ret", None)
                        if not (isinstance(r, tuple) and r[0] == "str" and r[1] == want):
                            why = "answers %s without building a string, the slice is %r" % (r, want)
                    else:
                        st = [(k_, v_) for k_, v_ in ev.stores if re.match(r"^N1\[", k_)]
                        outside = [k_ for k_, v_ in st if not (0 <= int(k_[3:-1]) < allocs[0])]
                        got, i_ = "", 0
                        while ev.env.get("N1[%d]" % i_) not in (None, 0):
                            got += chr(ev.env["N1[%d]" % i_] & 0xFF)
                            i_ += 1
                        if outside:
                            why = "writes %s of a buffer of %d bytes" % (outside[0], allocs[0])
                        elif ev.env.get("N1[%d]" % i_) != 0 or got != want:
                            why = "builds %r, the slice is %r" % (got, want)
                except Unknown as u:
                    oob = [k_ for k_ in getattr(ev, "absent_reads", []) if re.match(r"^A\[", k_)]
                    if not oob:
                        raise AnalysisBroken("C13.R4: subString cannot be folded on (%r, %d, %d): %s" % (text, b_, am, u))
                    why = "reads %s, outside the string" % oob[0]
                if why and bad is None:
                    bad = "%r.subString(%d, %d): %s" % (text, b_, am, why)
    run.ob("R4", "subString(begin, amount) folded on %d (string, begin, amount) cases incl. positions at and beyond the end and npos: the textbook slice, written inside a buffer sized for it, nothing read outside the source" % ncase,
           sub.site, bad is None, witness=bad or "%d cases" % ncase, what=bad or "")
    substring_bound_rule(prog, run, "R4")

    # ---------------- R5 ----------------------------------------------------
    INL5 = {g.qn for g in prog.functions.values() if g.qn.startswith(SS + "::")}
    HI = -23    # a char with the top bit set (0xE9): comparisons must be unsigned
    ALPHA = (97, 98, HI)

    def strings(maxlen, alpha=ALPHA):
        for L in range(maxlen + 1):
            for t in itertools.product(alpha, repeat=L):
                yield list(t)

    def put(env, base, vals):
        """a NUL-terminated string at `base`; bytes behind the terminator are absent: reading them cannot be folded"""
        for i_, v_ in enumerate(list(vals) + [0]):
            env["%s[%d]" % (base, i_)] = v_

    def sgn(x):
        return (x > 0) - (x < 0)

    def ub(v):
        return v & 0xFF

    def fold_prim(f, env, max_steps=3000):
        ev = Evaluator(prog, f, env=env)
        ev.inline = INL5
        ev.run_blocks(f.entry, max_steps=max_steps)
        r = getattr(ev, "ret", None)
        if isinstance(r, tuple) and r and r[0] == "unknown":
            raise Unknown(r[1])
        return r, ev

    def prim_rule(name, cases, text):
        """cases: iterable of (description, env, oracle(ret, ev) -> '' or complaint)"""
        f = prog.fn(SS + "::" + name)
        run.analysed(f)
        bad, ncase = None, 0
        for desc, env, oracle in cases(f):
            ncase += 1
            try:
                r, ev = fold_prim(f, env)
                why = oracle(r, ev)
            except Unknown as u:
                oob = re.search(r"(?:^|[ :])([A-Z]\[-?\d+\])$", str(u))
                if oob:
                    why = "reads %s, outside the string (behind its terminator or before its start)" % oob.group(1)
                else:
                    run.broke("C13.R5: %s cannot be folded for %s: %s" % (name, desc, u))
                    return
            if why and bad is None:
                bad = "%s(%s): %s" % (name, desc, why)
        run.ob("R5", "%s folded on %d cases: %s" % (name, ncase, text), f.site, bad is None, witness=bad or "%d cases" % ncase, what=bad or "")

    def show(v):
        return "".join(chr(ub(c)) if 32 <= ub(c) < 127 else "\\x%02X" % ub(c) for c in v)

    def cmp_cases(f):
        for a_ in strings(2 + DEEP):
            for b_ in strings(2 + DEEP):
                env = {f.params[0]["name"]: ("ptr", "A", 0), f.params[1]["name"]: ("ptr", "B", 0)}
                put(env, "A", a_)
                put(env, "B", b_)
                want = sgn(([ub(x) for x in a_] > [ub(x) for x in b_]) - ([ub(x) for x in a_] < [ub(x) for x in b_]))
                yield '"%s", "%s"' % (show(a_), show(b_)), env, (lambda r, ev, want=want: "" if isinstance(r, int) and sgn(r) == want else "folds to %s, expected sign %d" % (r, want))
    prim_rule("StrCmp", cmp_cases, "reads stop at the first NUL, sign = comparison of the first differing bytes as unsigned char")

    def ncmp_cases(f):
        for a_ in strings(2 + DEEP):
            for b_ in strings(2 + DEEP):
                for n_ in (0, 1, 2, 3):
                    env = {f.params[0]["name"]: ("ptr", "A", 0), f.params[1]["name"]: ("ptr", "B", 0), f.params[2]["name"]: n_}
                    put(env, "A", a_)
                    put(env, "B", b_)
                    ua, ub_ = [ub(x) for x in a_][:n_], [ub(x) for x in b_][:n_]
                    want = (ua > ub_) - (ua < ub_)
                    yield '"%s", "%s", %d' % (show(a_), show(b_), n_), env, (lambda r, ev, want=want: "" if isinstance(r, int) and sgn(r) == want else "folds to %s, expected sign %d" % (r, want))
    prim_rule("StrNCmp", ncmp_cases, "at most n bytes compared, reads stop at the first NUL")

    def len_cases(f):
        for a_ in strings(3 + DEEP, (97, HI)):
            env = {f.params[0]["name"]: ("ptr", "A", 0)}
            put(env, "A", a_)
            yield '"%s"' % show(a_), env, (lambda r, ev, L=len(a_): "" if r == L else "folds to %s, expected %d" % (r, L))
    prim_rule("StrLen", len_cases, "counts up to the first NUL and reads nothing behind it")

    def str_cases(f):
        for a_ in strings(3 + DEEP, (97, 98)):
            for b_ in strings(2, (97, 98)):
                env = {f.params[0]["name"]: ("ptr", "A", 0), f.params[1]["name"]: ("ptr", "B", 0)}
                put(env, "A", a_)
                put(env, "B", b_)
                pos = "".join(map(chr, a_)).find("".join(map(chr, b_)))
                want = 0 if pos < 0 else ("ptr", "A", pos)
                yield '"%s", "%s"' % (show(a_), show(b_)), env, (lambda r, ev, want=want: "" if r == want else "folds to %s, expected %s" % (r, want))
    prim_rule("StrStr", str_cases, "first occurrence or NULL; reads inside both strings only")
    strstr_rule(prog, run, "R5", hay_len=5 + DEEP, needle_len=3 + DEEP)
    from .C14 import masked_bits_rule
    masked_bits_rule(prog, run, "R5", thorough=ctx.thorough)

    query_rule = lambda name, oracle, text, **kw: string_query_rule(prog, run, "R5", name, oracle, text, **kw)
    query_rule("startsWith", lambda a, b: 1 if a.startswith(b) else 0, "true iff the argument is a prefix; nothing read outside the two strings")
    query_rule("endsWith", lambda a, b: 1 if a.endswith(b) else 0, "true iff the argument is a suffix (a longer argument never is); nothing read outside the two strings")
    query_rule("contains", lambda a, b: 1 if b in a else 0, "true iff the argument occurs")

    query_rule("equalsNoCase", lambda a, b: 1 if a.lower() == b.lower() else 0, "true iff the two strings are equal up to the case of their letters (a proper prefix is not equal)", maxlen=2, alpha=(97, 65, 98))
    query_rule("containsNoCase", lambda a, b: 1 if b.lower() in a.lower() else 0, "true iff the argument occurs up to the case of the letters", maxlen=2, alpha=(97, 65, 98))
    query_rule("count", lambda a, b: sum(1 for i_ in range(len(a)) if a[i_:].startswith(b)), "the number of positions at which the argument occurs")

    def cpy_cases(f):
        for b_ in strings(3 + DEEP, (97, HI)):
            for n_ in (0, 1, 2, 3, 4, 6):
                env = {f.params[0]["name"]: ("ptr", "D", 0), f.params[1]["name"]: ("ptr", "B", 0), f.params[2]["name"]: n_}
                put(env, "B", b_)

                def oracle(r, ev, b_=b_, n_=n_):
                    st = [(int(k[2:-1]), v) for k, v in ev.stores if k.startswith("D[")]
                    k_ = min(n_, len(b_) + 1)
                    if any(i_ >= n_ or i_ < 0 for i_, v in st):
                        return "writes index %s with n = %d" % ([i_ for i_, v in st if i_ >= n_ or i_ < 0][0], n_)
                    mem = dict(st)
                    want = (list(b_) + [0])[:k_]
                    if [mem.get(i_) for i_ in range(k_)] != want:
                        return "copies %s, expected %s" % ([mem.get(i_) for i_ in range(k_)], want)
                    if r != ("ptr", "D", 0):
                        return "returns %s" % (r,)
                    return ""
                yield 'dst, "%s", %d' % (show(b_), n_), env, oracle
        env = {f.params[0]["name"]: 0, f.params[1]["name"]: ("ptr", "B", 0), f.params[2]["name"]: 3}
        put(env, "B", [97])
        yield "NULL, \"a\", 3", env, (lambda r, ev: "" if not [k for k, v in ev.stores if "[" in k] and r == 0 else "writes through the NULL destination")
    prim_rule("StrNCpy", cpy_cases, "writes only [0, n), copies up to and including the NUL or n bytes, reads nothing behind the source's NUL, NULL destination untouched")

    def ato_cases(signed):
        def gen(f):
            texts = ["", "0", "7", "12", "120", " 12", "\t\n 9", "12x", "x", "1 2", "-", "+", "-12", "+5", " -3x", "--1", "-0", "4294967295" if not signed else "2147483647", "\xE9" + "1"]
            # and every string up to length 4 over {space, -, +, 1, 9, x}: where white space and a sign may stand
            texts += ["".join(c_) for L_ in range(1, 5) for c_ in itertools.product(" -+1x" + ("9" if L_ < 4 else ""), repeat=L_)]
            for t in dict.fromkeys(texts):
                vals = [ord(ch) - 256 if ord(ch) > 127 else ord(ch) for ch in t]
                env = {f.params[0]["name"]: ("ptr", "A", 0)}
                put(env, "A", vals)
                i_ = 0
                while i_ < len(t) and t[i_] in " \t\n\v\f\r":
                    i_ += 1
                neg = False
                if signed and i_ < len(t) and t[i_] in "+-":
                    neg = t[i_] == "-"
                    i_ += 1
                v = 0
                while i_ < len(t) and t[i_] in "0123456789":
                    v = v * 10 + int(t[i_])
                    i_ += 1
                want = -v if neg else v
                yield repr(t), env, (lambda r, ev, want=want: "" if r == want else "folds to %s, expected %s" % (r, want))
        return gen
    prim_rule("AtoI", ato_cases(True), "leading white space, one optional sign, decimal digits up to the first other char; reads stop there")
    prim_rule("AtoU", ato_cases(False), "leading white space, decimal digits up to the first other char; reads stop there")

    mc = prog.fn(SS + "::MemCmp")
    run.analysed(mc)
    bad = None
    ncase = 0
    for n_ in (0, 1, 2):
        for a_ in itertools.product((0, 1, 255), repeat=n_):
            for b_ in itertools.product((0, 1, 255), repeat=n_):
                env = {mc.params[0]["name"]: ("ptr", "A", 0), mc.params[1]["name"]: ("ptr", "B", 0), mc.params[2]["name"]: n_}
                for i_, v_ in enumerate(a_):
                    env["A[%d]" % i_] = v_
                for i_, v_ in enumerate(b_):
                    env["B[%d]" % i_] = v_      # bytes at index >= n are absent: reading them cannot be folded
                ev = Evaluator(prog, mc, env=env)
                ncase += 1
                try:
                    ev.run_blocks(mc.entry, max_steps=300)
                    got = getattr(ev, "ret", None)
                except Unknown as u:
                    got = "unknown: %s" % u
                want = 0 if a_ == b_ else (-1 if a_ < b_ else 1)
                sign = (0 if got == 0 else (1 if isinstance(got, int) and got > 0 else (-1 if isinstance(got, int) else None)))
                if sign != want and bad is None:
                    bad = {"a": a_, "b": b_, "n": n_, "folded": got}
    run.ob("R5", "MemCmp folded on all blocks of 0..2 bytes over {0,1,255}: reads only the first n bytes, sign = first differing unsigned byte", mc.site, bad is None, witness=bad or "%d cases" % ncase,
           what="" if bad is None else "MemCmp(%s, %s, %d) folds to %s" % (bad["a"], bad["b"], bad["n"], bad["folded"]))
    def find_cases(f):
        for a_ in strings(3 + DEEP, (97, 98)):
            for st_ in range(0, len(a_) + 3):
                for ch in (97, 98):
                    env = {"buffer_": ("ptr", "S", 0), "bufferSize_": len(a_) + 1, f.params[0]["name"]: st_, f.params[1]["name"]: ch}
                    put(env, "S", a_)
                    hits = [i_ for i_ in range(st_, len(a_)) if a_[i_] == ch]
                    want = hits[0] if hits else SIZE_MAX
                    yield '"%s".findFrom(%d, %s)' % (show(a_), st_, chr(ch)), env, (lambda r, ev, want=want: "" if r == want else "folds to %s, expected %s" % (r, "npos" if want == SIZE_MAX else want))
        for big in (SIZE_MAX, SIZE_MAX - 1, 1 << 63):
            env = {"buffer_": ("ptr", "S", 0), "bufferSize_": 2, f.params[0]["name"]: big, f.params[1]["name"]: 97}
            put(env, "S", [97])
            yield '"a".findFrom(%d, a)' % big, env, (lambda r, ev: "" if r == SIZE_MAX else "folds to %s, expected npos" % (r,))
    prim_rule("findFrom", find_cases, "scans [starting_position, size()) upwards, returns the first index holding the char or npos; a start beyond the end reads nothing")

    # ---------------- R6 ----------------------------------------------------
    run.ob("R6", "fast path folded: a vsnprintf result below the stack buffer's extent uses that buffer (bounded by its extent) and nothing else", vf.site, fmt_bad is None or "fits" not in fmt_bad,
           witness={"extent": extent, "results": [r_ for r_ in fmt_cases if extent is not None and r_ < extent]} if fmt_bad is None or "fits" not in fmt_bad else fmt_bad,
           what="" if fmt_bad is None or "fits" not in fmt_bad else fmt_bad)
    run.ob("R6", "slow path folded: a result >= the extent allocates result+1 bytes and formats again into them with that bound", vf.site, fmt_bad is None or "does not fit" not in fmt_bad,
           witness={"extent": extent, "results": [r_ for r_ in fmt_cases if extent is not None and r_ >= extent]} if fmt_bad is None or "does not fit" not in fmt_bad else fmt_bad,
           what="" if fmt_bad is None or "does not fit" not in fmt_bad else "a result that does not fit the stack buffer would be taken as complete (truncated text): " + fmt_bad)
    run.ob("R6", "the boundary is exact: results extent-1 / extent take the fast / slow path", vf.site, extent is not None and {extent - 1, extent} <= set(fmt_cases) and fmt_bad is None, witness={"extent": extent})

    # ---------------- R7 ----------------------------------------------------
    char_classifiers(prog, run, "R7")

"""Rule fragments used by several properties."""
from .common import *


def testfailure_ctor_table(prog, run, rid):
    """SIBLING/TABLE over the TestFailure constructors: every constructor fills the identity fields of the
    failure from the accessor of the same meaning (name from getName, formatted name from getFormattedName,
    test file/line from getFile/getLineNumber, failure file/line from its own parameters or the test's)."""
    ctors = [f for f in prog.methods_of("TestFailure") if f.kind == "ctor"]
    if len(ctors) < 4:
        raise AnalysisBroken("TestFailure constructors not found (%d)" % len(ctors))
    n = 0
    for c in sorted(ctors, key=lambda f: f.d["sig"]):
        run.analysed(c)
        inits = {i.get("field"): render(c, i["expr"]) for i in c.d.get("inits", []) if i.get("written") and i.get("field")}
        pn = [p["name"] for p in c.params]
        pt = [p["ct"] for p in c.params]
        inst = "TestFailure(%s)" % ", ".join(pt)
        if len(pn) == 1 and "TestFailure" in pt[0]:
            o = pn[0]
            want = {k: ["%s.%s" % (o, k)] for k in ("testName_", "testNameOnly_", "fileName_", "lineNumber_", "testFileName_", "testLineNumber_", "message_")}
        else:
            t = pn[0]
            want = {"testName_": ["%s->getFormattedName()" % t], "testNameOnly_": ["%s->getName()" % t],
                    "testFileName_": ["%s->getFile()" % t], "testLineNumber_": ["%s->getLineNumber()" % t]}
            fparams = [p["name"] for p in c.params if p["ct"] == "const char *"]
            lparams = [p["name"] for p in c.params if p["ct"] in ("unsigned long", "size_t")]
            want["fileName_"] = fparams[:1] if fparams else ["%s->getFile()" % t]
            want["lineNumber_"] = lparams[:1] if lparams else ["%s->getLineNumber()" % t]
        for fld, exp in sorted(want.items()):
            got = inits.get(fld)
            norm = got
            # SimpleString(x) wrappers are rendered as the argument for copy construction; accept SimpleString(param)
            if got is not None and got.startswith("SimpleString(") and got.endswith(")"):
                norm = got[len("SimpleString("):-1]
            ok = norm in exp
            run.ob(rid, "%s initialises %s" % (inst, fld), c.site, ok, witness={"found": got, "required": exp},
                   what="" if ok else "failure identity field %s is filled from %s, expected %s" % (fld, got, exp[0]))
            n += 1
    return n


def member_by_type(prog, cls, ct):
    """the one data member of `cls` whose type is `ct` (read from the program: a rename is followed)"""
    ms = [fl["name"] for fl in prog.records.get(cls, {}).get("fields", []) if (fl.get("ct") or "").replace("const ", "").strip() == ct]
    if len(ms) != 1:
        raise AnalysisBroken_("%s no longer has exactly one member of type %s (%s)" % (cls, ct, ms))
    return ms[0]


def plugin_chain(prog, names, enabled=None, addrs=None, null_addr=9000):
    """A chain of TestPlugins ended by a NullTestPlugin, built the way programs build it: constructors, addPlugin from the
    tail to the head, disable() for the disabled ones. Returns (environment, {name: address}); `this_view` makes one object
    the receiver of a fold."""
    from .common import Heap, string_hooks
    addrs = addrs or {nm: 5000 + 1000 * i for i, nm in enumerate(names)}
    inl = {g.qn for g in prog.functions.values() if g.qn.startswith(("TestPlugin::", "NullTestPlugin::"))}
    h = Heap(prog, hooks=string_hooks({"NullTestPlugin::instance": lambda *a_: null_addr}), inline=inl - {"NullTestPlugin::instance"})
    h.construct(null_addr, "NullTestPlugin", [])
    for nm in names:
        h.construct(addrs[nm], "TestPlugin", [("str", nm)], types=["const SimpleString &"])
    prev = null_addr
    for nm in reversed(list(names)):
        h.call(addrs[nm], "TestPlugin", "addPlugin", [prev])
        prev = addrs[nm]
    for nm in names:
        if enabled is not None and not enabled.get(nm, 1):
            h.call(addrs[nm], "TestPlugin", "disable", [])
    env = {k: v for k, v in h.env().items() if k.startswith("@")}
    return env, dict(addrs, **{"NullPlugin": null_addr})


def this_view(env, addr):
    """the environment with the object at `addr` as the receiver of a fold: its members also unprefixed, `this` = addr"""
    out = dict(env)
    pre = "@%d." % addr
    out.update({k[len(pre):]: v for k, v in env.items() if k.startswith(pre)})
    out["this"] = addr
    return out


def plugin_chain_order(prog, run, rid):
    """ORDER over the plugin chain walkers, decided on a fold over chain models (2..4 plugins x every enabled pattern,
    ended by a NullTestPlugin object, virtual calls resolved by the dynamic class the model states): the pre action runs
    head first, the post action tail first, each enabled plugin exactly once with the walker's own (test, result), a
    disabled plugin skips only its own action."""
    import itertools
    from cpv.ceval import Evaluator, Unknown
    ADDR = [5000, 6000, 7000]
    NULLP = 9000
    for meth, own, head_first in (("runAllPreTestAction", "preTestAction", True), ("runAllPostTestAction", "postTestAction", False)):
        f = prog.fn("TestPlugin::" + meth)
        run.analysed(f)
        nf = prog.fn("NullTestPlugin::" + meth, required=False)
        if nf is not None:
            run.analysed(nf)
        for n in (1, 2, 3):
            bad = None
            for pattern in itertools.product((1, 0), repeat=n):
                names_ = ["P%d" % i for i in range(n)]
                cenv, _ = plugin_chain(prog, names_, enabled=dict(zip(names_, pattern)), addrs=dict(zip(names_, ADDR)), null_addr=NULLP)
                env = this_view(cenv, ADDR[0])
                env.update({f.params[0]["name"]: 111, f.params[1]["name"]: 222})
                seen = []

                def action(ev_, *a_):
                    # (the own action is a call on `this`: the receiver is the object the enclosing walker runs on)
                    seen.append((ev_.env.get("this"),) + tuple(a_[-2:]))
                    return 0
                action.wants_ev = True
                ev = Evaluator(prog, f, env=env, calls={"TestPlugin::" + own: action, "NullTestPlugin::" + own: action})
                ev.heap_mode = True
                ev.pass_object = True
                ev.dyn_type = {a: "TestPlugin" for a in ADDR}
                ev.dyn_type[NULLP] = "NullTestPlugin"
                ev.inline = {g.qn for g in prog.functions.values() if g.qn.startswith(("TestPlugin::", "NullTestPlugin::"))} - set(ev.calls)
                try:
                    ev.run_blocks(f.entry, max_steps=3000)
                except Unknown as u:
                    if "null dereference" in str(u) or "unbounded recursion" in str(u) or getattr(ev, "null_derefs", None):
                        bad = bad or "chain of %d plugins, enabled %s: the walk does not stop at the NullTestPlugin (%s)" % (n, list(pattern), u)
                        continue
                    raise AnalysisBroken_("%s.%s: %s cannot be folded over the chain model: %s" % (run.pid, rid, f.qn, u))
                order = [ADDR[i] for i in range(n) if pattern[i]]
                if not head_first:
                    order = order[::-1]
                got = list(seen)
                if got != [(o, 111, 222) for o in order] and bad is None:
                    bad = "chain of %d plugins, enabled %s: %s runs on %s; expected %s, each with the walker's own (test, result)" % (n, list(pattern), own, [g_[0] for g_ in got], order)
            run.ob(rid, "%s folded over chains of %d plugin(s) + terminator x %d enabled patterns: %s, each enabled plugin once, disabled ones skip only themselves" % (meth, n, 2 ** n, "head first" if head_first else "tail first"), f.site, bad is None,
                   witness=bad or "%d patterns" % 2 ** n, what=bad or "")


def char_classifiers(prog, run, rid, which=None):
    """PARTITION: the character classifiers folded for every char value (-128..127) against their textbook tables."""
    from cpv.ceval import Evaluator, Unknown
    table = {
        "isDigit": lambda c: 1 if 48 <= c <= 57 else 0,
        "isSpace": lambda c: 1 if (c == 32 or 9 <= c <= 13) else 0,
        "isUpper": lambda c: 1 if 65 <= c <= 90 else 0,
        "ToLower": lambda c: c + 32 if 65 <= c <= 90 else c,
        "isControlWithShortEscapeSequence": lambda c: 1 if 7 <= c <= 13 else 0,
        "isControl": lambda c: 1 if (c < 32 or c == 127) else 0,
    }
    inline = {"SimpleString::" + k for k in table} | {g.qn for g in prog.functions.values() if g.file == "src/CppUTest/SimpleString.cpp" and not g.cls and g.d.get("static")}
    for name, oracle in table.items():
        if which is not None and name not in which:
            continue
        f = prog.fn("SimpleString::" + name, required=(name not in ("isUpper", "isControlWithShortEscapeSequence")))
        if f is None:
            continue        # (a helper of another classifier that may live elsewhere: ToLower / isControl are folded with it inlined)
        run.analysed(f)
        bad = []
        unknown = None
        for c in range(-128, 128):
            ev = Evaluator(prog, f, env={f.params[0]["name"]: c})
            ev.inline = inline
            try:
                ev.run_blocks(f.entry, max_steps=300)
                got = getattr(ev, "ret", None)
                if isinstance(got, tuple):
                    unknown = str(got)
                    break
            except Unknown as u:
                unknown = str(u)
                break
            if got != oracle(c):
                bad.append((c, got, oracle(c)))
        if unknown is not None:
            run.broke("SimpleString::%s cannot be folded per character (%s)" % (name, unknown))
            continue
        run.ob(rid, "SimpleString::%s agrees with its table for all 256 char values" % name, f.site, not bad, witness={"mismatches (char, folded, table)": bad[:6]} if bad else "256/256",
               what="" if not bad else "e.g. %s(%d) = %s, expected %s" % (name, bad[0][0], bad[0][1], bad[0][2]))


def fresh_result_per_repetition(prog, run, rid, sfx=""):
    """each repetition of the runner's repeat loop runs the registry once on a TestResult constructed inside that loop
    (C01.R4: verdict per repetition; C02.R1: the per-repetition counts sum to the number of registered tests)"""
    from cpv.paths import loop_blocks
    from cpv.expr import render
    rt = prog.fn("CommandLineTestRunner::runAllTests")
    run.analysed(rt)
    loops = loop_blocks(rt)
    decl = [n for n in rt.walk() if n["k"] == "DeclStmt" and any(d.get("ct") == "TestResult" for d in n.get("decls", []))]
    run_calls = [c for c in rt.calls() if (prog.callee_name(rt, c) or "") == "TestRegistry::runAllTests"]
    ok = len(run_calls) == 1 and rt.where_enclosing(run_calls[0])[0] in loops
    trname = render(rt, rt.args(run_calls[0])[0]) if run_calls else None
    d_in = [n for n in decl if any(d["name"] == trname for d in n["decls"]) and rt.where_enclosing(n) and rt.where_enclosing(n)[0] in loops]
    run.ob(rid, "each repetition runs the registry once on a TestResult constructed inside the repetition loop%s" % sfx, rt.site, ok and len(d_in) == 1,
           witness={"result": trname, "declared_in_loop": len(d_in)}, what="" if ok and len(d_in) == 1 else "counts of earlier repetitions leak into later summaries")
    return rt, loops


def detector_state(prog, steps=()):
    """the private state of a MemoryLeakDetector after its constructor and a sequence of its own public operations
    (("startChecking", []), ("increaseAllocationStage", []), ("disableAllocationTypeChecking", []) ...): rules build their
    detector models this way instead of naming its private members"""
    from .common import object_state
    DET = "MemoryLeakDetector"
    inl = {g.qn for g in prog.functions.values() if g.qn.startswith(DET + "::")}
    st = object_state(prog, DET, ["MemoryLeakFailure *"], [55], steps=list(steps), hooks={"SimpleMutex::SimpleMutex": lambda *a_: 0, "MemoryLeakOutputStringBuffer::clear": lambda *a_: 0}, inline=inl)
    return st


def detector_reads(prog, state):
    """(allocation number the next record gets, current allocation stage) read through the detector's own getters"""
    from cpv.ceval import Evaluator
    out = []
    for g in ("getCurrentAllocationNumber", "getCurrentAllocationStage"):
        f = prog.fn("MemoryLeakDetector::" + g)
        ev = Evaluator(prog, f, env=dict(state))
        ev.run_blocks(f.entry, max_steps=100)
        out.append(getattr(ev, "ret", None))
    return tuple(out)


def detector_fold(prog, f, values, answers=None, extra_env=None):
    """Fold a MemoryLeakDetector method over a heap model with every environment call (underlying allocator, platform
    realloc, leak table, report buffer, guard-byte helpers) answered from `answers` and logged as (name, args).
    values: parameter name -> value. Returns (return value, log, evaluator)."""
    from cpv.ceval import Evaluator, Unknown
    DET = "MemoryLeakDetector"
    answers = dict(answers or {})
    log = []

    def h(name, default=0):
        return lambda *a_: (log.append((name, a_)), answers.get(name, default))[1]
    calls = {"TestMemoryAllocator::alloc_memory": h("alloc", 70000), "PlatformSpecificRealloc": h("realloc", 70000), "TestMemoryAllocator::allocMemoryLeakNode": h("allocnode", 90000),
             "TestMemoryAllocator::free_memory": h("free"), "TestMemoryAllocator::freeMemoryLeakNode": h("freenode"), "TestMemoryAllocator::hasBeenDestroyed": h("destroyed", 0),
             "TestMemoryAllocator::actualAllocator": lambda *a_: a_[0] if a_ else 0,
             "MemoryLeakDetectorTable::addNewNode": h("add"), "MemoryLeakDetectorTable::removeNode": h("remove", 6000), "MemoryLeakDetectorTable::retrieveNode": h("retrieve", 6000),
             DET + "::addMemoryCorruptionInformation": h("guard"), DET + "::validMemoryCorruptionInformation": h("valid", 1), DET + "::matchingAllocation": h("matching", 1),
             "PlatformSpecificMemset": h("memset")}
    for g in prog.functions.values():
        if g.qn.startswith("MemoryLeakOutputStringBuffer::report"):
            calls[g.qn] = h(g.qn.split("::")[-1])
    # the detector as its constructor and public operations leave it: checking period, two stages up, type checking on
    env = detector_state(prog, [("startChecking", []), ("increaseAllocationStage", []), ("increaseAllocationStage", [])])
    env.update({"@6000.memory_": 50000, "@6000.size_": 13, "@6000.allocator_": 9000})
    env.update(values)
    env.update(extra_env or {})
    ev = Evaluator(prog, f, env=env, calls=calls)
    ev.heap_mode = True
    ev.pass_object = True
    ev.inline = ({g.qn for g in prog.functions.values() if g.qn.startswith(DET + "::")} | {"MemoryLeakDetectorNode::init", "calculateVoidPointerAlignedSize"}) - set(calls)
    ev.run_blocks(f.entry, max_steps=4000)
    r = getattr(ev, "ret", None)
    if isinstance(r, tuple) and r and r[0] == "unknown":
        raise Unknown(r[1])
    return r, log, ev


def runner_fold(prog, repetitions, flags=None, seed=77):
    """Fold CommandLineTestRunner::runAllTests against scripted command-line answers and per-repetition results.
    repetitions: list of (failure count, isFailure) - its length is the repeat count. flags: answers of the argument
    getters (isReversing, isShuffling, isListingTestGroupNames ...). Returns (return value, event log)."""
    from cpv.ceval import Evaluator, Unknown
    flags = dict(flags or {})
    rt = prog.fn("CommandLineTestRunner::runAllTests")
    log = []
    state = {"rep": -1}

    def reg(name):
        def h(*a_):
            log.append((name,) + tuple(x for x in a_[1:] if isinstance(x, int)))
            if name == "runAllTests":
                state["rep"] += 1
            return 0
        return h
    hooks = {"CommandLineArguments::getRepeatCount": lambda *a_: len(repetitions), "CommandLineArguments::getShuffleSeed": lambda *a_: seed,
             "CommandLineArguments::getGroupFilters": lambda *a_: 81, "CommandLineArguments::getNameFilters": lambda *a_: 82,
             "TestResult::getFailureCount": lambda *a_: repetitions[max(0, min(state["rep"], len(repetitions) - 1))][0],
             "TestResult::isFailure": lambda *a_: repetitions[max(0, min(state["rep"], len(repetitions) - 1))][1]}
    # (initializeTestRun is folded with the runner: the configuration it applies is seen as the registry's setters)
    for g_ in prog.methods_of("CommandLineArguments"):
        if g_.ret in ("bool", "_Bool") and not g_.params and g_.kind == "method":
            hooks.setdefault(g_.qn, (lambda *a_, g=g_.name: flags.get(g, 0)))
    SETTERS = ("setGroupFilters", "setNameFilters", "setRunTestsInSeperateProcess", "setRunIgnored")
    for m in ("reverseTests", "shuffleTests", "runAllTests", "listTestGroupNames", "listTestGroupAndCaseNames", "listTestLocations") + SETTERS:
        hooks["TestRegistry::" + m] = reg(m)
    for m in ("verbose", "color"):
        hooks["TestOutput::" + m] = (lambda *a_: 0)
    for m in ("setCrashOnFail", "setRethrowExceptions", "restoreDefaultTestTerminator", "resetCrashMethod"):
        hooks["UtestShell::" + m] = (lambda *a_: 0)
    for m in ("print", "printTestRun"):
        hooks["TestOutput::" + m] = (lambda *a_: 0)
    ev = Evaluator(prog, rt, env={"registry_": 11, "arguments_": 22, "output_": 33}, calls=hooks)
    ev.pass_object = True
    ev.optional_stubs = set(hooks)
    ev.run_blocks(rt.entry, max_steps=6000)
    events = []
    hook_i = 0
    for nm, args, node in ev.trace:
        if nm == "construct TestResult":
            events.append(("new-result",))
        elif nm in ("TestRegistry::setGroupFilters", "TestRegistry::setNameFilters"):
            events.append((nm.split("::")[-1],) + tuple(x for x in (args or [])[1:] if isinstance(x, int)))
            if ("setGroupFilters", 81) in events and ("setNameFilters", 82) in events and ("initialize",) not in events:
                events.append(("initialize",))        # both filter lists of the command line have reached the registry
        elif nm.startswith("TestRegistry::") and nm.split("::")[-1] in ("reverseTests", "shuffleTests", "runAllTests", "listTestGroupNames", "listTestGroupAndCaseNames", "listTestLocations"):
            events.append((nm.split("::")[-1],) + tuple(x for x in (args or [])[1:] if isinstance(x, int)))
    r = getattr(ev, "ret", None)
    if isinstance(r, tuple):
        raise Unknown(str(r))
    return r, events


from cpv.build import AnalysisBroken as AnalysisBroken_


def registry_fold(prog, tests, flags=(0, 0), during=None, ignored=()):
    """Fold TestRegistry::runAllTests over a model list of tests. tests: list of (group, selected). flags:
    (runInSeperateProcess_, runIgnored_). Every UtestShell / TestResult method is a recording stub; every
    TestRegistry member the loop calls is inlined, so helpers are transparent. Returns (event log, env after)."""
    from cpv.ceval import Evaluator, Unknown
    from .common import string_hooks
    rt = prog.fn("TestRegistry::runAllTests")
    addr = [1000 + 100 * i for i in range(len(tests))]
    idx = {a: i for i, a in enumerate(addr)}
    log = []

    def rec(name, arg_is_test=True):
        def h(*a_):
            ts_ = [idx[x] for x in a_ if isinstance(x, int) and x in idx]
            log.append((name,) + tuple(ts_[:1]))
            return 0
        return h
    hooks = {}
    for m in ("testsStarted", "testsEnded", "currentGroupStarted", "currentGroupEnded", "currentTestStarted", "currentTestEnded", "countTest", "countFilteredOut", "countRun", "countIgnored", "countCheck"):
        hooks["TestResult::" + m] = rec(m)
    for m in ("runOneTest", "setRunInSeperateProcess", "setRunIgnored"):
        hooks["UtestShell::" + m] = rec(m)
    fields = {fl["name"] for fl in prog.records.get("TestRegistry", {}).get("fields", [])}
    build_hooks = None
    if during is not None:
        # `during`: test index -> [(registry method, args)] applied to the registry while that test runs (a test body or a plugin
        # action may install or reset plugins); the plugin chain each test is handed is logged
        def run_one(ev_, o, *a_):
            log.append(("runOneTest", idx.get(o), a_[0] if a_ else None))
            for name, args in during.get(idx.get(o), ()):
                ms = [f for f in prog.methods_of("TestRegistry") if f.name == name and len(f.params) == len(args)]
                if len(ms) != 1:
                    raise AnalysisBroken_("TestRegistry::%s with %d parameters not found" % (name, len(args)))
                rootk = lambda k: k.split(".")[0].split("[")[0]
                env2 = {k: v for k, v in ev_.env.items() if rootk(k) in fields}
                env2.update({q["name"]: v for q, v in zip(ms[0].params, args)})
                e2 = Evaluator(prog, ms[0], env=env2, calls=dict(build_hooks))
                e2.objects = True
                e2.pass_object = True
                e2.inline = {g.qn for g in prog.functions.values() if g.qn.startswith("TestRegistry::")} - set(build_hooks) - {ms[0].qn}
                e2.run_blocks(ms[0].entry, max_steps=2000)
                for k, v in e2.env.items():
                    if rootk(k) in fields and ev_.env.get(k) != v:
                        # (written in the frame that makes the call and logged as its store: an inlined helper of the registry hands
                        # its stores back to runAllTests when it returns)
                        ev_.env[k] = v
                        ev_.stores.append((k, v))
            return 0
        run_one.wants_ev = True
        hooks["UtestShell::runOneTest"] = run_one
    hooks["UtestShell::getNext"] = lambda o, *a_: (addr[idx[o] + 1] if idx.get(o, len(addr)) + 1 < len(addr) else 0) if o in idx else None
    hooks["UtestShell::getGroup"] = lambda o, *a_: ("str", tests[idx[o]][0]) if o in idx else None

    def should_run(o, *a_):
        if o not in idx:
            return None
        log.append(("shouldRun", idx[o]) + tuple(x for x in a_ if isinstance(x, int)))
        return 1 if tests[idx[o]][1] else 0
    hooks["UtestShell::shouldRun"] = should_run
    # (tests listed in `ignored` are ignored tests: they answer willRun() with false)
    hooks["UtestShell::willRun"] = lambda o=None, *a_: (0 if idx[o] in ignored else 1) if o in idx else None
    # the registry as its own constructor and public operations leave it: tests registered (addTest prepends: last one
    # first), filters and run options set, one plugin installed - its private members are not named here
    from .common import object_state
    steps = [("addTest", [a_]) for a_ in reversed(addr)] + [("setGroupFilters", [81]), ("setNameFilters", [82]), ("installPlugin", [70])]
    steps += [("setRunTestsInSeperateProcess", [])] if flags[0] else []
    steps += [("setRunIgnored", [])] if flags[1] else []
    # (plugins: a chain model kept beside the fold - who follows whom, and every plugin's name - answers lookups by name; installing a
    # second plugin OBJECT under a name that is already in the chain is an installation like any other)
    next_of = {}

    def add_plugin(o, nxt=None, *a_):
        next_of[o] = nxt
        return o

    def plugin_by_name(o, name=None, *a_):
        cur_, n_ = o, 0
        while isinstance(cur_, int) and cur_ in next_of and n_ < 20:
            if ("str", "plugin") == name:
                return cur_
            cur_, n_ = next_of.get(cur_), n_ + 1
        return 0
    build_hooks = string_hooks({"UtestShell::addTest": lambda o, nxt, *a_: o, "TestPlugin::addPlugin": add_plugin, "NullTestPlugin::instance": lambda *a_: 9000,
                                "TestPlugin::getName": lambda *a_: ("str", "plugin"), "TestPlugin::getPluginByName": plugin_by_name})
    env = object_state(prog, "TestRegistry", [], [], steps=steps, hooks=build_hooks, inline={g.qn for g in prog.functions.values() if g.qn.startswith("TestRegistry::")} - set(build_hooks))
    rep0 = None
    gr = prog.fn("TestRegistry::getCurrentRepetition")
    e0 = Evaluator(prog, gr, env=dict(env))
    e0.run_blocks(gr.entry, max_steps=50)
    rep0 = getattr(e0, "ret", None)
    env.update({"this": 50, rt.params[0]["name"]: 60})
    ev = Evaluator(prog, rt, env=env, calls=string_hooks(hooks))
    ev.heap_mode = True
    ev.pass_object = True
    ev.inline = {g.qn for g in prog.functions.values() if g.qn.startswith("TestRegistry::") and g.qn != rt.qn}
    ev.run_blocks(rt.entry, max_steps=20000)
    e1 = Evaluator(prog, gr, env={k_: v_ for k_, v_ in ev.env.items() if k_ in env})
    e1.run_blocks(gr.entry, max_steps=50)
    return log, {"repetitions": (rep0, getattr(e1, "ret", None))}


def registry_reference(tests, flags=(0, 0)):
    """what the property demands of one run over the list: every test counted once and either run once between
    its start/end notifications or counted as filtered out; one group start before the first test of each
    maximal run of equal group names and one group end after its last"""
    out = [("testsStarted",)]
    for i, (g, sel) in enumerate(tests):
        first = i == 0 or tests[i - 1][0] != g
        last = i + 1 == len(tests) or tests[i + 1][0] != g
        if flags[0]:
            out.append(("setRunInSeperateProcess", i))
        if flags[1]:
            out.append(("setRunIgnored", i))
        if first:
            out.append(("currentGroupStarted", i))
        out.append(("countTest",))
        if sel:
            out += [("currentTestStarted", i), ("runOneTest", i), ("currentTestEnded", i)]
        else:
            out.append(("countFilteredOut",))
        if last:
            out.append(("currentGroupEnded", i))
    out.append(("testsEnded",))
    return out


def report_fold(prog, leaks, period=3, full=False):
    """Fold MemoryLeakDetector::ConstructMemoryLeakReport over a scripted table walk. leaks: list of
    (number, size, line, allocator name); full: what SimpleStringBuffer::reachedItsCapacity answers. The report
    buffer's members are inlined, SimpleStringBuffer is a recording stub. Returns the event list:
    ("first", period) ("next", leak index, period) ("limit", n) ("reset",) ("capacity?",) ("add", format, args) ("dump", memory, size)"""
    from cpv.ceval import Evaluator, Unknown
    from .common import string_hooks
    DET, OSB, SSB = "MemoryLeakDetector", "MemoryLeakOutputStringBuffer", "SimpleStringBuffer"
    cr = prog.fn(DET + "::ConstructMemoryLeakReport")
    addr = [6000 + 100 * i for i in range(len(leaks))]
    events = []
    # (the report buffer still holds what an earlier report left: a total and a pending malloc warning)
    env = {cr.params[0]["name"]: period, "outputBuffer_.total_leaks_": 5, "outputBuffer_.giveWarningOnUsingMalloc_": 1}
    for a, (num, size, line, an) in zip(addr, leaks):
        env.update({"@%d.number_" % a: num, "@%d.size_" % a: size, "@%d.file_" % a: ("str", "file%d.cpp" % num), "@%d.line_" % a: line,
                    "@%d.allocator_" % a: 9000 + (1 if an == "malloc" else 0) + 10 * addr.index(a), "@%d.memory_" % a: 70000 + 1000 * addr.index(a)})
    names = {9000 + (1 if an == "malloc" else 0) + 10 * i: an for i, (num, size, line, an) in enumerate(leaks)}

    def text(ev_, v):
        try:
            return ev_.cstring(v)
        except Unknown:
            return v

    def add(ev_, *a_):
        vals = [text(ev_, x) if isinstance(x, tuple) else x for x in a_]
        while vals and not isinstance(vals[0], str):
            vals = vals[1:]             # (the receiver)
        events.append(("add", vals[0] if vals else None, tuple(vals[1:])))
        return 0
    add.wants_ev = True

    def strcmp(ev_, a_, b_):
        x, y = ev_.cstring(a_), ev_.cstring(b_)
        return (x > y) - (x < y)
    strcmp.wants_ev = True
    hooks = string_hooks({
        "MemoryLeakDetectorTable::getFirstLeak": lambda *a_: (events.append(("first", a_[-1])), addr[0] if addr else 0)[1],
        "MemoryLeakDetectorTable::getNextLeak": lambda *a_: (events.append(("next", addr.index(a_[-2]) if a_[-2] in addr else a_[-2], a_[-1])), (addr[addr.index(a_[-2]) + 1] if a_[-2] in addr and addr.index(a_[-2]) + 1 < len(addr) else 0))[1],
        SSB + "::add": add, SSB + "::addMemoryDump": lambda *a_: (events.append(("dump",) + tuple(x for x in a_ if isinstance(x, int))), 0)[1],
        SSB + "::setWriteLimit": lambda *a_: (events.append(("limit", a_[-1])), 0)[1], SSB + "::resetWriteLimit": lambda *a_: (events.append(("reset",)), 0)[1],
        SSB + "::reachedItsCapacity": lambda *a_: (events.append(("capacity?",)), 1 if full else 0)[1],
        "TestMemoryAllocator::alloc_name": lambda o, *a_: ("str", names[o]) if o in names else None,
        "SimpleString::StrCmp": strcmp})
    ev = Evaluator(prog, cr, env=env, calls=hooks)
    ev.heap_mode = True
    ev.pass_object = True
    ev.inline = {g.qn for g in prog.functions.values() if g.qn.startswith((OSB + "::", DET + "::"))} - set(hooks)
    ev.run_blocks(cr.entry, max_steps=6000)
    return events


def report_rules(prog, run, rid_total, rid_footer, LEN):
    """the leak report folded over scripted table walks (shared by C04.R7 and C14.R2)"""
    import re as _re
    from cpv.ceval import Unknown
    cr = prog.fn("MemoryLeakDetector::ConstructMemoryLeakReport")
    run.analysed(cr)
    for g in prog.functions.values():
        if g.qn.startswith("MemoryLeakOutputStringBuffer::") and g.name in ("startMemoryLeakReporting", "reportMemoryLeak", "stopMemoryLeakReporting"):
            run.analysed(g)
    L = {"n": (7, 13, 55, "new"), "m": (8, 2, 9, "malloc"), "a": (9, 400, 1, "new []"), "N": (41, 1, 3, "new")}

    def rendered(fmt, args):
        out, i = 0, 0
        for m in _re.finditer(r"%(?:l?[dus]|p|%)|[^%]+", fmt):
            t = m.group(0)
            if t == "%%":
                out += 1
            elif t.startswith("%"):
                a = args[i] if i < len(args) else ""
                i += 1
                out += len(a) if isinstance(a, str) else 10
            else:
                out += len(t)
        return out
    worst = None
    for pattern in ("", "n", "m", "nn", "nmN", "amn", "NNN"):
        for full in (0, 1):
            for period in (3, 1):
                leaks = [L[c] for c in pattern]
                k = len(leaks)
                inst = "report folded over leaks [%s], buffer %s, period %d" % (", ".join(x[3] for x in leaks), "full" if full else "not full", period)
                try:
                    ev = report_fold(prog, leaks, period, full)
                except Unknown as u:
                    raise AnalysisBroken_("the leak report cannot be folded over %s: %s" % (pattern or "no leaks", u))
                why = []
                walk = [e for e in ev if e[0] in ("first", "next")]
                if walk != [("first", period)] + [("next", i, period) for i in range(k)]:
                    why.append("the table walk is %s, expected first(period) then next(leak, period) for each of the %d leaks" % (walk, k))
                lim = [i for i, e in enumerate(ev) if e[0] == "limit"]
                adds = [i for i, e in enumerate(ev) if e[0] == "add"]
                if len(lim) != 1 or (adds and adds[0] < lim[0]):
                    why.append("the write limit that reserves the footer is set %d times / after text was added" % len(lim))
                ints = lambda e: tuple(x for x in e[2] if isinstance(x, int))
                if k == 0:
                    if len(adds) != 1 or ints(ev[adds[0]]):
                        why.append("no leaks: expected the single no-leaks message, got %s" % [ev[i][1] for i in adds])
                else:
                    rs = [i for i, e in enumerate(ev) if e[0] == "reset"]
                    cp = [i for i, e in enumerate(ev) if e[0] == "capacity?"]
                    if len(rs) != 1:
                        why.append("%d leaks were walked but the report is closed as %s (the write limit is reset %d times): the total of the report does not state the leaks walked" % (k, [ev[i][1] for i in adds][-1:], len(rs)))
                    elif not [c_ for c_ in cp if c_ < rs[0]]:
                        why.append("the capacity must be sampled before the limit is reset (%s)" % [e[0] for e in ev if e[0] in ("capacity?", "reset")])
                    else:
                        before, after = [ev[i] for i in adds if i < rs[0]], [ev[i] for i in adds if i > rs[0]]
                        for i_, (num, size, line, an) in enumerate(leaks):
                            mem = 70000 + 1000 * i_
                            mine = [e for e in before if mem in e[2]]
                            # (a full buffer drops the text anyway: listing a leak is then optional, counting it is not)
                            if (len(mine) != 1 and not (full and not mine)) or (mine and not {num, size, line, an, "file%d.cpp" % num} <= set(mine[0][2])):
                                why.append("leak #%d (allocation %d, %d bytes, file%d.cpp:%d, %s) is reported %d times / with other values %s" % (i_, num, size, num, line, an, len(mine), [e[2] for e in mine][:1]))
                            if ("dump", mem, size) not in ev and not full:
                                why.append("leak #%d: its content is not dumped with (memory, size)" % i_)
                        foot = [e for e in after if ints(e)]
                        if len(foot) != 1 or ints(foot[0]) != (k,):
                            why.append("the total line states %s, %d leaks were walked" % ([ints(e) for e in foot], k))
                        anym = any(x[3] == "malloc" for x in leaks)
                        if len(after) != 1 + (1 if full else 0) + (1 if anym else 0):
                            why.append("after the reset %d texts are added; expected the total line%s%s" % (len(after), ", the too-many notice" if full else "", ", the malloc warning" if anym else ""))
                        if full and anym and isinstance(ev[lim[0]][1], int):
                            need = sum(rendered(e[1], e[2]) for e in after)
                            worst = (need, ev[lim[0]][1])
                run.ob(rid_total, inst, cr.site, not why, witness=why or [e[0] if e[0] != "add" else "add:" + str(e[1])[:24] for e in ev][:40], what="; ".join(why))
    ok = worst is not None and LEN - 1 - worst[1] >= worst[0] and 0 < worst[1] <= LEN - 1
    run.ob(rid_footer, "reserved footer space covers too-many notice + total line + malloc warning (+ terminator)", cr.site, ok, witness={"write limit while leaks are listed": worst[1] if worst else None, "worst-case text added after the reset": worst[0] if worst else None, "buffer": LEN},
           what="" if ok else "the footer can be truncated: the report would not state the total or the too-many notice")

"""Rule fragments used by several properties."""
from .common import *


def testfailure_ctor_table(prog, run, rid):
    """SIBLING/TABLE over the TestFailure constructors: every constructor fills the identity fields of the
    failure from the accessor of the same meaning (name from getName, formatted name from getFormattedName,
    test file/line from getFile/getLineNumber, failure file/line from its own parameters or the test's)."""
    ctors = [f for f in prog.methods_of("TestFailure") if f.kind == "ctor"]
    if len(ctors) < 4:
        raise AnalysisBroken("TestFailure constructors not found (%d)" % len(ctors))
    n = 0
    for c in sorted(ctors, key=lambda f: f.d["sig"]):
        run.analysed(c)
        inits = {i.get("field"): render(c, i["expr"]) for i in c.d.get("inits", []) if i.get("written") and i.get("field")}
        pn = [p["name"] for p in c.params]
        pt = [p["ct"] for p in c.params]
        inst = "TestFailure(%s)" % ", ".join(pt)
        if len(pn) == 1 and "TestFailure" in pt[0]:
            o = pn[0]
            want = {k: ["%s.%s" % (o, k)] for k in ("testName_", "testNameOnly_", "fileName_", "lineNumber_", "testFileName_", "testLineNumber_", "message_")}
        else:
            t = pn[0]
            want = {"testName_": ["%s->getFormattedName()" % t], "testNameOnly_": ["%s->getName()" % t],
                    "testFileName_": ["%s->getFile()" % t], "testLineNumber_": ["%s->getLineNumber()" % t]}
            fparams = [p["name"] for p in c.params if p["ct"] == "const char *"]
            lparams = [p["name"] for p in c.params if p["ct"] in ("unsigned long", "size_t")]
            want["fileName_"] = fparams[:1] if fparams else ["%s->getFile()" % t]
            want["lineNumber_"] = lparams[:1] if lparams else ["%s->getLineNumber()" % t]
        for fld, exp in sorted(want.items()):
            got = inits.get(fld)
            norm = got
            # SimpleString(x) wrappers are rendered as the argument for copy construction; accept SimpleString(param)
            if got is not None and got.startswith("SimpleString(") and got.endswith(")"):
                norm = got[len("SimpleString("):-1]
            ok = norm in exp
            run.ob(rid, "%s initialises %s" % (inst, fld), c.site, ok, witness={"found": got, "required": exp},
                   what="" if ok else "failure identity field %s is filled from %s, expected %s" % (fld, got, exp[0]))
            n += 1
    return n


def plugin_chain_order(prog, run, rid):
    """ORDER over the plugin chain walkers: the pre action runs head first (own action, then the rest),
    the post action tail first (the rest, then own action); a disabled plugin skips only its own action;
    NullTestPlugin ends the recursion."""
    for meth, own, own_first in (("runAllPreTestAction", "preTestAction", True), ("runAllPostTestAction", "postTestAction", False)):
        f = prog.fn("TestPlugin::" + meth)
        run.analysed(f)
        for p in enumerate_paths(f):
            calls = path_calls(prog, f, p)
            names = [(prog.callee_name(f, c) or "").split("::")[-1] for c in calls]
            rec = [i for i, c in enumerate(calls) if names[i] == meth and render(f, f.node(c.get("obj"))) == "next_"]
            mine = [i for i, n in enumerate(names) if n == own]
            en = p.val().get("enabled_")
            why = ""
            if len(rec) != 1:
                why = "the rest of the chain is visited %d times on this path (a disabled plugin must skip only its own action)" % len(rec)
            elif en is None or len(mine) != (1 if en else 0):
                why = "own %s called %d times with enabled_=%s" % (own, len(mine), en)
            elif mine and ((mine[0] < rec[0]) != own_first):
                why = "own action and recursion are in the wrong order for %s" % meth
            args_ok = all([render(f, a) for a in f.args(calls[i])] == [q["name"] for q in f.params] for i in rec + mine)
            if not why and not args_ok:
                why = "test/result are not forwarded unchanged"
            run.ob(rid, "%s [%s]" % (meth, p.describe(f)), f.site, not why, witness=names, what=why)
        nf = prog.fn("NullTestPlugin::" + meth, required=False)
        ok = nf is not None and not nf.calls()
        run.ob(rid, "NullTestPlugin::%s ends the chain" % meth, nf.site if nf else "src/CppUTest/TestPlugin.cpp:NullTestPlugin::" + meth, ok,
               what="" if ok else "the chain terminator does not override %s with an empty body" % meth)


def char_classifiers(prog, run, rid, which=None):
    """PARTITION: the character classifiers folded for every char value (-128..127) against their textbook tables."""
    from cpv.ceval import Evaluator, Unknown
    table = {
        "isDigit": lambda c: 1 if 48 <= c <= 57 else 0,
        "isSpace": lambda c: 1 if (c == 32 or 9 <= c <= 13) else 0,
        "isUpper": lambda c: 1 if 65 <= c <= 90 else 0,
        "ToLower": lambda c: c + 32 if 65 <= c <= 90 else c,
        "isControlWithShortEscapeSequence": lambda c: 1 if 7 <= c <= 13 else 0,
        "isControl": lambda c: 1 if (c < 32 or c == 127) else 0,
    }
    inline = {"SimpleString::" + k for k in table}
    for name, oracle in table.items():
        if which is not None and name not in which:
            continue
        f = prog.fn("SimpleString::" + name)
        run.analysed(f)
        bad = []
        unknown = None
        for c in range(-128, 128):
            ev = Evaluator(prog, f, env={f.params[0]["name"]: c})
            ev.inline = inline
            try:
                ev.run_blocks(f.entry, max_steps=300)
                got = getattr(ev, "ret", None)
                if isinstance(got, tuple):
                    unknown = str(got)
                    break
            except Unknown as u:
                unknown = str(u)
                break
            if got != oracle(c):
                bad.append((c, got, oracle(c)))
        if unknown is not None:
            run.broke("SimpleString::%s cannot be folded per character (%s)" % (name, unknown))
            continue
        run.ob(rid, "SimpleString::%s agrees with its table for all 256 char values" % name, f.site, not bad, witness={"mismatches (char, folded, table)": bad[:6]} if bad else "256/256",
               what="" if not bad else "e.g. %s(%d) = %s, expected %s" % (name, bad[0][0], bad[0][1], bad[0][2]))


def fresh_result_per_repetition(prog, run, rid, sfx=""):
    """each repetition of the runner's repeat loop runs the registry once on a TestResult constructed inside that loop
    (C01.R4: verdict per repetition; C02.R1: the per-repetition counts sum to the number of registered tests)"""
    from cpv.paths import loop_blocks
    from cpv.expr import render
    rt = prog.fn("CommandLineTestRunner::runAllTests")
    run.analysed(rt)
    loops = loop_blocks(rt)
    decl = [n for n in rt.walk() if n["k"] == "DeclStmt" and any(d.get("ct") == "TestResult" for d in n.get("decls", []))]
    run_calls = [c for c in rt.calls() if (prog.callee_name(rt, c) or "") == "TestRegistry::runAllTests"]
    ok = len(run_calls) == 1 and rt.where_enclosing(run_calls[0])[0] in loops
    trname = render(rt, rt.args(run_calls[0])[0]) if run_calls else None
    d_in = [n for n in decl if any(d["name"] == trname for d in n["decls"]) and rt.where_enclosing(n) and rt.where_enclosing(n)[0] in loops]
    run.ob(rid, "each repetition runs the registry once on a TestResult constructed inside the repetition loop%s" % sfx, rt.site, ok and len(d_in) == 1,
           witness={"result": trname, "declared_in_loop": len(d_in)}, what="" if ok and len(d_in) == 1 else "counts of earlier repetitions leak into later summaries")
    return rt, loops


def detector_fold(prog, f, values, answers=None, extra_env=None):
    """Fold a MemoryLeakDetector method over a heap model with every environment call (underlying allocator, platform
    realloc, leak table, report buffer, guard-byte helpers) answered from `answers` and logged as (name, args).
    values: parameter name -> value. Returns (return value, log, evaluator)."""
    from cpv.ceval import Evaluator, Unknown
    DET = "MemoryLeakDetector"
    answers = dict(answers or {})
    log = []

    def h(name, default=0):
        return lambda *a_: (log.append((name, a_)), answers.get(name, default))[1]
    calls = {"TestMemoryAllocator::alloc_memory": h("alloc", 70000), "PlatformSpecificRealloc": h("realloc", 70000), "TestMemoryAllocator::allocMemoryLeakNode": h("allocnode", 90000),
             "TestMemoryAllocator::free_memory": h("free"), "TestMemoryAllocator::freeMemoryLeakNode": h("freenode"), "TestMemoryAllocator::hasBeenDestroyed": h("destroyed", 0),
             "TestMemoryAllocator::actualAllocator": lambda *a_: a_[0] if a_ else 0,
             "MemoryLeakDetectorTable::addNewNode": h("add"), "MemoryLeakDetectorTable::removeNode": h("remove", 6000), "MemoryLeakDetectorTable::retrieveNode": h("retrieve", 6000),
             DET + "::addMemoryCorruptionInformation": h("guard"), DET + "::validMemoryCorruptionInformation": h("valid", 1), DET + "::matchingAllocation": h("matching", 1),
             "PlatformSpecificMemset": h("memset")}
    for g in prog.functions.values():
        if g.qn.startswith("MemoryLeakOutputStringBuffer::report"):
            calls[g.qn] = h(g.qn.split("::")[-1])
    env = {"allocationSequenceNumber_": 41, "current_period_": 3, "current_allocation_stage_": 7, "doAllocationTypeChecking_": 1,
           "@6000.memory_": 50000, "@6000.size_": 13, "@6000.allocator_": 9000}
    env.update(values)
    env.update(extra_env or {})
    ev = Evaluator(prog, f, env=env, calls=calls)
    ev.heap_mode = True
    ev.pass_object = True
    ev.inline = ({g.qn for g in prog.functions.values() if g.qn.startswith(DET + "::")} | {"MemoryLeakDetectorNode::init", "calculateVoidPointerAlignedSize"}) - set(calls)
    ev.run_blocks(f.entry, max_steps=4000)
    r = getattr(ev, "ret", None)
    if isinstance(r, tuple) and r and r[0] == "unknown":
        raise Unknown(r[1])
    return r, log, ev


def runner_fold(prog, repetitions, flags=None, seed=77):
    """Fold CommandLineTestRunner::runAllTests against scripted command-line answers and per-repetition results.
    repetitions: list of (failure count, isFailure) - its length is the repeat count. flags: answers of the argument
    getters (isReversing, isShuffling, isListingTestGroupNames ...). Returns (return value, event log)."""
    from cpv.ceval import Evaluator, Unknown
    flags = dict(flags or {})
    rt = prog.fn("CommandLineTestRunner::runAllTests")
    log = []
    state = {"rep": -1}

    def reg(name):
        def h(*a_):
            log.append((name,) + tuple(x for x in a_[1:] if isinstance(x, int)))
            if name == "runAllTests":
                state["rep"] += 1
            return 0
        return h
    hooks = {"CommandLineArguments::getRepeatCount": lambda *a_: len(repetitions), "CommandLineArguments::getShuffleSeed": lambda *a_: seed,
             "CommandLineTestRunner::initializeTestRun": lambda *a_: (log.append(("initialize",)), 0)[1],
             "TestResult::getFailureCount": lambda *a_: repetitions[max(0, min(state["rep"], len(repetitions) - 1))][0],
             "TestResult::isFailure": lambda *a_: repetitions[max(0, min(state["rep"], len(repetitions) - 1))][1]}
    for g in ("isListingTestGroupNames", "isListingTestGroupAndCaseNames", "isListingTestLocations", "isReversing", "isShuffling"):
        hooks["CommandLineArguments::" + g] = (lambda *a_, g=g: flags.get(g, 0))
    for m in ("reverseTests", "shuffleTests", "runAllTests", "listTestGroupNames", "listTestGroupAndCaseNames", "listTestLocations"):
        hooks["TestRegistry::" + m] = reg(m)
    for m in ("print", "printTestRun"):
        hooks["TestOutput::" + m] = (lambda *a_: 0)
    ev = Evaluator(prog, rt, env={"registry_": 11, "arguments_": 22, "output_": 33}, calls=hooks)
    ev.pass_object = True
    ev.run_blocks(rt.entry, max_steps=6000)
    events = []
    hook_i = 0
    for nm, args, node in ev.trace:
        if nm == "construct TestResult":
            events.append(("new-result",))
        elif nm.startswith("TestRegistry::") and nm.split("::")[-1] in ("reverseTests", "shuffleTests", "runAllTests", "listTestGroupNames", "listTestGroupAndCaseNames", "listTestLocations"):
            events.append((nm.split("::")[-1],) + tuple(x for x in (args or [])[1:] if isinstance(x, int)))
    r = getattr(ev, "ret", None)
    if isinstance(r, tuple):
        raise Unknown(str(r))
    return r, events


def registry_fold(prog, tests, flags=(0, 0)):
    """Fold TestRegistry::runAllTests over a model list of tests. tests: list of (group, selected). flags:
    (runInSeperateProcess_, runIgnored_). Every UtestShell / TestResult method is a recording stub; every
    TestRegistry member the loop calls is inlined, so helpers are transparent. Returns (event log, env after)."""
    from cpv.ceval import Evaluator
    from .common import string_hooks
    rt = prog.fn("TestRegistry::runAllTests")
    addr = [1000 + 100 * i for i in range(len(tests))]
    idx = {a: i for i, a in enumerate(addr)}
    log = []

    def rec(name, arg_is_test=True):
        def h(*a_):
            ts_ = [idx[x] for x in a_ if isinstance(x, int) and x in idx]
            log.append((name,) + tuple(ts_[:1]))
            return 0
        return h
    hooks = {}
    for m in ("testsStarted", "testsEnded", "currentGroupStarted", "currentGroupEnded", "currentTestStarted", "currentTestEnded", "countTest", "countFilteredOut", "countRun", "countIgnored", "countCheck"):
        hooks["TestResult::" + m] = rec(m)
    for m in ("runOneTest", "setRunInSeperateProcess", "setRunIgnored"):
        hooks["UtestShell::" + m] = rec(m)
    hooks["UtestShell::getNext"] = lambda o, *a_: (addr[idx[o] + 1] if idx.get(o, len(addr)) + 1 < len(addr) else 0) if o in idx else None
    hooks["UtestShell::getGroup"] = lambda o, *a_: ("str", tests[idx[o]][0]) if o in idx else None

    def should_run(o, *a_):
        if o not in idx:
            return None
        log.append(("shouldRun", idx[o]) + tuple(x for x in a_ if isinstance(x, int)))
        return 1 if tests[idx[o]][1] else 0
    hooks["UtestShell::shouldRun"] = should_run
    env = {"this": 50, "tests_": addr[0] if addr else 0, "runInSeperateProcess_": flags[0], "runIgnored_": flags[1], "firstPlugin_": 70,
           "groupFilters_": 81, "nameFilters_": 82, "currentRepetition_": 3, rt.params[0]["name"]: 60}
    ev = Evaluator(prog, rt, env=env, calls=string_hooks(hooks))
    ev.heap_mode = True
    ev.pass_object = True
    ev.inline = {g.qn for g in prog.functions.values() if g.qn.startswith("TestRegistry::") and g.qn != rt.qn}
    ev.run_blocks(rt.entry, max_steps=20000)
    return log, ev.env


def registry_reference(tests, flags=(0, 0)):
    """what the property demands of one run over the list: every test counted once and either run once between
    its start/end notifications or counted as filtered out; one group start before the first test of each
    maximal run of equal group names and one group end after its last"""
    out = [("testsStarted",)]
    for i, (g, sel) in enumerate(tests):
        first = i == 0 or tests[i - 1][0] != g
        last = i + 1 == len(tests) or tests[i + 1][0] != g
        if flags[0]:
            out.append(("setRunInSeperateProcess", i))
        if flags[1]:
            out.append(("setRunIgnored", i))
        if first:
            out.append(("currentGroupStarted", i))
        out.append(("countTest",))
        if sel:
            out += [("currentTestStarted", i), ("runOneTest", i), ("currentTestEnded", i)]
        else:
            out.append(("countFilteredOut",))
        if last:
            out.append(("currentGroupEnded", i))
    out.append(("testsEnded",))
    return out

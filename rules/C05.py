"""C05 — tracked allocations return sound blocks for every size, or fail cleanly. DESIGN.md section 4, C05."""
import re
from .common import *
from cpv.ceval import Evaluator, Unknown

DET = "MemoryLeakDetector"
SIZE_MAX = (1 << 64) - 1
DEST_FUNCS = {"PlatformSpecificMemCpy": 0, "PlatformSpecificMemset": 0}


def null_checked_uses(prog, f, alloc_names):
    """For every local that receives the result of a may-return-NULL allocation: each dereference / subscript /
    member access / use as destination of memcpy/memset must be dominated by a non-null fact.
    Yields (instance, ok, witness, why)."""
    out = []
    holders = {}
    for n in f.walk():
        if n["k"] == "DeclStmt":
            for d in n.get("decls", []):
                if d.get("init") is not None:
                    x = f.strip(d["init"])
                    if x is not None and x["k"] in CALL_KINDS and (prog.callee_name(f, x) or "").split("::")[-1] in [a.split("::")[-1] for a in alloc_names]:
                        holders[d["name"]] = render(f, x)
    for l, r, n in assignments(f):
        x = f.strip(r)
        if x is not None and x["k"] in CALL_KINDS and (prog.callee_name(f, x) or "").split("::")[-1] in [a.split("::")[-1] for a in alloc_names]:
            holders[l] = render(f, x)
    for var, src in sorted(holders.items()):
        uses = []
        for n in f.walk():
            how = None
            if n["k"] == "UnaryOperator" and n.get("op") == "*" and render(f, n["c"][0], keep_explicit_casts=False) == var:
                how = "*%s" % var
            elif n["k"] == "ArraySubscriptExpr" and render(f, f.node(n["base"]), keep_explicit_casts=False) == var:
                how = "%s[...]" % var
            elif n["k"] == "MemberExpr" and n.get("arrow") and n.get("base") is not None and render(f, f.node(n["base"]), keep_explicit_casts=False) == var:
                how = "%s->%s" % (var, n["name"])
            elif n["k"] in CALL_KINDS:
                nm = prog.callee_name(f, n)
                if nm in DEST_FUNCS:
                    a = f.args(n)
                    if len(a) > DEST_FUNCS[nm] and render(f, a[DEST_FUNCS[nm]], keep_explicit_casts=False) == var:
                        how = "%s(%s, ...)" % (nm, var)
            if how:
                uses.append((how, n))
        for how, n in uses:
            pos = f.where_enclosing(n)
            held = set()
            for c, pol, b in f.edge_conditions(pos):
                key, apol = atom(f, c)
                held.add((key, apol == pol))
            ok = (var, True) in held
            out.append(("%s (from %s) used as %s" % (var, short(src, 50), how), ok, sorted("%s%s" % ("" if v else "!", k) for k, v in held),
                        "" if ok else "the result of %s is used without a dominating null test" % short(src, 60)))
        if not uses:
            out.append(("%s (from %s) is only passed on or returned" % (var, short(src, 50)), True, "no dereference in this function", ""))
    return out


def check(ctx, run):
    prog = ctx.program()
    run.assume("the platform allocator returns suitably aligned, disjoint blocks of at least the requested size or NULL; realloc preserves contents (libc contract, trusted)")
    run.not_decided.append("alignment and disjointness of the blocks returned by the platform allocator; realloc content preservation")
    run.rule("R1", "size arithmetic cannot wrap: the composed size computations folded at the largest sizes their guards accept (all residues mod 8, both bookkeeping layouts) and at small sizes never wrap and cover size + guard bytes (+ record); calloc(num, size) folded around the overflow boundary", floor=60, exhaustive=True)
    run.rule("R2", "null-check before use: the result of a may-return-NULL allocation is not dereferenced, indexed or used as a memcpy/memset destination without a dominating null test", floor=6)
    run.rule("R3", "failure leaves tracking intact: no path of reallocMemory returns NULL for a failed platform realloc after the block's record was removed", floor=1)
    run.rule("R4", "operator new family (SIBLING): throwing variants throw on a NULL result, nothrow variants never throw", floor=18)
    run.rule("R5", "layout: the aligned size is a multiple of sizeof(void*), at least size + guard bytes, for every residue and at the 2^32 / 2^63 boundaries; record offset and requested size come from the same function of the same size in alloc, realloc and lookup", floor=40, exhaustive=True)
    run.rule("R6", "calloc zero-fills exactly the product under a null test; strdup_alloc copies size bytes into a size-byte block and terminates at size-1 with size >= 1", floor=5)

    INL = {DET + "::allocateMemoryWithAccountingInformation", DET + "::reallocateMemoryWithAccountingInformation", DET + "::sizeOfMemoryWithCorruptionInfo",
           "calculateVoidPointerAlignedSize", DET + "::sizeWithAccountingInformationOverflows", DET + "::reallocateMemoryAndLeakInformation"}
    am = [f for f in prog.fns(DET + "::allocMemory") if len(f.params) == 5][0]
    rm = prog.fn(DET + "::reallocMemory")
    run.analysed(am)
    run.analysed(rm)
    nodesz = None
    for f in prog.functions.values():
        for n in f.walk():
            if n["k"] == "UnaryExprOrTypeTraitExpr" and n.get("argt") == "MemoryLeakDetectorNode" and "cv" in n:
                nodesz = n["cv"]
    guard = [e["v"] for en in prog.enums.values() for e in en["enumerators"] if e["name"] == "memory_corruption_buffer_size"]
    guard = guard[0] if guard else None
    if nodesz is None or guard is None:
        raise AnalysisBroken("sizeof(MemoryLeakDetectorNode) or memory_corruption_buffer_size not found")

    def fold_alloc(f, size, sep, realloc=False):
        """fold the entry point up to the request made to the underlying allocator.
        returns (requested size or None when the entry point returns NULL first, wraps)"""
        pn = [p["name"] for p in f.params]
        env = {pn[i]: v for i, v in enumerate([1, 2, size, 3, 4, sep] if realloc else [1, size, 3, 4, sep])}
        if realloc:
            env[pn[1]] = 0      # memory == NULL: the pure allocation path of realloc
        ev = Evaluator(prog, f, env=env)
        ev.inline = INL
        ev.pass_object = True
        req = []
        ev.calls["TestMemoryAllocator::alloc_memory"] = lambda o, s, *a: (req.append(s), 0)[1]
        ev.calls["PlatformSpecificRealloc"] = lambda m, s: (req.append(s), 0)[1]
        try:
            ev.run_blocks(f.entry, max_steps=600)
        except Unknown as u:
            return ("unknown: %s" % u), []
        return (req[0] if req else None), list(getattr(ev, "wraps", []))

    # ---------------- R1 / R5 ---------------------------------------------------
    for f, realloc in ((am, False), (rm, True)):
        for sep in (0, 1):
            # largest accepted size: binary search on the (monotone) guard, then check the neighbourhood
            lo, hi = 0, SIZE_MAX
            r0, w0 = fold_alloc(f, SIZE_MAX, sep, realloc)
            if isinstance(r0, str):
                run.broke("%s cannot be folded: %s" % (f.qn, r0))
                continue
            if r0 is not None:
                T = SIZE_MAX
            else:
                while lo < hi:
                    mid = (lo + hi + 1) // 2
                    r, w = fold_alloc(f, mid, sep, realloc)
                    if r is None:
                        hi = mid - 1
                    else:
                        lo = mid
                T = lo
            tested = list(range(0, 20)) + [(1 << 32) - 9 + k for k in range(18)] + [(1 << 33) + 5, (1 << 63) - 1, (1 << 63), (1 << 63) + 5] + [T - k for k in range(0, 24)]
            for s in tested:
                if s < 0 or s > T:
                    continue
                r, w = fold_alloc(f, s, sep, realloc)
                need = s + guard + (0 if sep else nodesz)
                ok = isinstance(r, int) and not w and r >= need and (r - (0 if sep else nodesz)) % 8 == 0
                why = ""
                if not ok:
                    why = "request of %d bytes (%s layout) asks the allocator for %s bytes; %d are needed%s" % (s, "separate-record" if sep else "inline-record", r, need, "; arithmetic wrapped: %s" % w[:1] if w else "")
                run.ob("R1", "%s size %d, %s record" % (f.name, s, "separate" if sep else "inline"), f.site, ok, witness={"requested": r, "needed": need, "largest_accepted": T}, what=why)
            for s in (T + 1, T + 2, SIZE_MAX):
                if s > SIZE_MAX or s <= T:
                    continue
                r, w = fold_alloc(f, s, sep, realloc)
                run.ob("R1", "%s size %d is rejected before any allocation (%s record)" % (f.name, s, "separate" if sep else "inline"), f.site, r is None and not w, witness={"requested": r})
    cal = prog.fn("cpputest_calloc_location")
    run.analysed(cal)
    pn = [p["name"] for p in cal.params]
    pairs = [(0, 0), (0, 5), (5, 0), (1, 1), (3, 7), (SIZE_MAX, 1), (1, SIZE_MAX), (SIZE_MAX, 2), (2, SIZE_MAX), ((1 << 32), (1 << 32)), ((1 << 32) + 1, (1 << 32)),
             ((1 << 32) - 1, (1 << 32) + 1), (SIZE_MAX // 16 + 2, 16), (SIZE_MAX // 16, 16), (SIZE_MAX // 16 + 1, 16), ((1 << 63), 2), ((1 << 62), 4), ((1 << 62) - 1, 4), (SIZE_MAX // 3, 3), (SIZE_MAX // 3 + 1, 3)]
    for num, size in pairs:
        ev = Evaluator(prog, cal, env={pn[0]: num, pn[1]: size, pn[2]: 1, pn[3]: 2})
        req = []
        ev.calls["cpputest_malloc_location"] = lambda s, *a: (req.append(s), 0)[1]
        try:
            ev.run_blocks(cal.entry, max_steps=200)
            wr = list(getattr(ev, "wraps", []))
            got = req[0] if req else None
        except Unknown as u:
            got, wr = "unknown: %s" % u, []
        overflow = num * size > SIZE_MAX
        ok = (got is None and not req) if overflow else (got == num * size and not wr)
        run.ob("R1", "calloc(%d, %d)" % (num, size), cal.site, ok, witness={"malloc_request": got, "product": num * size if not overflow else "overflows"},
               what="" if ok else ("an overflowing product reaches the allocator as %s" % got if overflow else "request is %s" % got))
    # R5: the aligned size function itself
    cv = prog.fn("calculateVoidPointerAlignedSize")
    so = prog.fn(DET + "::sizeOfMemoryWithCorruptionInfo")
    run.analysed(cv)
    run.analysed(so)
    for s in list(range(0, 25)) + [(1 << 32) - 8 + k for k in range(17)] + [(1 << 33) + 5, (1 << 40) + 3, (1 << 63) + 1]:
        ev = Evaluator(prog, so, env={so.params[0]["name"]: s})
        ev.inline = INL
        try:
            ev.run_blocks(so.entry)
            got = getattr(ev, "ret", None)
        except Unknown as u:
            got = "unknown: %s" % u
        ok = isinstance(got, int) and got % 8 == 0 and got >= s + guard and got <= s + guard + 8 and not getattr(ev, "wraps", None)
        run.ob("R5", "aligned size for %d" % s, so.site, ok, witness={"folded": got, "size+guard": s + guard},
               what="" if ok else "the bookkeeping offset for a %d-byte block is %s: guard bytes or record do not fit, or the offset is not pointer-aligned" % (s, got))
    gn = prog.fn(DET + "::getNodeFromMemoryPointer")
    rets = [render(gn, gn.node(n.get("value")), keep_explicit_casts=False) for n in gn.walk() if n["k"] == "ReturnStmt"]
    pnn = [p["name"] for p in gn.params]
    run.ob("R5", "the record lives at memory + sizeOfMemoryWithCorruptionInfo(size)", gn.site, rets == ["(%s + sizeOfMemoryWithCorruptionInfo(%s))" % (pnn[0], pnn[1])], witness=rets)
    for f in (prog.fn(DET + "::allocateMemoryWithAccountingInformation"), prog.fn(DET + "::reallocateMemoryWithAccountingInformation")):
        run.analysed(f)
        sz = f.params[1 if "reallocate" not in f.name else 2]["name"]
        okp = True
        wit = []
        for p in enumerate_paths(f):
            sep = p.val().get(f.params[-1]["name"])
            r = render(f, f.node(p.ret.get("value")), keep_explicit_casts=False) if p.ret is not None else ""
            wit.append({"separate": sep, "returns": r})
            inner = "sizeOfMemoryWithCorruptionInfo(%s)" % sz
            if sep is True and ("(%s + sizeof(MemoryLeakDetectorNode))" % inner) in r:
                okp = False
            if sep is False and ("(%s + sizeof(MemoryLeakDetectorNode))" % inner) not in r:
                okp = False
            if inner not in r:
                okp = False
        run.ob("R5", "%s requests sizeOf(size) plus the record only in the inline layout" % f.name, f.site, okp, witness=wit)
    for f in (am, prog.fn(DET + "::reallocateMemoryAndLeakInformation")):
        run.analysed(f)
        cs = [render(f, c) for c in f.calls() if "createMemoryLeakAccountingInformation" in render(f, c)]
        szn = [p["name"] for p in f.params if p["name"] == "size"]
        ok = len(cs) == 1 and re.match(r"^createMemoryLeakAccountingInformation\(allocator, size, \w+, allocatNodesSeperately\)$", cs[0]) is not None
        run.ob("R5", "%s locates the record with the same size it allocated with" % f.name, f.site, ok, witness=cs)
    cm = prog.fn(DET + "::createMemoryLeakAccountingInformation")
    okc = True
    for p in enumerate_paths(cm):
        sep = p.val().get(cm.params[-1]["name"])
        r = render(cm, cm.node(p.ret.get("value")), keep_explicit_casts=False) if p.ret is not None else ""
        if sep is False and r != "getNodeFromMemoryPointer(%s, %s)" % (cm.params[2]["name"], cm.params[1]["name"]):
            okc = False
        if sep is True and "allocMemoryLeakNode(sizeof(MemoryLeakDetectorNode))" not in r:
            okc = False
    run.ob("R5", "inline record = getNodeFromMemoryPointer(memory, size); separate record = allocMemoryLeakNode(sizeof(record))", cm.site, okc)
    sl = prog.fn(DET + "::storeLeakInformation")
    cs = [render(sl, c) for c in sl.calls() if "addMemoryCorruptionInformation" in render(sl, c)]
    run.ob("R5", "guard bytes are written at memory + size", sl.site, cs == ["addMemoryCorruptionInformation((node->memory_ + node->size_))"], witness=cs)

    # ---------------- R2 ----------------------------------------------------
    targets = [("strdup_alloc", ("cpputest_malloc_location",)), ("cpputest_calloc_location", ("cpputest_malloc_location",)),
               (am.qn, ("allocateMemoryWithAccountingInformation", "createMemoryLeakAccountingInformation")),
               (DET + "::reallocateMemoryAndLeakInformation", ("reallocateMemoryWithAccountingInformation", "createMemoryLeakAccountingInformation"))]
    for qn, allocs in targets:
        f = am if qn == am.qn else prog.fn(qn)
        run.analysed(f)
        for inst, ok, wit, why in null_checked_uses(prog, f, allocs):
            run.ob("R2", "%s: %s" % (f.name, inst), f.site, ok, witness=wit, what=why)
    # the record pointer handed to storeLeakInformation in the separate layout comes from allocMemoryLeakNode, which may return NULL
    for f in (am, prog.fn(DET + "::reallocateMemoryAndLeakInformation")):
        for c in f.calls():
            if (prog.callee_name(f, c) or "").endswith("storeLeakInformation"):
                a0 = render(f, f.args(c)[0])
                pos = f.where_enclosing(c)
                held = {(atom(f, cn)[0], atom(f, cn)[1] == pol) for cn, pol, b in f.edge_conditions(pos)}
                ok = (a0, True) in held
                run.ob("R2", "%s: record pointer %s is known non-null where storeLeakInformation dereferences it" % (f.name, a0), f.site, ok, witness=sorted("%s%s" % ("" if v else "!", k) for k, v in held),
                       what="" if ok else "with separately allocated records allocMemoryLeakNode may return NULL and the record is initialised through it")

    # ---------------- R3 ----------------------------------------------------
    ra = prog.fn(DET + "::reallocateMemoryAndLeakInformation")
    null_paths = []
    for p in enumerate_paths(ra, inline=None):
        v = p.val()
        if v.get("new_memory") is False or v.get("(NULL == new_memory)") is True:
            names = [(prog.callee_name(ra, c) or "").split("::")[-1] for c in path_calls(prog, ra, p)]
            null_paths.append(names)
    removed_before = False
    readded = False
    for p in enumerate_paths(rm, inline=None):     # reallocMemory's own calls: the callee's failing path is judged separately above
        names = [(prog.callee_name(rm, c) or "").split("::")[-1] for c in path_calls(prog, rm, p)]
        if "removeNode" in names and "reallocateMemoryAndLeakInformation" in names and names.index("removeNode") < names.index("reallocateMemoryAndLeakInformation"):
            removed_before = True
        if "addNewNode" in names or "storeLeakInformation" in names:
            readded = True
    fails_clean = bool(null_paths) and all("storeLeakInformation" not in n and "addNewNode" not in n for n in null_paths)
    ok = not (removed_before and fails_clean and not readded)
    run.ob("R3", "a failing platform realloc leaves the old block tracked", rm.site, ok,
           witness={"record removed before the realloc attempt": removed_before, "NULL path of reallocateMemoryAndLeakInformation calls": null_paths, "re-inserted in reallocMemory": readded},
           what="" if ok else "reallocMemory removes the block's record (and may free a separate record) before PlatformSpecificRealloc is attempted; when it returns NULL the old block is still allocated but no longer tracked")

    # ---------------- R4 ----------------------------------------------------
    from .C10 import slot_vars
    slots = [s for s in slot_vars(prog) if s.startswith("operator_new")]
    fns = set()
    for s in slots:
        fns |= prog.slots().get(s, set())
    n4 = 0
    for mn in sorted(fns):
        f = prog.functions.get(mn)
        if f is None:
            continue
        n4 += 1
        run.analysed(f)
        nothrow = bool(f.d.get("nothrow"))
        throws = [n for n in f.walk() if n["k"] == "CXXThrowExpr"]
        if nothrow:
            ok = not throws
            why = "" if ok else "a nothrow operator new variant throws"
        else:
            ok = False
            why = "no path throws when the allocation result is NULL: the throwing form of operator new would return NULL"
            for p in enumerate_paths(f):
                v = p.val()
                if p.end == "throw" and (v.get("memory") is False or v.get("(NULL == memory)") is True):
                    ok, why = True, ""
            # and never returns a NULL result on a path where memory is NULL
            for p in enumerate_paths(f):
                v = p.val()
                if p.end == "return" and v.get("memory") is False:
                    ok, why = False, "returns although the allocation result is NULL"
        run.ob("R4", "%s (%s)" % (f.qn, "nothrow" if nothrow else "throwing"), f.site, ok, witness={"throw_expressions": len(throws)}, what=why)
    if n4 < 18:
        run.broke("only %d operator new implementations found in the slots (18 confirmed by hand)" % n4)

    # ---------------- R6 ----------------------------------------------------
    ms = [render(cal, c) for c in cal.calls() if (prog.callee_name(cal, c) or "") == "PlatformSpecificMemset"]
    mal = [render(cal, c) for c in cal.calls() if (prog.callee_name(cal, c) or "") == "cpputest_malloc_location"]
    ok = len(ms) == 1 and len(mal) == 1 and re.match(r"^PlatformSpecificMemset\(mem, 0, \(%s \* %s\)\)$" % (pn[0], pn[1]), ms[0]) is not None and mal[0].startswith("cpputest_malloc_location((%s * %s)," % (pn[0], pn[1]))
    run.ob("R6", "calloc zero-fills exactly the allocated product", cal.site, ok, witness={"memset": ms, "malloc": mal})
    sd = prog.fn("strdup_alloc")
    run.analysed(sd)
    spn = [p["name"] for p in sd.params]
    mal = [render(sd, c) for c in sd.calls() if (prog.callee_name(sd, c) or "") == "cpputest_malloc_location"]
    cp = [render(sd, c, keep_explicit_casts=False) for c in sd.calls() if (prog.callee_name(sd, c) or "") == "PlatformSpecificMemCpy"]
    a = [(l, render(sd, r)) for l, r, n in assignments(sd)]
    ok = mal == ["cpputest_malloc_location(%s, %s, %s)" % (spn[1], spn[2], spn[3])] and cp == ["PlatformSpecificMemCpy(result, %s, %s)" % (spn[0], spn[1])] and ("result[(%s - 1)]" % spn[1], "'\\x00'") in a
    run.ob("R6", "strdup_alloc copies size bytes into a size-byte block and terminates at size-1", sd.site, ok, witness={"malloc": mal, "copy": cp, "assign": a})
    for fn_, shape in (("cpputest_strdup_location", r"^\(1 \+ test_harness_c_strlen\(str\)\)$"), ("cpputest_strndup_location", None)):
        f = prog.fn(fn_)
        run.analysed(f)
        if shape:
            ini = {k: render(f, v) for k, v in local_inits(f).items()}
            ok = any(re.match(shape, v) for v in ini.values())
            run.ob("R6", "%s allocates strlen + 1 bytes (size >= 1)" % fn_, f.site, ok, witness=ini)
        else:
            # fold: length = min(strlen, n) + 1 for representative (strlen, n) incl. n = SIZE_MAX
            for L, n in ((0, 0), (5, 3), (5, 5), (5, 9), (5, SIZE_MAX), (0, SIZE_MAX), (7, SIZE_MAX - 1)):
                ev = Evaluator(prog, f, env={f.params[0]["name"]: 1, f.params[1]["name"]: n, f.params[2]["name"]: 2, f.params[3]["name"]: 3})
                got = []
                ev.calls["test_harness_c_strlen"] = lambda s, L=L: L
                ev.calls["strdup_alloc"] = lambda s, size, *a: (got.append(size), 0)[1]
                try:
                    ev.run_blocks(f.entry)
                    g = got[0] if got else None
                except Unknown as u:
                    g = "unknown: %s" % u
                want = min(L, n) + 1
                run.ob("R6", "strndup(strlen=%d, n=%d) allocates %d bytes" % (L, n, want), f.site, g == want and not getattr(ev, "wraps", None), witness={"folded": g},
                       what="" if g == want else "allocates %s bytes for a copy of %d characters plus terminator" % (g, min(L, n)))

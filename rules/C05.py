"""C05 — tracked allocations return sound blocks for every size, or fail cleanly. DESIGN.md section 4, C05."""
import re
from .common import *
from cpv.ceval import Evaluator, Unknown

DET = "MemoryLeakDetector"
SIZE_MAX = (1 << 64) - 1
DEST_FUNCS = {"PlatformSpecificMemCpy": 0, "PlatformSpecificMemset": 0}


def null_checked_uses(prog, f, alloc_names):
    """For every local that receives the result of a may-return-NULL allocation: each dereference / subscript /
    member access / use as destination of memcpy/memset must be dominated by a non-null fact.
    Yields (instance, ok, witness, why)."""
    out = []
    holders = {}
    for n in f.walk():
        if n["k"] == "DeclStmt":
            for d in n.get("decls", []):
                if d.get("init") is not None:
                    x = f.strip(d["init"])
                    if x is not None and x["k"] in CALL_KINDS and (prog.callee_name(f, x) or "").split("::")[-1] in [a.split("::")[-1] for a in alloc_names]:
                        holders[d["name"]] = render(f, x)
    for l, r, n in assignments(f):
        x = f.strip(r)
        if x is not None and x["k"] in CALL_KINDS and (prog.callee_name(f, x) or "").split("::")[-1] in [a.split("::")[-1] for a in alloc_names]:
            holders[l] = render(f, x)
    for var, src in sorted(holders.items()):
        uses = []
        for n in f.walk():
            how = None
            if n["k"] == "UnaryOperator" and n.get("op") == "*" and render(f, n["c"][0], keep_explicit_casts=False) == var:
                how = "*%s" % var
            elif n["k"] == "ArraySubscriptExpr" and render(f, f.node(n["base"]), keep_explicit_casts=False) == var:
                how = "%s[...]" % var
            elif n["k"] == "MemberExpr" and n.get("arrow") and n.get("base") is not None and render(f, f.node(n["base"]), keep_explicit_casts=False) == var:
                how = "%s->%s" % (var, n["name"])
            elif n["k"] in CALL_KINDS:
                nm = prog.callee_name(f, n)
                if nm in DEST_FUNCS:
                    a = f.args(n)
                    if len(a) > DEST_FUNCS[nm] and render(f, a[DEST_FUNCS[nm]], keep_explicit_casts=False) == var:
                        how = "%s(%s, ...)" % (nm, var)
            if how:
                uses.append((how, n))
        for how, n in uses:
            pos = f.where_enclosing(n)
            held = set()
            for c, pol, b in f.edge_conditions(pos):
                key, apol = atom(f, c)
                held.add((key, apol == pol))
            ok = (var, True) in held
            out.append(("%s (from %s) used as %s" % (var, short(src, 50), how), ok, sorted("%s%s" % ("" if v else "!", k) for k, v in held),
                        "" if ok else "the result of %s is used without a dominating null test" % short(src, 60)))
        if not uses:
            out.append(("%s (from %s) is only passed on or returned" % (var, short(src, 50)), True, "no dereference in this function", ""))
    return out


def check(ctx, run):
    prog = ctx.program()
    run.assume("the platform allocator returns suitably aligned, disjoint blocks of at least the requested size or NULL; realloc preserves contents (libc contract, trusted)")
    run.not_decided.append("alignment and disjointness of the blocks returned by the platform allocator; realloc content preservation")
    run.rule("R1", "size arithmetic cannot wrap: the composed size computations folded at the largest sizes their guards accept (all residues mod 8, both bookkeeping layouts) and at small sizes never wrap and cover size + guard bytes (+ record); calloc(num, size) folded around the overflow boundary", floor=60, exhaustive=True)
    run.rule("R2", "null-check before use: the result of a may-return-NULL allocation is not dereferenced, indexed or used as a memcpy/memset destination without a dominating null test", floor=6)
    run.rule("R3", "failure leaves tracking intact: no path of reallocMemory returns NULL for a failed platform realloc after the block's record was removed; a refused request leaves the detector's lock balanced in every allocating slot function", floor=1)
    run.rule("R4", "operator new family (SIBLING): throwing variants throw on a NULL result, nothrow variants never throw", floor=18)
    run.rule("R5", "layout: the aligned size is a multiple of sizeof(void*), at least size + guard bytes, for every residue and at the 2^32 / 2^63 boundaries; the allocation and reallocation paths folded over a heap model place guard bytes and record inside the requested block without overlap; lookup offset = placement offset", floor=40, exhaustive=True)
    run.rule("R6", "calloc zero-fills exactly the product under a null test; strdup_alloc copies size bytes into a size-byte block and terminates at size-1 with size >= 1", floor=5)

    # every member of the detector (and the file-static size helper) is transparent to the folds: helpers may come and go
    INL = ({g.qn for g in prog.functions.values() if g.qn.startswith(DET + "::")} | {"calculateVoidPointerAlignedSize"})
    am = [f for f in prog.fns(DET + "::allocMemory") if len(f.params) == 5][0]
    rm = prog.fn(DET + "::reallocMemory")
    run.analysed(am)
    run.analysed(rm)
    nodesz = None
    for f in prog.functions.values():
        for n in f.walk():
            if n["k"] == "UnaryExprOrTypeTraitExpr" and n.get("argt") == "MemoryLeakDetectorNode" and "cv" in n:
                nodesz = n["cv"]
    guard = [e["v"] for en in prog.enums.values() for e in en["enumerators"] if e["name"] == "memory_corruption_buffer_size"]
    guard = guard[0] if guard else None
    if nodesz is None or guard is None:
        raise AnalysisBroken("sizeof(MemoryLeakDetectorNode) or memory_corruption_buffer_size not found")

    def fold_alloc(f, size, sep, realloc=False):
        """fold the entry point up to the request made to the underlying allocator.
        returns (requested size or None when the entry point returns NULL first, wraps)"""
        pn = [p["name"] for p in f.params]
        env = {pn[i]: v for i, v in enumerate([1, 2, size, 3, 4, sep] if realloc else [1, size, 3, 4, sep])}
        if realloc:
            env[pn[1]] = 0      # memory == NULL: the pure allocation path of realloc
        ev = Evaluator(prog, f, env=env)
        ev.inline = INL
        ev.pass_object = True
        req = []
        ev.calls["TestMemoryAllocator::alloc_memory"] = lambda o, s, *a: (req.append(s), 0)[1]
        ev.calls["PlatformSpecificRealloc"] = lambda m, s: (req.append(s), 0)[1]
        try:
            ev.run_blocks(f.entry, max_steps=600)
        except Unknown as u:
            return ("unknown: %s" % u), []
        return (req[0] if req else None), list(getattr(ev, "wraps", []))

    # ---------------- R1 / R5 ---------------------------------------------------
    for f, realloc in ((am, False), (rm, True)):
        for sep in (0, 1):
            # largest accepted size: binary search on the (monotone) guard, then check the neighbourhood
            lo, hi = 0, SIZE_MAX
            r0, w0 = fold_alloc(f, SIZE_MAX, sep, realloc)
            if isinstance(r0, str):
                run.broke("%s cannot be folded: %s" % (f.qn, r0))
                continue
            if r0 is not None:
                T = SIZE_MAX
            else:
                while lo < hi:
                    mid = (lo + hi + 1) // 2
                    r, w = fold_alloc(f, mid, sep, realloc)
                    if r is None:
                        hi = mid - 1
                    else:
                        lo = mid
                T = lo
            tested = list(range(0, 20)) + [(1 << 32) - 9 + k for k in range(18)] + [(1 << 33) + 5, (1 << 63) - 1, (1 << 63), (1 << 63) + 5] + [T - k for k in range(0, 24)]
            for s in tested:
                if s < 0 or s > T:
                    continue
                r, w = fold_alloc(f, s, sep, realloc)
                need = s + guard + (0 if sep else nodesz)
                ok = isinstance(r, int) and not w and r >= need and (r - (0 if sep else nodesz)) % 8 == 0
                why = ""
                if not ok:
                    why = "request of %d bytes (%s layout) asks the allocator for %s bytes; %d are needed%s" % (s, "separate-record" if sep else "inline-record", r, need, "; arithmetic wrapped: %s" % w[:1] if w else "")
                run.ob("R1", "%s size %d, %s record" % (f.name, s, "separate" if sep else "inline"), f.site, ok, witness={"requested": r, "needed": need, "largest_accepted": T}, what=why)
            for s in (T + 1, T + 2, SIZE_MAX):
                if s > SIZE_MAX or s <= T:
                    continue
                r, w = fold_alloc(f, s, sep, realloc)
                run.ob("R1", "%s size %d is rejected before any allocation (%s record)" % (f.name, s, "separate" if sep else "inline"), f.site, r is None and not w, witness={"requested": r})
    cal = prog.fn("cpputest_calloc_location")
    run.analysed(cal)
    pn = [p["name"] for p in cal.params]
    pairs = [(0, 0), (0, 5), (5, 0), (1, 1), (3, 7), (SIZE_MAX, 1), (1, SIZE_MAX), (SIZE_MAX, 2), (2, SIZE_MAX), ((1 << 32), (1 << 32)), ((1 << 32) + 1, (1 << 32)),
             ((1 << 32) - 1, (1 << 32) + 1), (SIZE_MAX // 16 + 2, 16), (SIZE_MAX // 16, 16), (SIZE_MAX // 16 + 1, 16), ((1 << 63), 2), ((1 << 62), 4), ((1 << 62) - 1, 4), (SIZE_MAX // 3, 3), (SIZE_MAX // 3 + 1, 3)]
    for num, size in pairs:
        ev = Evaluator(prog, cal, env={pn[0]: num, pn[1]: size, pn[2]: 1, pn[3]: 2})
        req = []
        ev.calls["cpputest_malloc_location"] = lambda s, *a: (req.append(s), 0)[1]
        try:
            ev.run_blocks(cal.entry, max_steps=200)
            wr = list(getattr(ev, "wraps", []))
            got = req[0] if req else None
        except Unknown as u:
            got, wr = "unknown: %s" % u, []
        overflow = num * size > SIZE_MAX
        ok = (got is None and not req) if overflow else (got == num * size and not wr)
        run.ob("R1", "calloc(%d, %d)" % (num, size), cal.site, ok, witness={"malloc_request": got, "product": num * size if not overflow else "overflows"},
               what="" if ok else ("an overflowing product reaches the allocator as %s" % got if overflow else "request is %s" % got))
    # R5: the aligned size function itself
    cv = prog.fn("calculateVoidPointerAlignedSize")
    so = prog.fn(DET + "::sizeOfMemoryWithCorruptionInfo")
    run.analysed(cv)
    run.analysed(so)
    for s in list(range(0, 25)) + [(1 << 32) - 8 + k for k in range(17)] + [(1 << 33) + 5, (1 << 40) + 3, (1 << 63) + 1]:
        ev = Evaluator(prog, so, env={so.params[0]["name"]: s})
        ev.inline = INL
        try:
            ev.run_blocks(so.entry)
            got = getattr(ev, "ret", None)
        except Unknown as u:
            got = "unknown: %s" % u
        ok = isinstance(got, int) and got % 8 == 0 and got >= s + guard and got <= s + guard + 8 and not getattr(ev, "wraps", None)
        run.ob("R5", "aligned size for %d" % s, so.site, ok, witness={"folded": got, "size+guard": s + guard},
               what="" if ok else "the bookkeeping offset for a %d-byte block is %s: guard bytes or record do not fit, or the offset is not pointer-aligned" % (s, got))
    # whole allocation / reallocation paths folded over a heap model: where the guard bytes and the record land
    DINL = ({g.qn for g in prog.functions.values() if g.qn.startswith(DET + "::")} | {"MemoryLeakDetectorNode::init", "calculateVoidPointerAlignedSize"})
    M, N, OLD, OLDNODE = 70000, 90000, 50000, 6000

    def fold_layout(f, size, sep, realloc, mem_result=M, node_result=N):
        seq = []
        pn = [p["name"] for p in f.params]
        env = dict(zip(pn, (9000, OLD, size, 111000, 77, sep) if realloc else (9000, size, 111000, 77, sep)))
        from .shared import detector_state
        env.update(detector_state(prog, [("startChecking", [])]))
        # (the old block's record, as removeNode hands it out: a 12-byte block)
        if realloc:
            env.update({"@%d.size_" % OLDNODE: 12, "@%d.memory_" % OLDNODE: OLD})

        def h(name, ret):
            return lambda *a_: (seq.append((name, a_)), ret)[1]

        def check(*a_):
            # summary of checkForCorruption: a record that was allocated separately is released by it
            seq.append(("check", a_))
            if a_ and a_[-1]:
                seq.append(("freenode", (a_[0] if isinstance(a_[0], int) and a_[0] == OLDNODE else a_[1] if len(a_) > 1 else None,)))
            return 0
        ev = Evaluator(prog, f, env=env, calls={
            "TestMemoryAllocator::alloc_memory": h("alloc", mem_result), "PlatformSpecificRealloc": h("realloc", mem_result),
            "TestMemoryAllocator::allocMemoryLeakNode": h("allocnode", node_result), "TestMemoryAllocator::free_memory": h("free", 0),
            "TestMemoryAllocator::freeMemoryLeakNode": h("freenode", 0),
            "MemoryLeakDetectorTable::addNewNode": h("add", 0), "MemoryLeakDetectorTable::removeNode": h("remove", OLDNODE),
            DET + "::addMemoryCorruptionInformation": h("guard", 0), DET + "::checkForCorruption": check})
        ev.heap_mode = True
        ev.inline = DINL - set(ev.calls)
        try:
            ev.run_blocks(f.entry, max_steps=3000)
        except Unknown:
            if not getattr(ev, "null_derefs", None):
                raise
        nd = getattr(ev, "null_derefs", None)
        if nd:
            raise Unknown("null dereference: %s" % nd[0])
        r = getattr(ev, "ret", None)
        if isinstance(r, tuple):
            raise Unknown(str(r))
        heap = {k: v for k, v in ev.env.items() if k.startswith("@") and env.get(k) != v}      # (what the fold wrote)
        return r, seq, heap
    for f, realloc in ((am, False), (rm, True)):
        bad, ncase = None, 0
        for sep in (0, 1):
            for size in list(range(0, 18)) + [100, 4093, (1 << 32) + 3]:
                ncase += 1
                try:
                    r, seq, heap = fold_layout(f, size, sep, realloc)
                except Unknown as u:
                    run.broke("C05.R5: %s cannot be folded for size %d: %s" % (f.qn, size, u))
                    break
                kinds = [k for k, a_ in seq]
                req = [a_ for k, a_ in seq if k == ("realloc" if realloc else "alloc")]
                why = ""
                released = set()
                for k, a_ in seq:
                    if k == "freenode":
                        released.add(a_[-1])
                    elif k == "add" and a_[-1] in released:
                        why = "the record %s entered into the table was released before (a separately allocated record is released by checkForCorruption): the live block's record lies in freed storage" % (a_[-1],)
                if why:
                    pass
                elif realloc and not req and r == OLD:
                    run.broke("C05.R5: %s keeps the block in place for size %d: this rule cannot judge the capacity of the old block" % (f.qn, size))
                    break
                elif len(req) != 1:
                    why = "the underlying allocator is asked %d times" % len(req)
                else:
                    R_ = req[0][1] if realloc else req[0][0]
                    guards = [a_[-1] for k, a_ in seq if k == "guard"]
                    adds = [a_[-1] for k, a_ in seq if k == "add"]
                    if realloc and req[0][0] != OLD:
                        why = "realloc is applied to %s, not to the caller's block" % (req[0][0],)
                    elif guards != [M + size]:
                        why = "guard bytes written at %s, the user area ends at block + %d" % ([g - M for g in guards], size)
                    elif M + size + guard > M + R_:
                        why = "guard bytes end at offset %d of a %d-byte block" % (size + guard, R_)
                    elif len(adds) != 1:
                        why = "the record is entered into the table %d times" % len(adds)
                    else:
                        node = adds[0]
                        if sep:
                            an = [a_ for k, a_ in seq if k == "allocnode"]
                            if node != N or len(an) != 1 or an[0][-1] != nodesz:
                                why = "separate layout: the record is %s, allocMemoryLeakNode was asked %s (record size %d)" % (node, [a_[-1] for a_ in an], nodesz)
                        else:
                            if not (M + size + guard <= node and node + nodesz <= M + R_ and (node - M) % 8 == 0):
                                why = "inline layout: the record occupies [%d, %d) of a %d-byte block whose user area and guard end at %d" % (node - M, node - M + nodesz, R_, size + guard)
                            elif "allocnode" in kinds:
                                why = "inline layout allocates a separate record as well"
                        if not why:
                            rec = {k.split(".")[1]: v for k, v in heap.items() if k.startswith("@%d." % node)}
                            if rec.get("memory_") != M or rec.get("size_") != size or r != M:
                                why = "the record describes block %s of %s bytes, the caller gets %s (expected %d, %d, %d)" % (rec.get("memory_"), rec.get("size_"), r, M, size, M)
                if why and bad is None:
                    bad = "size %d, %s record: %s" % (size, "separate" if sep else "inline", why)
        run.ob("R5", "%s folded over a heap model (%d sizes x both layouts): one request; guard bytes directly behind the user area and inside the block; inline record pointer-aligned behind the guard and inside the block, separate record from allocMemoryLeakNode(sizeof record); the record describes (block, size); the block is returned" % (f.name, ncase // 2),
               f.site, bad is None, witness=bad or "%d cases" % ncase, what=bad or "")
    # lookup side: getNodeFromMemoryPointer agrees with the inline offset used above for every size
    gn = prog.fn(DET + "::getNodeFromMemoryPointer")
    run.analysed(gn)
    badg = None
    for size in list(range(0, 18)) + [100, 4093]:
        ev = Evaluator(prog, gn, env={gn.params[0]["name"]: M, gn.params[1]["name"]: size})
        ev.heap_mode = True
        ev.inline = DINL
        try:
            ev.run_blocks(gn.entry, max_steps=300)
            got = getattr(ev, "ret", None)
            r, seq, heap = fold_layout(am, size, 0, False)
            want = [a_[-1] for k, a_ in seq if k == "add"][0]
        except (Unknown, IndexError) as u:
            run.broke("C05.R5: getNodeFromMemoryPointer cannot be folded for size %d: %s" % (size, u))
            break
        if got != want and badg is None:
            badg = "size %d: lookup computes block + %s, allocation placed the record at block + %d" % (size, got - M if isinstance(got, int) else got, want - M)
    run.ob("R5", "getNodeFromMemoryPointer(block, size) is where the allocation path placed the inline record, for every size folded", gn.site, badg is None, witness=badg or "20 sizes", what=badg or "")
    # failure paths
    for f, realloc in ((am, False),):
        why1 = why2 = ""
        seq, seq2 = [], []
        try:
            r, seq, heap = fold_layout(f, 13, 0, realloc, mem_result=0)
            ok1 = r == 0 and not [k for k, a_ in seq if k in ("add", "guard")] and not heap
        except Unknown as u:
            if "null dereference" not in str(u):
                run.broke("C05.R5: failure path of %s cannot be folded: %s" % (f.qn, u))
                continue
            ok1, why1 = False, "the NULL block is written through: %s" % u
        try:
            r2, seq2, heap2 = fold_layout(f, 13, 1, realloc, node_result=0)
            fr = [a_ for k, a_ in seq2 if k == "free"]
            ok2 = r2 == 0 and not [k for k, a_ in seq2 if k in ("add", "guard")] and len(fr) == 1 and fr[0][:2] == (M, 13) and not heap2
        except Unknown as u:
            if "null dereference" not in str(u):
                run.broke("C05.R5: failure path of %s cannot be folded: %s" % (f.qn, u))
                continue
            ok2, why2 = False, "the record is initialised through the NULL pointer allocMemoryLeakNode returned: %s" % u
        run.ob("R5", "%s folded with a failing allocator: NULL is returned, nothing is written or entered" % f.name, f.site, ok1, witness=seq, what=why1)
        run.ob("R5", "%s folded with a failing record allocation (separate layout): the block is released with its size, NULL is returned, nothing is written through the NULL record" % f.name, f.site, ok2, witness=[(k, a_[:2]) for k, a_ in seq2], what=why2)

    # ---------------- R2 ----------------------------------------------------
    targets = [("strdup_alloc", ("cpputest_malloc_location",)), ("cpputest_calloc_location", ("cpputest_malloc_location",)),
               (am.qn, ("allocateMemoryWithAccountingInformation", "createMemoryLeakAccountingInformation"))]
    for qn, allocs in targets:
        f = am if qn == am.qn else prog.fn(qn)
        run.analysed(f)
        for inst, ok, wit, why in null_checked_uses(prog, f, allocs):
            run.ob("R2", "%s: %s" % (f.name, inst), f.site, ok, witness=wit, what=why)
    # the record pointer handed to storeLeakInformation in the separate layout comes from allocMemoryLeakNode, which may return NULL
    for f in (am,):
        for c in f.calls():
            if (prog.callee_name(f, c) or "").endswith("storeLeakInformation"):
                a0 = render(f, f.args(c)[0])
                pos = f.where_enclosing(c)
                held = {(atom(f, cn)[0], atom(f, cn)[1] == pol) for cn, pol, b in f.edge_conditions(pos)}
                ok = (a0, True) in held
                run.ob("R2", "%s: record pointer %s is known non-null where storeLeakInformation dereferences it" % (f.name, a0), f.site, ok, witness=sorted("%s%s" % ("" if v else "!", k) for k, v in held),
                       what="" if ok else "with separately allocated records allocMemoryLeakNode may return NULL and the record is initialised through it")
    # the reallocation path, whichever helpers it is spread over: reallocMemory folded with each allocation failing in turn
    for sep in (0, 1):
        try:
            r, seq, heap = fold_layout(rm, 13, sep, True, mem_result=0)
            ok = r == 0 and not [k for k, a_ in seq if k in ("add", "guard")] and not heap
            why = "" if ok else "returns %s after %s" % (r, [k for k, a_ in seq])
        except Unknown as u:
            if "null dereference" not in str(u):
                raise AnalysisBroken("C05.R2: reallocMemory cannot be folded with a failing platform realloc: %s" % u)
            ok, why, seq = False, str(u), []
        run.ob("R2", "reallocMemory folded with a failing platform realloc (%s record): NULL is returned, nothing is written through it" % ("separate" if sep else "inline"), rm.site, ok, witness=[k for k, a_ in seq], what=why)
    try:
        r, seq, heap = fold_layout(rm, 13, 1, True, node_result=0)
        ok, why = r == 0 and not [k for k, a_ in seq if k in ("add", "guard")], ""
        if not ok:
            why = "with a NULL record the block is still entered or guarded: %s" % [k for k, a_ in seq]
    except Unknown as u:
        if "null dereference" not in str(u):
            raise AnalysisBroken("C05.R2: reallocMemory cannot be folded with a failing record allocation: %s" % u)
        ok, why, seq = False, "with separately allocated records allocMemoryLeakNode may return NULL and the record is used without a null test (%s)" % u, []
    run.ob("R2", "reallocMemory folded with a failing record allocation (separate layout): nothing is dereferenced through the NULL record", rm.site, ok, witness=why or [k for k, a_ in seq], what=why)

    # ---------------- R3 ----------------------------------------------------
    untracked, wit = False, {}
    for sep in (0, 1):
        try:
            r, seq, heap = fold_layout(rm, 13, sep, True, mem_result=0)
            kinds = [k for k, a_ in seq]
        except Unknown as u:
            if "null dereference" in str(u):
                continue            # reported under R2
            raise AnalysisBroken("C05.R3: reallocMemory cannot be folded with a failing platform realloc: %s" % u)
        wit["separate" if sep else "inline"] = kinds
        if "remove" in kinds and "realloc" in kinds and kinds.index("remove") < kinds.index("realloc") and "add" not in kinds[kinds.index("realloc"):]:
            untracked = True
    run.ob("R3", "a failing platform realloc leaves the old block tracked", rm.site, not untracked, witness=wit,
           what="" if not untracked else "reallocMemory removes the block's record (and may free a separate record) before PlatformSpecificRealloc is attempted; when it returns NULL the old block is still allocated but no longer tracked")

    # a request the detector itself rejects (size arithmetic would overflow) must not have touched the live block's record
    for sep in (0, 1):
        for size in (SIZE_MAX, SIZE_MAX - 7, SIZE_MAX - 17):
            try:
                r, seq, heap = fold_layout(rm, size, sep, True)
            except Unknown as u:
                run.broke("C05.R3: reallocMemory cannot be folded for an overflowing size: %s" % u)
                continue
            kinds = [k for k, a_ in seq]
            ok = r == 0 and not kinds
            run.ob("R3", "reallocMemory of a live block to %d bytes (%s record): rejected with NULL before the block's record is touched" % (size, "separate" if sep else "inline"), rm.site, ok, witness={"returns": r, "calls": kinds},
                   what="" if ok else "the overflowing request returns %s after %s: the old block is still allocated but no longer tracked" % (r, kinds))

    # a reallocated block keeps its contents: every function a switch stores in the realloc slot, folded, hands the OLD block to the
    # detector's reallocMemory untouched (nothing poisons or releases it first)
    from .C10 import slot_fold, slot_targets
    rfs = slot_targets(prog, "realloc_fptr")
    if not rfs:
        raise AnalysisBroken("C05.R3: no tracked function is ever stored in realloc_fptr")
    for g in rfs:
        run.analysed(g)
        try:
            ev_, r_, end_, env_ = slot_fold(prog, g)
        except Unknown as u:
            raise AnalysisBroken("C05.R3: %s cannot be folded: %s" % (g.qn, u))
        work = [e_[1] for e_ in ev_ if e_[0] == "detector"]
        if not work:
            continue                 # (the untracked function of the switched-off mode)
        ntracked = locals().get("ntracked", 0) + 1
        ok = work == ["reallocMemory"]
        run.ob("R3", "%s (stored in the realloc slot) folded: the old block reaches reallocMemory untouched" % g.name, g.site, ok, witness=work,
               what="" if ok else "the detector is asked to %s: the old contents are poisoned or released before they can be carried over" % work)
    if locals().get("ntracked", 0) < 2:
        raise AnalysisBroken("C05.R3: fewer than two tracked realloc functions (default and thread-safe) found in the realloc slot")

    # a request that is refused leaves every existing block usable: each function a switch stores in an allocating slot, folded with
    # the detector answering NULL, has released the detector's lock as often as it took it by the time it returns NULL or throws
    # (a lock left held blocks every later request and release)
    from .C10 import slot_vars as slot_vars_
    nref = 0
    for s_ in [x for x in slot_vars_(prog) if not x.startswith("saved_") and x.startswith(("operator_new", "malloc_fptr", "realloc_fptr"))]:
        for g in slot_targets(prog, s_):
            def touches_detector(h, depth=2):
                for c_ in h.calls():
                    nm_ = prog.callee_name(h, c_) or ""
                    if nm_.endswith("getGlobalDetector"):
                        return True
                    cc_ = c_.get("callee")
                    if depth and cc_ and cc_.get("mn") in prog.functions and touches_detector(prog.functions[cc_["mn"]], depth - 1):
                        return True
                return False
            if not touches_detector(g):
                continue                 # (the untracked function of the switched-off mode: it has no lock to leave held)
            try:
                ev_, r_, end_, env_ = slot_fold(prog, g, alloc_answer=0)
            except Unknown as u:
                raise AnalysisBroken("C05.R3: %s cannot be folded with the detector refusing the request: %s" % (g.qn, u))
            if not [e_ for e_ in ev_ if e_[0] == "detector"]:
                continue
            run.analysed(g)
            nref += 1
            lk, ul = [e_ for e_ in ev_ if e_[0] == "acquired"], [e_ for e_ in ev_ if e_[0] == "released"]
            ok = len(lk) == len(ul)
            run.ob("R3", "%s (slot %s) folded with the detector refusing the request: leaves by %s with the detector's lock released as often as taken" % (g.name, s_, end_), g.site, ok,
                   witness={"locked": len(lk), "unlocked": len(ul)}, what="" if ok else "the refused request leaves the detector's mutex locked (%d lock, %d unlock): every later request or release blocks" % (len(lk), len(ul)))
    if nref < 8:
        raise AnalysisBroken("C05.R3: only %d tracked allocating slot functions found (default and thread-safe variants of new, new[], malloc, realloc)" % nref)

    # ---------------- R4 ----------------------------------------------------
    from .C10 import slot_vars
    slots = [s for s in slot_vars(prog) if s.startswith("operator_new")]
    fns = set()
    for s in slots:
        fns |= prog.slots().get(s, set())
    n4 = 0
    for mn in sorted(fns):
        f = prog.functions.get(mn)
        if f is None:
            continue
        n4 += 1
        run.analysed(f)
        nothrow = bool(f.d.get("nothrow"))
        throws = [n for n in f.walk() if n["k"] == "CXXThrowExpr"]
        # folded with the detector's allocation answering NULL / a block
        outcome = {}
        for res in (0, 70000):
            ev = Evaluator(prog, f, env={q["name"]: 5 + i for i, q in enumerate(f.params)}, calls={DET + "::allocMemory": lambda *a_, res=res: res, "PlatformSpecificMalloc": lambda *a_, res=res: res})
            try:
                end, _ = ev.run_blocks(f.entry, max_steps=400)
                rv = getattr(ev, "ret", None)
                outcome[res] = "throws" if end == "throw" else ("unknown: %s" % (rv,) if isinstance(rv, tuple) else "returns %s" % (rv,))
            except Unknown as u:
                outcome[res] = "unknown: %s" % u
        if any(o.startswith("unknown") for o in outcome.values()):
            run.broke("C05.R4: %s cannot be folded: %s" % (f.qn, outcome))
            continue
        if nothrow:
            ok = outcome == {0: "returns 0", 70000: "returns 70000"}
            why = "" if ok else "a nothrow operator new variant %s for a NULL result and %s for a block" % (outcome[0], outcome[70000])
        else:
            ok = outcome == {0: "throws", 70000: "returns 70000"}
            why = "" if ok else ("no path throws when the allocation result is NULL: the throwing form of operator new %s" % outcome[0] if outcome[0] != "throws" else "a successful allocation %s" % outcome[70000])
        run.ob("R4", "%s (%s)" % (f.qn, "nothrow" if nothrow else "throwing"), f.site, ok, witness={"throw_expressions": len(throws), "folded": {str(k): v for k, v in outcome.items()}}, what=why)
    if n4 < 18:
        run.broke("only %d operator new implementations found in the slots (18 confirmed by hand)" % n4)

    # ---------------- R6 ----------------------------------------------------
    badc = None
    for num, size, res in ((3, 7, 70000), (1, 1, 70000), (0, 5, 70000), (5, 0, 70000), (16, 4096, 70000), (3, 7, 0)):
        seq = []
        ev = Evaluator(prog, cal, env={pn[0]: num, pn[1]: size, pn[2]: 1, pn[3]: 2}, calls={
            "cpputest_malloc_location": lambda *a_, res=res: (seq.append(("malloc", a_)), res)[1],
            "PlatformSpecificMemset": lambda *a_: (seq.append(("memset", a_)), a_[0])[1]})
        try:
            ev.run_blocks(cal.entry, max_steps=200)
            r = getattr(ev, "ret", None)
        except Unknown as u:
            run.broke("C05.R6: calloc cannot be folded: %s" % u)
            break
        want = [("malloc", (num * size, 1, 2))] + ([("memset", (res, 0, num * size))] if res else [])
        if (seq != want or r != res) and badc is None:
            badc = "calloc(%d, %d) with malloc answering %s: folded %s -> %s, expected %s" % (num, size, res, seq, r, want)
    run.ob("R6", "calloc folded: allocates num*size bytes, zero-fills exactly those bytes of the block it got, touches nothing when the allocation failed", cal.site, badc is None, witness=badc or "6 cases", what=badc or "")
    # strdup / strndup folded end to end (the file-static helpers inlined, the string a modelled array): one allocation of
    # copied+1 bytes, the copied characters and a terminator inside it, nothing touched when the allocation failed
    def fold_dup(f, text, n, res):
        seq = []
        env = {f.params[0]["name"]: ("ptr", "S", 0)}
        for i_, ch in enumerate(text + "\0"):
            env["S[%d]" % i_] = ord(ch)
        rest = [q["name"] for q in f.params[1:]]
        vals = ([n] if len(rest) == 3 else []) + [1, 2]
        env.update(dict(zip(rest, vals)))
        ev = Evaluator(prog, f, env=env, calls={
            "cpputest_malloc_location": lambda *a_, res=res: (seq.append(("malloc", a_)), res)[1],
            "PlatformSpecificMemCpy": lambda *a_: (seq.append(("memcpy", a_)), a_[0])[1]})
        ev.heap_mode = True
        ev.inline = {g.qn for g in prog.functions.values() if g.file == f.file and not g.cls} - set(ev.calls)
        ev.run_blocks(f.entry, max_steps=20000)
        st = [(k, v) for k, v in ev.stores if k.startswith("@")]
        return seq, st, getattr(ev, "ret", None), list(getattr(ev, "wraps", []))
    for fn_, has_n in (("cpputest_strdup_location", False), ("cpputest_strndup_location", True)):
        f = prog.fn(fn_)
        run.analysed(f)
        cases = [("", None), ("a", None), ("hello", None), ("x" * 40, None)] if not has_n else [("", 0), ("hello", 3), ("hello", 5), ("hello", 9), ("hello", SIZE_MAX), ("", SIZE_MAX), ("sevench", SIZE_MAX - 1), ("hello", 0)]
        for text, n in cases:
            for res in (70000, 0):
                copied = len(text) if n is None else min(len(text), n)
                inst = "%s(%r%s) with the allocator answering %s" % (fn_.replace("cpputest_", "").replace("_location", ""), text if len(text) < 10 else text[:6] + "...", "" if n is None else ", n=%d" % n, "a block" if res else "NULL")
                try:
                    seq, st, r, wraps = fold_dup(f, text, n, res)
                except Unknown as u:
                    run.broke("C05.R6: %s cannot be folded: %s" % (fn_, u))
                    continue
                why = ""
                mallocs = [a_ for k, a_ in seq if k == "malloc"]
                copies = [a_ for k, a_ in seq if k == "memcpy"]
                if wraps:
                    why = "size arithmetic wraps: %s" % (wraps[:1],)
                elif len(mallocs) != 1 or mallocs[0][0] != copied + 1:
                    why = "allocates %s bytes for a copy of %d characters plus terminator" % ([a_[0] for a_ in mallocs], copied)
                elif not res:
                    if copies or st or r != 0:
                        why = "the allocation failed but memory is written (%s, %s) or %s is returned" % (copies, st, r)
                else:
                    term = ("@%d[%d]" % (res, copied), 0) in st or (copies and copies[0][2] == copied + 1 and copied == len(text))
                    beyond = [k for k, v in st if not re.match(r"^@%d\[(\d+)\]$" % res, k) or int(re.match(r"^@%d\[(\d+)\]$" % res, k).group(1)) > copied]
                    if len(copies) != 1 or copies[0][0] != res or copies[0][1] != ("ptr", "S", 0) or not (copied <= copies[0][2] <= copied + 1) or copies[0][2] > len(text) + 1:
                        why = "copies %s; expected %d or %d bytes from the argument into the new block" % (copies, copied, copied + 1)
                    elif not term or beyond or r != res:
                        why = "the copy is not terminated at index %d inside the block (stores %s), or %s is returned instead of the block" % (copied, st, r)
                run.ob("R6", inst + ": %d+1 bytes allocated, the characters copied, terminated inside the block" % copied, f.site, not why, witness=why or {"malloc": mallocs[0][0] if mallocs else None, "memcpy": copies[0][2] if copies else None}, what=why)
